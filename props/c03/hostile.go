package main

// Hostile-caller histories: ONE binder / handler instance serves two
// consecutive requests. The handler owns what it is handed, so after the first
// request the harness overwrites every element of every slice (and every byte
// of every byte string) it was handed and empties the parameter map; the second
// request must then be answered exactly as a fresh instance of the same
// declaration answers it (which the main sweep judges by the reference): the
// value a parameter is bound to is a function of the declaration and the
// request only ("exactly the value its declared type denotes for the text the
// client sent ... the declared default when the parameter is absent or empty").

import (
	"fmt"
	"reflect"

	"verif/engine/enum"
	"verif/engine/report"
)

// scribble overwrites, in place, all storage reachable from a bound value.
func scribble(x interface{}) {
	if x == nil {
		return
	}
	scribbleValue(reflect.ValueOf(x))
}

func scribbleValue(v reflect.Value) {
	switch v.Kind() { //nolint:exhaustive
	case reflect.Slice:
		for i := 0; i < v.Len(); i++ {
			scribbleValue(v.Index(i))
		}
	case reflect.Ptr:
		if !v.IsNil() {
			scribbleValue(v.Elem())
		}
	case reflect.Interface:
		if !v.IsNil() {
			scribbleValue(v.Elem())
		}
	}
	if !v.CanSet() {
		return // the top-level copy the harness holds; its elements were reached above
	}
	switch v.Kind() { //nolint:exhaustive
	case reflect.Int, reflect.Int8, reflect.Int16, reflect.Int32, reflect.Int64:
		v.SetInt(^v.Int())
	case reflect.Uint, reflect.Uint8, reflect.Uint16, reflect.Uint32, reflect.Uint64:
		v.SetUint(^v.Uint())
	case reflect.Float32, reflect.Float64:
		v.SetFloat(-12345.5 - v.Float())
	case reflect.Bool:
		v.SetBool(!v.Bool())
	case reflect.String:
		v.SetString("\x00scribbled:" + v.String())
	}
}

// afterObservation: the hostile caller's turn (a no-op for the ordinary sweeps).
func (p *prepared) afterObservation(x interface{}) {
	if !p.hostile {
		return
	}
	scribble(x)
	if p.got != nil {
		for k, v := range p.got.params {
			scribble(v)
			delete(p.got.params, k)
		}
	}
}

// historyAlphabet: the requests histories are built from.
func historyAlphabet(d Decl) []Req {
	first, last := firstLast(d)
	w := d.Name
	if d.Loc == "path" {
		return []Req{{Wire: w, Texts: txts(first)}, {Wire: w, Texts: txts(last)}}
	}
	return []Req{{Wire: w}, {Wire: w, Texts: txts("")}, {Wire: w, Texts: txts(first)}, {Wire: w, Texts: txts(last)}, {Wire: w, Texts: txts(first, last)}}
}

// checkHistory runs prior requests (each followed by the hostile caller) and then q on one
// instance and compares with a fresh instance. Pure: used by the sweep and by replay.
func checkHistory(level string, d Decl, prior []Req, q Req) (cl, what string, o, fo obs, ok bool) {
	p := prepare(level, d)
	p.hostile = true
	for _, pq := range prior {
		if _, ok := p.execute(pq); !ok {
			return "", "", o, fo, false
		}
	}
	o, ok = p.execute(q)
	if !ok {
		return "", "", o, fo, false
	}
	fo, _ = prepare(level, d).execute(q)
	cl, what = compareHistory(level, d, len(prior), q, o, fo)
	return cl, what, o, fo, true
}

func compareHistory(level string, d Decl, nprior int, q Req, o, fo obs) (cl, what string) {
	if sameObs(o, fo) {
		return "", ""
	}
	e := reference(d, q)
	what = fmt.Sprintf("after %d earlier request(s) on the same instance whose bound values the caller overwrote: observed %s; a fresh instance of the same declaration gives %s; the declaration demands: %s", nprior, o, fo, e)
	if jc, _ := judge(level, d, q, e, o); jc != "" {
		return "hostile-caller/" + jc, what
	}
	return "hostile-caller/differs-from-fresh-instance", what
}

func hostileSweep(r *report.R, decls []Decl, thorough bool) {
	type job struct {
		level string
		d     Decl
	}
	var jobs []job
	for _, d := range decls {
		if d.Type == "file" {
			continue // a file is a stream the handler consumes, not a value that could be shared
		}
		for _, l := range []string{"map", "struct", "handler"} {
			if l == "handler" && !thorough && !(quickHandlerSlice(d) && d.Default) {
				continue
			}
			jobs = append(jobs, job{l, d})
		}
	}
	r.Set("hostile_caller_histories", map[string]any{
		"declaration_x_level": len(jobs),
		"levels":              "map, struct, handler (quick: handler for the declarations with a default of the quick handler slice)",
		"request_alphabet":    "absent, empty, valid text A, valid text B, A then B (path: A, B)",
		"history":             "every ordered pair (a = earlier request, b = judged request) of the alphabet: 25 per declaration and level (path: 4); one binder / handler instance per a serves a,b1,a,b2,...,a,b5, so every b directly follows a and also follows the earlier pairs (the replay file lists all requests that came before)",
		"hostile_caller":      "after every request every element of every bound slice / byte string is overwritten in place and the handler's parameter map is emptied",
		"oracle":              "the judged request must be answered exactly as by a fresh instance of the declaration (status, message, handler runs, value, Go type)",
	})
	enum.Parallel(len(jobs), r.OutOfTime, func(i int) {
		j := jobs[i]
		alpha := historyAlphabet(j.d)
		var evals, nontrivial int64
		outcomes := map[string]int64{}
		// what a fresh instance answers to each request of the alphabet (one instance per request)
		fresh := make([]obs, len(alpha))
		freshOK := make([]bool, len(alpha))
		for k, q := range alpha {
			fresh[k], freshOK[k] = prepare(j.level, j.d).execute(q)
			evals++
		}
		for ka, a := range alpha {
			if !freshOK[ka] {
				continue
			}
			// one instance per earlier request a: it serves a, b1, a, b2, ... ; the caller overwrites
			// what it was handed after every request; every b is judged. Prior = all that came before.
			p := prepare(j.level, j.d)
			p.hostile = true
			var prior []Req
			for kb, b := range alpha {
				if !freshOK[kb] {
					continue
				}
				p.execute(a)
				prior = append(prior, a)
				o, _ := p.execute(b)
				evals += 2
				nontrivial++
				switch {
				case o.Panic != "":
					outcomes["hostile:"+j.level+":panic"]++
				case o.Status != 200:
					outcomes[fmt.Sprintf("hostile:%s:refused-%d", j.level, o.Status)]++
				case o.V.K == "list":
					outcomes["hostile:"+j.level+":bound-list"]++
				default:
					outcomes["hostile:"+j.level+":bound-scalar"]++
				}
				if cl, what := compareHistory(j.level, j.d, len(prior), b, o, fresh[kb]); cl != "" {
					r.Fail(cl, what, Case{Level: j.level, D: j.d, Q: b, Prior: append([]Req(nil), prior...)})
				}
				prior = append(prior, b)
			}
		}
		r.Eval(evals)
		r.Nontrivial(nontrivial)
		for k, v := range outcomes {
			r.Outcome(k, v)
		}
	})
}

func replayHostile(r *report.R, c Case) {
	cl, what, o, fo, ok := checkHistory(c.Level, c.D, c.Prior, c.Q)
	fmt.Printf("replay level=%s (hostile-caller history, %d earlier request(s))\n  parameter: %v\n", c.Level, len(c.Prior), c.D.paramJSON())
	if !ok {
		fmt.Println("  the case cannot be put on the wire; nothing executed")
	} else {
		fmt.Printf("  observed: %s\n  fresh instance: %s\n  class=%q %s\n", o, fo, cl, what)
		if cl != "" {
			r.Fail(cl, what, c)
		}
	}
	r.Eval(int64(len(c.Prior)) + 2)
	r.Nontrivial(1)
	r.Sample(c)
	r.Finish("replay of one case", false)
}
