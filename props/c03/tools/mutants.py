# Detection demo for C03 (see ../MUTANTS.md). Usage:
#   git -C /repo worktree add -q /tmp/c03-mut HEAD
#   python3 /verif/props/c03/tools/mutants.py [mutant-name ...]
#   git -C /repo worktree remove --force /tmp/c03-mut
# For each mutant: edit one place in the scratch worktree, run the repository's own tests,
# run `VERIF_REPO=/tmp/c03-mut /verif/run C03 quick`, print the classes. /repo is never touched.
import subprocess,sys,os
WT='/tmp/c03-mut'
env=dict(os.environ,GOFLAGS='-mod=mod',GOPROXY='off',GOSUMDB='off',GOTOOLCHAIN='local')
def sh(c,**k): return subprocess.run(c,shell=True,capture_output=True,text=True,env=env,**k)
M={
 'M1-first-occurrence-wins':('middleware/parameter.go','		d = data[len(data)-1]\n','		d = data[0]\n'),
 'M2-no-int-overflow-check':('middleware/parameter.go','''		if target.OverflowInt(i) {
			return errors.InvalidType(p.Name, p.parameter.In, tpe, data)
		}
''',''),
 'M3-required-ignores-allowEmptyValue':('middleware/parameter.go','''	if (!hasKey || (!p.parameter.AllowEmptyValue && data == "")) && p.parameter.Required && p.parameter.Default == nil {''','''	if (!hasKey || data == "") && p.parameter.Required && p.parameter.Default == nil {'''),
 'M4-multi-split-as-csv':('middleware/parameter.go','''			vv, hasKey, _ := values.GetOK(name)
			return vv, false, hasKey, nil
		}
''','''			vv, hasKey, hasValue := values.GetOK(name)
			if !hasValue {
				return nil, false, hasKey, nil
			}
			return swag.SplitByFormat(vv[len(vv)-1], "csv"), false, hasKey, nil
		}
'''),
 'M5-no-float-overflow-check':('middleware/parameter.go','''		if target.OverflowFloat(f) {
			return errors.InvalidType(p.Name, p.parameter.In, tpe, data)
		}
''',''),
 'M6-parseint-base0':('middleware/parameter.go','i, err := strconv.ParseInt(data, 10, 64)','i, err := strconv.ParseInt(data, 0, 64)'),
 'M7-int-default-ignored':('middleware/parameter.go','''				rd := defVal.Convert(reflect.TypeOf(int64(0)))
				target.SetInt(rd.Int())''','''				target.SetInt(0)'''),
 'M8-form-reads-query-too':('middleware/parameter.go','p.readValue(runtime.Values(request.PostForm), target)','p.readValue(runtime.Values(request.Form), target)'),
 'M9x-skip':('middleware/router.go','''					v, err := url.PathUnescape(p.Value)
''','''					v, err := p.Value, error(nil)
'''),
 'M9b-path-not-unescaped':('middleware/router.go','''					v, err := url.PathUnescape(p.Value)
''','''					v, err := p.Value, error(nil)
					_ = url.PathUnescape
'''),
 'M22-array-splits-first-occurrence':('middleware/parameter.go','d, c, e := p.readFormattedSliceFieldValue(v[len(v)-1], target)','d, c, e := p.readFormattedSliceFieldValue(v[0], target)'),
 'M26-string-default-ignored-when-empty':('middleware/parameter.go',"""		if value == "" {
			value = defVal.String()
		}
""",''),
 'M28-handler-runs-after-refusal':('middleware/context.go',"""						context.Respond(w, r, route.Produces, route, validation)
						return
					}

					// actually""","""						context.Respond(w, r, route.Produces, route, validation)
					}

					// actually"""),
 'M30-int8-bound-as-int16':('middleware/parameter.go','''		case "int8":
			return reflect.TypeOf(int8(0))''','''		case "int8":
			return reflect.TypeOf(int16(0))'''),
 'M36-unmarshal-error-swallowed':('middleware/parameter.go','''		if err := value.Interface().(encoding.TextUnmarshaler).UnmarshalText([]byte(data)); err != nil {
			return true, err
		}''','''		if err := value.Interface().(encoding.TextUnmarshaler).UnmarshalText([]byte(data)); err != nil {
			return true, nil
		}'''),
 'M10-required-error-unnamed':('middleware/parameter.go','''		return errors.Required(p.Name, p.parameter.In, data)
	}

	ok, err := p.tryUnmarshaler''','''		return errors.Required("", p.parameter.In, data)
	}

	ok, err := p.tryUnmarshaler'''),
 'M11-int32-bound-as-int64':('middleware/parameter.go','''		case "int32":
			return reflect.TypeOf(int32(0))''','''		case "int32":
			return reflect.TypeOf(int64(0))'''),
 'M12-validator-skipped-for-slices':('middleware/request.go','''		if binder.validator != nil {''','''		if binder.validator != nil && target.Kind() != reflect.Slice {'''),
 'M13-slice-required-ignores-empty':('middleware/parameter.go','''	if (!hasKey || (!p.parameter.AllowEmptyValue && (sz == 0 || (sz == 1 && data[0] == "")))) && p.parameter.Required && defaultValue == nil {''','''	if !hasKey && p.parameter.Required && defaultValue == nil {'''),
 'M14-header-uses-first-line-only':('middleware/parameter.go','''		data, custom, hasKey, err := p.readValue(runtime.Values(request.Header), target)''','''		data, custom, hasKey, err := p.readValue(runtime.Values(map[string][]string{p.parameter.Name: {request.Header.Get(p.parameter.Name)}}), target)'''),
 'M15-bind-errors-dropped-when-validator-ok':('middleware/request.go','''		if err := binder.Bind(request, routeParams, consumer, target); err != nil {
			result = append(result, err)
			continue
		}
''','''		if err := binder.Bind(request, routeParams, consumer, target); err != nil && !isMap {
			result = append(result, err)
			continue
		}
'''),
 'M16-float-parsed-at-32-bits-for-double':('middleware/parameter.go','f, err := strconv.ParseFloat(data, 64)','f, err := strconv.ParseFloat(data, 32)'),
}
which=sys.argv[1:] or list(M)
for name in which:
    f,old,new=M[name]
    sh('git checkout -q .',cwd=WT)
    p=os.path.join(WT,f); s=open(p).read()
    if s.count(old)!=1: print(name,'PATTERN COUNT',s.count(old)); continue
    open(p,'w').write(s.replace(old,new))
    b=sh('go build ./... 2>&1 | head -5',cwd=WT)
    if b.stdout.strip(): print(name,'BUILD FAIL',b.stdout); continue
    t=sh('go test -vet=off -count=1 ./... 2>&1 | grep -v "^ok\\|no test files" | head -8',cwd=WT)
    tests='pass' if not t.stdout.strip() else 'FAIL: '+t.stdout.strip().replace('\n',' | ')[:300]
    r=sh('VERIF_REPO=%s /verif/run C03 quick 2>&1 | grep -o "class=[^ ]* cases=[0-9]*\|^C03 quick.*" | tr "\n" " "'%WT)
    print('==',name,'| repo tests:',tests); print(r.stdout.strip()); sys.stdout.flush()
sh('git checkout -q .',cwd=WT)
