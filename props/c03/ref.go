package main

// The reference model, written from the property text. It never parses a
// number, a boolean or a date: every text of the alphabet is listed here
// together with what it denotes (generators produce abstract inputs and render
// them), so the oracle cannot share a parsing bug with the implementation.

import (
	"fmt"
	"math"
	"strings"
	"time"
	"unicode/utf8"
)

// val is a bound value in comparable form.
type val struct {
	K string  `json:"k"` // int float bool string time bytes list file none
	I int64   `json:"i,omitempty"`
	F float64 `json:"f,omitempty"`
	B bool    `json:"b,omitempty"`
	S string  `json:"s,omitempty"`
	L []val   `json:"l,omitempty"`
}

func iv(i int64) val    { return val{K: "int", I: i} }
func fv(f float64) val  { return val{K: "float", F: f} }
func bv(b bool) val     { return val{K: "bool", B: b} }
func sv(s string) val   { return val{K: "string", S: s} }
func tv(ns int64) val   { return val{K: "time", I: ns} }
func lv(l ...val) val   { return val{K: "list", L: l} }
func none() val         { return val{K: "none"} }
func (v val) isNone() bool { return v.K == "none" }

func (v val) String() string {
	switch v.K {
	case "int":
		return fmt.Sprintf("%d", v.I)
	case "time":
		return time.Unix(0, v.I).UTC().Format(time.RFC3339Nano)
	case "float":
		return fmt.Sprintf("%v", v.F)
	case "bool":
		return fmt.Sprintf("%v", v.B)
	case "string":
		return fmt.Sprintf("%q", v.S)
	case "bytes":
		return fmt.Sprintf("bytes(%q)", v.S)
	case "file":
		return fmt.Sprintf("file(%q)", v.S)
	case "list":
		parts := make([]string, len(v.L))
		for i, x := range v.L {
			parts[i] = x.String()
		}
		return "[" + strings.Join(parts, " ") + "]"
	case "none":
		return "<nothing/zero>"
	}
	return v.K + ":" + v.S
}

func dateUnix(y, m, d int) int64 {
	return time.Date(y, time.Month(m), d, 0, 0, 0, 0, time.UTC).UnixNano()
}

func (v val) equal(o val) bool {
	if v.K != o.K {
		return false
	}
	switch v.K {
	case "int", "time":
		return v.I == o.I
	case "float":
		return v.F == o.F || (math.IsNaN(v.F) && math.IsNaN(o.F))
	case "bool":
		return v.B == o.B
	case "string", "bytes":
		return v.S == o.S
	case "file":
		return v.S == o.S
	case "list":
		if len(v.L) != len(o.L) {
			return false
		}
		for i := range v.L {
			if !v.L[i].equal(o.L[i]) {
				return false
			}
		}
		return true
	}
	return true
}

// isZero: the value a handler may see when nothing was bound.
func (v val) isZero() bool {
	switch v.K {
	case "none":
		return true
	case "int":
		return v.I == 0
	case "float":
		return v.F == 0
	case "bool":
		return !v.B
	case "string", "bytes":
		return v.S == ""
	case "time":
		return v.I == time.Time{}.UnixNano() || v.I == 0
	case "list":
		return len(v.L) == 0
	case "file":
		return false
	}
	return false
}

// ---- literal tables ----

const (
	canon = iota // a canonical literal of the type: MUST be bound when in range
	loose        // a spelling the text does not settle: the denoted value or 422, nothing else
	bad          // not a literal of the type: MUST be 422
)

type intLit struct {
	t   string
	v   int64
	big int // -1 / +1: the denoted integer lies below / above the int64 range
	sp  int
}

var intLits = []intLit{
	{"0", 0, 0, canon}, {"1", 1, 0, canon}, {"-1", -1, 0, canon}, {"5", 5, 0, canon}, {"7", 7, 0, canon},
	{"42", 42, 0, canon}, {"100", 100, 0, canon}, {"101", 101, 0, canon}, {"-3", -3, 0, canon}, {"-4", -4, 0, canon},
	{"2", 2, 0, canon}, {"3", 3, 0, canon}, {"4", 4, 0, canon}, {"14", 14, 0, canon},
	// width boundaries: +-2^(n-1), one inside, one outside
	{"126", 126, 0, canon}, {"127", 127, 0, canon}, {"128", 128, 0, canon},
	{"-127", -127, 0, canon}, {"-128", -128, 0, canon}, {"-129", -129, 0, canon},
	{"32766", 32766, 0, canon}, {"32767", 32767, 0, canon}, {"32768", 32768, 0, canon},
	{"-32767", -32767, 0, canon}, {"-32768", -32768, 0, canon}, {"-32769", -32769, 0, canon},
	{"2147483646", 2147483646, 0, canon}, {"2147483647", 2147483647, 0, canon}, {"2147483648", 2147483648, 0, canon},
	{"-2147483647", -2147483647, 0, canon}, {"-2147483648", -2147483648, 0, canon}, {"-2147483649", -2147483649, 0, canon},
	{"4294967296", 4294967296, 0, canon}, {"4294967297", 4294967297, 0, canon},
	{"9223372036854775806", 9223372036854775806, 0, canon}, {"9223372036854775807", 9223372036854775807, 0, canon},
	{"9223372036854775808", 0, +1, canon},
	{"-9223372036854775807", -9223372036854775807, 0, canon}, {"-9223372036854775808", -9223372036854775808, 0, canon},
	{"-9223372036854775809", 0, -1, canon},
	{"18446744073709551616", 0, +1, canon}, {"18446744073709551617", 0, +1, canon}, {"99999999999999999999", 0, +1, canon},
	// spellings the text leaves open
	{"+1", 1, 0, loose}, {"01", 1, 0, loose}, {"-0", 0, 0, loose}, {"00", 0, 0, loose}, {"010", 10, 0, loose},
	{"-01", -1, 0, loose}, {"+127", 127, 0, loose}, {"+128", 128, 0, loose}, {"0128", 128, 0, loose},
	{"0x10", 16, 0, loose}, {"0X10", 16, 0, loose}, {"0b11", 3, 0, loose}, {"0o17", 15, 0, loose},
	{"1_000", 1000, 0, loose}, {"1e3", 1000, 0, loose}, {"1E2", 100, 0, loose}, {"1.0", 1, 0, loose}, {"7.", 7, 0, loose},
	{" 1", 1, 0, loose}, {"1 ", 1, 0, loose}, {"\t1", 1, 0, loose}, {"1\n", 1, 0, loose},
	{"１", 1, 0, loose}, // fullwidth digit one
	// not integers
	{"abc", 0, 0, bad}, {"1.5", 0, 0, bad}, {"-", 0, 0, bad}, {"+", 0, 0, bad}, {"--1", 0, 0, bad}, {"1-", 0, 0, bad},
	{"1,2", 0, 0, bad}, {"1 2", 0, 0, bad}, {"0x", 0, 0, bad}, {"1e", 0, 0, bad}, {"true", 0, 0, bad}, {"NaN", 0, 0, bad},
	{"1x", 0, 0, bad}, {"x1", 0, 0, bad}, {"x", 0, 0, bad}, {"ab", 0, 0, bad}, {"cd", 0, 0, bad}, {"3.5", 0, 0, bad}, {"1000.5", 0, 0, bad}, {"null", 0, 0, bad}, {"1/2", 0, 0, bad}, {"%31", 0, 0, bad},
}

type floatLit struct {
	t   string
	v   float64 // the denoted real number, rounded to float64; +-Inf when beyond the float64 range
	sp  int
	huge bool // the denoted number is finite but beyond the float64 range
}

var floatLits = []floatLit{
	{"0", 0, canon, false}, {"1", 1, canon, false}, {"-1", -1, canon, false}, {"1.5", 1.5, canon, false}, {"-2.25", -2.25, canon, false},
	{"0.1", 0.1, canon, false}, {"7", 7, canon, false}, {"100", 100, canon, false}, {"1000", 1000, canon, false}, {"1000.5", 1000.5, canon, false},
	{"-2.5", -2.5, canon, false}, {"-2.75", -2.75, canon, false}, {"99.5", 99.5, canon, false}, {"3.5", 3.5, canon, false},
	{"1e3", 1000, canon, false}, {"1E3", 1000, canon, false}, {"1e-3", 0.001, canon, false}, {"2.5e+3", 2500, canon, false},
	{"0.0", 0, canon, false}, {"-0", 0, canon, false}, {"123456789.125", 123456789.125, canon, false},
	{"16777217", 16777217, canon, false}, {"9007199254740993", 9007199254740993, canon, false},
	{"1e38", 1e38, canon, false}, {"3.4028234e38", 3.4028234e38, canon, false}, {"-3.4028234e38", -3.4028234e38, canon, false},
	{"3.5e38", 3.5e38, canon, false}, {"-3.5e38", -3.5e38, canon, false}, {"1e39", 1e39, canon, false},
	{"1.7976931348623157e308", 1.7976931348623157e308, canon, false}, {"-1.7976931348623157e308", -1.7976931348623157e308, canon, false},
	{"1.8e308", math.Inf(1), canon, true}, {"1e309", math.Inf(1), canon, true}, {"-1e309", math.Inf(-1), canon, true}, {"1e400", math.Inf(1), canon, true},
	// between the largest float32 and the rounding boundary, tiny values: range membership depends on the reading
	{"3.4028235e38", 3.4028235e38, loose, false}, {"1e-46", 1e-46, loose, false}, {"5e-324", 5e-324, loose, false}, {"1e-400", 0, loose, false},
	// spellings the text leaves open
	{"+1.5", 1.5, loose, false}, {"01.5", 1.5, loose, false}, {".5", 0.5, loose, false}, {"5.", 5, loose, false}, {"-.5", -0.5, loose, false},
	{"inf", math.Inf(1), loose, false}, {"-inf", math.Inf(-1), loose, false}, {"+Inf", math.Inf(1), loose, false}, {"Infinity", math.Inf(1), loose, false},
	{"-Infinity", math.Inf(-1), loose, false}, {"NaN", math.NaN(), loose, false}, {"nan", math.NaN(), loose, false},
	{"0x1p-2", 0.25, loose, false}, {"0x10", 16, loose, false}, {"1_0.5", 10.5, loose, false}, {"1_000", 1000, loose, false},
	{" 1.5", 1.5, loose, false}, {"1.5 ", 1.5, loose, false}, {"1.5\n", 1.5, loose, false},
	// not numbers
	{"abc", 0, bad, false}, {"1,5", 0, bad, false}, {"1.5.2", 0, bad, false}, {"--1", 0, bad, false}, {"1e", 0, bad, false}, {"e3", 0, bad, false},
	{"-", 0, bad, false}, {".", 0, bad, false}, {"1.5f", 0, bad, false}, {"1.5x", 0, bad, false}, {"x", 0, bad, false}, {"ab", 0, bad, false}, {"cd", 0, bad, false},
	{"5", 5, canon, false}, {"42", 42, canon, false}, {"101", 101, canon, false}, {"127", 127, canon, false}, {"128", 128, canon, false}, {"true", 0, bad, false}, {"1 5", 0, bad, false},
	{"null", 0, bad, false}, {"1/2", 0, bad, false},
}

type boolLit struct {
	t  string
	v  bool
	sp int
}

var boolLits = []boolLit{
	{"true", true, canon}, {"false", false, canon},
	{"1", true, loose}, {"0", false, loose}, {"TRUE", true, loose}, {"True", true, loose}, {"FALSE", false, loose}, {"False", false, loose},
	{"t", true, loose}, {"f", false, loose}, {"T", true, loose}, {"F", false, loose}, {"on", true, loose}, {"off", false, loose},
	{"yes", true, loose}, {"no", false, loose}, {"y", true, loose}, {"n", false, loose}, {"Y", true, loose}, {"ON", true, loose},
	{"ok", true, loose}, {"enabled", true, loose}, {"disabled", false, loose}, {"checked", true, loose}, {"selected", true, loose},
	{" true", true, loose}, {"true ", true, loose}, {"false\n", false, loose},
	{"5", false, bad}, {"7", false, bad}, {"42", false, bad}, {"101", false, bad}, {"127", false, bad}, {"128", false, bad}, {"ab", false, bad}, {"cd", false, bad},
	{"1.5", false, bad}, {"3.5", false, bad}, {"1000.5", false, bad},
	{"2", false, bad}, {"abc", false, bad}, {"tru", false, bad}, {"truee", false, bad}, {"-1", false, bad}, {"null", false, bad},
	{"10", false, bad}, {"0.5", false, bad}, {"true,false", false, bad}, {"tr ue", false, bad}, {"maybe", false, bad}, {"é", false, bad},
}

type fmtLit struct {
	t  string
	v  val
	sp int
}

const uuid1 = "a8098c1a-f86e-11da-bd1a-00112444be1e"

func dt(y, mo, d, h, mi, s, ns int) val {
	return tv(time.Date(y, time.Month(mo), d, h, mi, s, ns, time.UTC).UnixNano())
}

var fmtLits = map[string][]fmtLit{
	"date": {
		{"2020-01-02", tv(dateUnix(2020, 1, 2)), canon}, {"2020-02-29", tv(dateUnix(2020, 2, 29)), canon}, {"1999-12-31", tv(dateUnix(1999, 12, 31)), canon},
		{"2020-1-2", tv(dateUnix(2020, 1, 2)), loose}, {" 2020-01-02", tv(dateUnix(2020, 1, 2)), loose}, {"2020-01-02T00:00:00Z", tv(dateUnix(2020, 1, 2)), loose},
		{"20200102", tv(dateUnix(2020, 1, 2)), loose},
		{"2020-13-01", val{}, bad}, {"2021-02-29", val{}, bad}, {"2020-01-32", val{}, bad}, {"abc", val{}, bad}, {"2020-01", val{}, bad}, {"01-02-2020x", val{}, bad},
	},
	"date-time": {
		{"2020-01-02T03:04:05Z", dt(2020, 1, 2, 3, 4, 5, 0), canon}, {"2020-01-02T03:04:05.678Z", dt(2020, 1, 2, 3, 4, 5, 678e6), canon},
		{"2020-01-02T03:04:05+02:00", dt(2020, 1, 2, 1, 4, 5, 0), canon}, {"1999-12-31T23:59:59-01:30", dt(2000, 1, 1, 1, 29, 59, 0), canon},
		{"2020-01-02T03:04:05", dt(2020, 1, 2, 3, 4, 5, 0), loose}, {"2020-01-02 03:04:05Z", dt(2020, 1, 2, 3, 4, 5, 0), loose},
		{"2020-01-02t03:04:05z", dt(2020, 1, 2, 3, 4, 5, 0), loose}, {"2020-01-02", dt(2020, 1, 2, 0, 0, 0, 0), loose},
		{"2020-01-02T03:04Z", dt(2020, 1, 2, 3, 4, 0, 0), loose}, {"2020-01-02T03:04:05+0200", dt(2020, 1, 2, 1, 4, 5, 0), loose},
		{"abc", val{}, bad}, {"2020-13-02T03:04:05Z", val{}, bad}, {"2020-01-02T25:00:00Z", val{}, bad}, {"2020-01-02T03:04:05Zx", val{}, bad}, {"T03:04:05Z", val{}, bad},
	},
	"uuid": {
		{uuid1, sv(uuid1), canon}, {"00000000-0000-0000-0000-000000000000", sv("00000000-0000-0000-0000-000000000000"), loose},
		{strings.ToUpper(uuid1), sv(strings.ToUpper(uuid1)), loose}, {"a8098c1af86e11dabd1a00112444be1e", sv("a8098c1af86e11dabd1a00112444be1e"), loose},
		{"{" + uuid1 + "}", sv("{" + uuid1 + "}"), loose},
		{"zz", val{}, bad}, {uuid1[:35], val{}, bad}, {"g" + uuid1[1:], val{}, bad}, {uuid1 + "0", val{}, bad}, {"abc", val{}, bad},
	},
	"byte": {
		{"aGk=", val{K: "bytes", S: "hi"}, canon}, {"aGVsbG8gd29ybGQ=", val{K: "bytes", S: "hello world"}, canon}, {"/+8=", val{K: "bytes", S: "\xff\xef"}, canon},
		{"YWJj", val{K: "bytes", S: "abc"}, canon},
		{"_-8=", val{K: "bytes", S: "\xff\xef"}, loose}, {"aGk", val{K: "bytes", S: "hi"}, loose}, {"aGk= ", val{K: "bytes", S: "hi"}, loose}, {"aG\nk=", val{K: "bytes", S: "hi"}, loose},
		{"!!!", val{}, bad}, {"a", val{}, bad}, {"aGk==", val{}, bad}, {"a=Gk", val{}, bad}, {"éééé", val{}, bad},
	},
	"email": {
		{"a@b.co", sv("a@b.co"), canon}, {"first.last@example.org", sv("first.last@example.org"), canon},
		{"A@B.CO", sv("A@B.CO"), loose}, {"a@b", sv("a@b"), loose}, {"Bob <a@b.co>", sv("Bob <a@b.co>"), loose},
		{"zz", val{}, bad}, {"a@", val{}, bad}, {"@b.co", val{}, bad}, {"a b@c.co d", val{}, bad},
	},
	"ipv4": {
		{"10.0.0.1", sv("10.0.0.1"), canon}, {"255.255.255.255", sv("255.255.255.255"), canon}, {"0.0.0.0", sv("0.0.0.0"), canon},
		{"010.0.0.1", sv("010.0.0.1"), loose}, {"::ffff:10.0.0.1", sv("::ffff:10.0.0.1"), loose},
		{"300.1.1.1", val{}, bad}, {"zz", val{}, bad}, {"1.2.3", val{}, bad}, {"1.2.3.4.5", val{}, bad}, {"::1", val{}, bad},
	},
	"duration": {
		{"3s", iv(3e9), canon}, {"1h", iv(3600e9), canon}, {"15ms", iv(15e6), canon},
		{"3 s", iv(3e9), loose}, {"3 seconds", iv(3e9), loose}, {"1.5h", iv(5400e9), loose}, {"1h30m", iv(5400e9), loose}, {"3", iv(3e9), loose},
		{"zz", val{}, bad}, {"s3", val{}, bad}, {"3 parsecs", val{}, bad},
	},
}

// stringTexts: arbitrary texts for plain strings (every text denotes itself).
var stringTexts = []string{
	"ab", "cd", "a", "abcde", "a b", "A", "+", "%", "%2F", "%25", "/", "?", "#", "&", "=", "a&b=c", "a,b", "a|b", "a\tb", ";v=1", "{q}", "}",
	"é", "日本", "\x80", " a", "a ", "null", "0", "true", "a+b", "a%20b", "\"", "'", "\\", "a;b", "ab\ncd",
}

func intRange(format string) (lo, hi int64) {
	switch format {
	case "int8":
		return math.MinInt8, math.MaxInt8
	case "int16":
		return math.MinInt16, math.MaxInt16
	case "int32":
		return math.MinInt32, math.MaxInt32
	}
	return math.MinInt64, math.MaxInt64
}

// lit is what one text denotes for a scalar type: kind canon/loose/bad and the value.
type lit struct {
	known bool
	sp    int
	v     val
}

// denote looks the text up in the tables. Unknown texts (possible only in a
// hand-edited replay file) are reported as such and never judged.
func denote(tpe, format, text string) lit {
	l := denoteTable(tpe, format, text)
	if t2 := strings.Trim(text, " \t"); !l.known && t2 != text && t2 != "" && !(tpe == "string" && format == "") {
		// blanks around a listed text: the listed text's verdict, never better than "open"
		if l2 := denoteTable(tpe, format, t2); l2.known {
			if l2.sp == canon {
				l2.sp = loose
			}
			return l2
		}
	}
	closed := tpe == "integer" || tpe == "number" || tpe == "boolean" || (tpe == "string" && (format == "own:x-shout" || format == "own:hexcolor" || format == "hexcolor"))
	if !l.known && closed && strings.ContainsAny(strings.TrimSpace(text), ",| \t") {
		// an item produced by splitting with another separator: it still holds a separator
		// character between other characters, so it is no literal of a numeric or boolean type
		return lit{true, bad, val{}}
	}
	return l
}

func denoteTable(tpe, format, text string) lit {
	switch tpe {
	case "string":
		if tab, ok := fmtLits[format]; ok {
			for _, l := range tab {
				if l.t == text {
					return lit{true, l.sp, l.v}
				}
			}
			return lit{}
		}
		return lit{true, canon, sv(text)}
	case "integer":
		for _, l := range intLits {
			if l.t == text {
				lo, hi := intRange(format)
				if l.sp == bad {
					return lit{true, bad, val{}}
				}
				if l.big != 0 || l.v < lo || l.v > hi {
					return lit{true, bad, val{}} // out of range under every reading
				}
				return lit{true, l.sp, iv(l.v)}
			}
		}
	case "number":
		for _, l := range floatLits {
			if l.t == text {
				if l.sp == bad || l.huge {
					return lit{true, bad, val{}}
				}
				v := l.v
				if format == "float" && !math.IsInf(v, 0) && !math.IsNaN(v) {
					if math.Abs(v) > math.MaxFloat32 {
						if l.sp == loose { // rounds into range under IEEE rounding: either reading
							return lit{true, loose, fv(float64(float32(v)))}
						}
						return lit{true, bad, val{}}
					}
					v = float64(float32(v))
				}
				return lit{true, l.sp, fv(v)}
			}
		}
	case "boolean":
		for _, l := range boolLits {
			if l.t == text {
				return lit{true, l.sp, bv(l.v)}
			}
		}
	}
	return lit{}
}

// ---- validations (named sets, see validationJSON) ----

func num(v val) float64 {
	if v.K == "int" {
		return float64(v.I)
	}
	return v.F
}

// validScalar: 1 passes, 0 fails, -1 the text of the property does not settle it.
func validScalar(name, tpe string, v val) int {
	b := func(ok bool) int {
		if ok {
			return 1
		}
		return 0
	}
	switch name {
	case "":
		return 1
	case "minmax", "exclusive":
		lo, hi := -2.5, 1000.0
		if tpe == "integer" {
			lo, hi = -3, 100
		}
		x := num(v)
		if math.IsNaN(x) {
			return -1
		}
		if name == "exclusive" {
			return b(x > lo && x < hi)
		}
		return b(x >= lo && x <= hi)
	case "minmax2":
		hi := 500.0
		if tpe == "integer" {
			hi = 50
		}
		x := num(v)
		if math.IsNaN(x) {
			return -1
		}
		return b(x >= 0 && x <= hi)
	case "enum2":
		switch tpe {
		case "integer":
			return b(v.I == 2 || v.I == 5 || v.I == 42)
		case "number":
			return b(v.F == 3.5 || v.F == 100)
		case "boolean":
			return b(!v.B)
		default:
			return b(v.S == "cd" || v.S == "ef")
		}
	case "len2":
		nb, nr := len(v.S), utf8.RuneCountInString(v.S)
		ok1, ok2 := nb >= 1 && nb <= 2, nr >= 1 && nr <= 2
		if ok1 != ok2 {
			return -1
		}
		return b(ok1)
	case "multipleOf":
		if v.K == "int" {
			return b(v.I%7 == 0)
		}
		return -1
	case "enum":
		switch tpe {
		case "integer":
			return b(v.I == 1 || v.I == 7 || v.I == 127)
		case "number":
			return b(v.F == 1.5 || v.F == 7 || v.F == 1000)
		case "boolean":
			return b(v.B)
		default:
			return b(v.S == "ab" || v.S == "cd" || v.S == "a b" || v.S == "é")
		}
	case "len":
		nb, nr := len(v.S), utf8.RuneCountInString(v.S)
		ok1, ok2 := nb >= 2 && nb <= 4, nr >= 2 && nr <= 4
		if ok1 != ok2 {
			return -1 // bytes or characters: not settled
		}
		return b(ok1)
	case "pattern":
		if v.S == "" {
			return 0
		}
		for i := 0; i < len(v.S); i++ {
			if v.S[i] < 'a' || v.S[i] > 'z' {
				if v.S[i] == '\n' {
					return -1
				}
				return 0
			}
		}
		return 1
	}
	return -1
}

func validList(d Decl, l []val) int {
	switch d.Valid {
	case "":
		return 1
	case "items":
		if len(l) >= 2 && len(l) <= 3 {
			return 1
		}
		return 0
	case "unique":
		for i := range l {
			for j := i + 1; j < len(l); j++ {
				if l[i].equal(l[j]) {
					return 0
				}
			}
		}
		return 1
	case "itemenum", "itemminmax", "itemlen":
		res := 1
		for _, it := range l {
			switch validScalar(strings.TrimPrefix(d.Valid, "item"), d.ItemType, it) {
			case 0:
				return 0
			case -1:
				res = -1
			}
		}
		return res
	}
	return -1
}

// ---- expectation ----

// expect is the three-valued verdict: the set of values the handler may
// receive and whether a 422 is allowed. Values empty and R422 true = MUST be
// 422; R422 false = MUST be bound to one of Values; both = the text leaves it open.
type expect struct {
	Values []val
	R422   bool
	Free   bool   // a text outside the tables: not judged
	State  string // absent | empty | value (for the evidence)
}

func (e *expect) add(v val) {
	for _, o := range e.Values {
		if o.equal(v) && o.K == v.K {
			return
		}
	}
	e.Values = append(e.Values, v)
}

func (e *expect) merge(o expect) {
	for _, v := range o.Values {
		e.add(v)
	}
	e.R422 = e.R422 || o.R422
	e.Free = e.Free || o.Free
}

func (e expect) must422() bool  { return !e.Free && e.R422 && len(e.Values) == 0 }
func (e expect) mustBind() bool { return !e.Free && !e.R422 && len(e.Values) > 0 }

// absentRule: no field with the declared name in the declared location.
func absentRule(d Decl) expect {
	_, dv := d.defaultValue()
	switch {
	case d.Required && !d.Default:
		return expect{R422: true} // a required parameter is missing
	case d.Required && d.Default:
		return expect{Values: []val{dv}, R422: true} // "default when absent" against "required is missing": open
	case d.Default:
		return expect{Values: []val{dv}} // the declared default when the parameter is absent
	}
	// optional, no default: the text names no value; nothing (or the zero value) or a refusal
	return expect{Values: []val{none()}, R422: true}
}

// emptyRule: the parameter is present and its text is empty.
func emptyRule(d Decl) expect {
	_, dv := d.defaultValue()
	if d.Default {
		e := expect{Values: []val{dv}} // the declared default when the parameter is ... empty
		if d.AllowEmpty {
			e.add(none()) // an allowed empty value may also stay empty
		}
		if d.Required && !d.AllowEmpty {
			e.R422 = true // empty where empty is not allowed and a value is required: open
		}
		return e
	}
	e := expect{Values: []val{none()}}
	tpe, format := d.Type, d.Format
	plainString := tpe == "string" && format == ""
	switch {
	case d.Required && !d.AllowEmpty:
		e.R422 = true // "required is missing" may or may not cover an empty text
	case !plainString:
		e.R422 = true // "" is not a literal of the type, yet empty is also "like absent": open
	}
	if d.Type == "array" {
		if validList(d, nil) != 1 {
			e.R422 = true
		}
	} else if plainString {
		if validScalar(d.Valid, tpe, sv("")) != 1 {
			e.R422 = true
		}
	} else if d.Valid != "" {
		e.R422 = true
	}
	return e
}

func scalarValueRule(d Decl, text string) expect {
	et, ef := d.elem()
	l := denote(et, ef, text)
	if !l.known {
		return expect{Free: true}
	}
	if l.sp == bad {
		return expect{R422: true}
	}
	e := expect{}
	switch validScalar(d.Valid, d.Type, l.v) {
	case 1:
		e.add(l.v)
	case 0:
		e.R422 = true
	default:
		e.add(l.v)
		e.R422 = true
	}
	if l.sp == loose {
		e.R422 = true
	}
	return e
}

var seps = map[string]string{"": ",", "csv": ",", "ssv": " ", "tsv": "\t", "pipes": "|"}

func zeroOf(tpe string) val {
	switch tpe {
	case "integer":
		return iv(0)
	case "number":
		return fv(0)
	case "boolean":
		return bv(false)
	}
	return sv("")
}

// listRule: the verdict for one reading (item texts) of an array parameter.
func listRule(d Decl, items []string) expect {
	if len(items) == 0 {
		return emptyRule(d)
	}
	e := expect{}
	vals := make([]val, len(items))
	hasBad, open := false, false
	for i, it := range items {
		if it == "" || (d.ItemType != "string" && strings.TrimSpace(it) == "") {
			vals[i] = zeroOf(d.ItemType)
			if !(d.ItemType == "string" && d.ItemFormat == "") || !d.AllowEmpty {
				// an empty item of a non-string type: refusal or the zero value; an empty item where
				// empty values are not allowed: the text does not say whether that covers items
				open = true
			}
			continue
		}
		et, ef := d.elem()
		l := denote(et, ef, it)
		if !l.known {
			return expect{Free: true}
		}
		switch l.sp {
		case bad:
			hasBad = true
		case loose:
			open = true
		}
		vals[i] = l.v
	}
	if hasBad {
		return expect{R422: true}
	}
	switch validList(d, vals) {
	case 1:
		e.add(lv(vals...))
	case 0:
		e.R422 = true
	default:
		e.add(lv(vals...))
		e.R422 = true
	}
	if open {
		e.R422 = true
	}
	return e
}

func trimAll(in []string) []string {
	out := make([]string, len(in))
	for i, s := range in {
		out[i] = strings.TrimSpace(s)
	}
	return out
}

func dropEmpty(in []string) []string {
	out := []string{}
	for _, s := range in {
		if s != "" {
			out = append(out, s)
		}
	}
	return out
}

// arrayRule: "the split or repeated items for arrays". The readings the text
// does not choose between (surrounding blanks kept or trimmed, empty items kept
// or dropped, which occurrence of a repeated non-multi field is split) are all
// allowed; a result outside their union is a violation.
func arrayRule(d Decl, texts []string) expect {
	var bases [][]string
	if d.CF == "multi" {
		bases = [][]string{texts}
	} else {
		sep := seps[d.CF]
		last := texts[len(texts)-1]
		if last == "" {
			bases = append(bases, []string{})
		} else {
			bases = append(bases, strings.Split(last, sep))
		}
		if len(texts) > 1 {
			var all []string
			for _, t := range texts {
				if t != "" {
					all = append(all, strings.Split(t, sep)...)
				}
			}
			bases = append(bases, all)
			if d.Loc == "header" { // repeated header lines are one comma-joined field value in HTTP
				bases = append(bases, strings.Split(strings.Join(texts, ","), sep), strings.Split(strings.Join(texts, ", "), sep))
			}
		}
	}
	e := expect{}
	for _, b := range bases {
		e.merge(listRule(d, b))
		e.merge(listRule(d, trimAll(b)))
		e.merge(listRule(d, dropEmpty(b)))
		e.merge(listRule(d, dropEmpty(trimAll(b))))
	}
	return e
}

// reference computes the verdict for a (declaration, request) pair.
func reference(d Decl, q Req) expect {
	var texts []string
	if wireMatches(d, q.Wire) {
		for _, t := range q.Texts {
			texts = append(texts, delivered(d, string(t)))
		}
	}
	if len(texts) == 0 {
		e := absentRule(d)
		e.State = "absent"
		return e
	}
	if d.Type == "file" {
		e := expect{State: "value"}
		// content, file name and size of the part; a repeated file field: first or last, the text speaks of scalars only
		e.add(val{K: "file", S: fmt.Sprintf("f0.txt(%d bytes):%s", len(texts[0]), texts[0])})
		n := len(texts) - 1
		e.add(val{K: "file", S: fmt.Sprintf("f%d.txt(%d bytes):%s", n, len(texts[n]), texts[n])})
		return e
	}
	if d.Type == "array" {
		allEmpty := true
		for _, t := range texts {
			if t != "" {
				allEmpty = false
			}
		}
		e := arrayRule(d, texts)
		e.State = "value"
		if allEmpty {
			e.State = "empty"
		}
		return e
	}
	last := texts[len(texts)-1] // the last occurrence for scalars
	if last == "" {
		e := emptyRule(d)
		e.State = "empty"
		return e
	}
	e := scalarValueRule(d, last)
	e.State = "value"
	return e
}
