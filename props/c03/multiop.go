package main

// Multi-operation sweep (handler level): ONE API whose 2 (thorough also 3)
// operations declare a parameter of the SAME name in the SAME location with
// DIFFERENT declarations, for all ordered tuples of a small colliding alphabet
// of declarations. Every request to an operation must give exactly what that
// operation's own declaration gives on a fresh single-operation API
// (differential oracle; the fresh result is itself judged by the reference),
// also as the second/third of consecutive requests to different operations on
// one handler instance, and for every router build (the build order of the
// operations is a map iteration in the implementation: each API is rebuilt
// several times and each unordered pair is built under both path assignments;
// the request alphabet separates every pair of declarations in both directions,
// so the verdict does not depend on which operation is built first).

import (
	"bufio"
	"fmt"
	"net/http"
	"net/http/httptest"
	"os"
	"strings"
	"sync"

	"github.com/go-openapi/runtime"
	"github.com/go-openapi/runtime/middleware"
	"github.com/go-openapi/runtime/middleware/untyped"

	"verif/engine/apib"
	"verif/engine/enum"
	"verif/engine/report"
)

// Step is one request of a sequence sent to one handler instance.
type Step struct {
	Op int `json:"op"` // index into Case.Ops
	Q  Req `json:"req"`
}

type multiAPI struct {
	ds      []Decl
	handler http.Handler
	got     *capture
	gotOp   *int
	err     string
}

// buildMulti builds one untyped API with len(ds) operations /op0 ... /opN that
// all declare the parameter ds[k] (same name, same location).
func buildMulti(ds []Decl) (m *multiAPI) {
	m = &multiAPI{ds: ds, got: &capture{}, gotOp: new(int)}
	defer func() {
		if e := recover(); e != nil {
			m.err = fmt.Sprint(e)
		}
	}()
	method := "GET"
	var consumes []string
	if ds[0].in() == "formData" {
		method = "POST"
		consumes = []string{"application/x-www-form-urlencoded", "multipart/form-data"}
	}
	var ops []apib.Op
	paths := make([]string, len(ds))
	for k, d := range ds {
		paths[k] = fmt.Sprintf("/op%d", k)
		if d.Loc == "path" {
			paths[k] += "/{" + d.Name + "}"
		}
		ops = append(ops, apib.Op{Method: method, Path: paths[k], Params: []map[string]any{d.paramJSON()}, Consumes: consumes})
	}
	doc := apib.MustLoad(apib.Spec{BasePath: "/", Ops: ops})
	api := untyped.NewAPI(doc)
	api.RegisterConsumer("application/x-www-form-urlencoded", runtime.DiscardConsumer)
	api.RegisterConsumer("multipart/form-data", runtime.DiscardConsumer)
	got, gotOp := m.got, m.gotOp
	for k := range ds {
		k := k
		api.RegisterOperation(method, paths[k], runtime.OperationHandlerFunc(func(params interface{}) (interface{}, error) {
			got.ran++
			*gotOp = k
			got.params, _ = params.(map[string]interface{})
			return map[string]string{"ok": "1"}, nil
		}))
	}
	ctx := middleware.NewContext(doc, api, nil)
	m.handler = ctx.APIHandler(nil)
	return m
}

func (m *multiAPI) execute(op int, q Req) (o obs, ok bool) {
	d := m.ds[op]
	raw, ok := rawRequest(d, q)
	if !ok {
		return obs{}, false
	}
	raw = strings.Replace(raw, " /op", fmt.Sprintf(" /op%d", op), 1)
	req, err := http.ReadRequest(bufio.NewReader(strings.NewReader(raw)))
	if err != nil {
		fmt.Fprintf(os.Stderr, "C03 harness: request does not parse: %v\n%q\n", err, raw)
		os.Exit(2)
	}
	defer func() {
		if e := recover(); e != nil {
			o = obs{Panic: fmt.Sprint(e)}
		}
	}()
	if m.err != "" {
		return obs{Panic: "while building: " + m.err}, true
	}
	*m.got = capture{}
	*m.gotOp = -1
	rec := httptest.NewRecorder()
	m.handler.ServeHTTP(rec, req)
	o.Status, o.Ran = rec.Code, m.got.ran
	if rec.Code != 200 {
		o.Message = strings.TrimSpace(rec.Body.String())
		return o, true
	}
	if *m.gotOp != op {
		o.Message = fmt.Sprintf("handler of operation %d ran", *m.gotOp)
	}
	x, present := m.got.params[d.Name]
	o.Present = present
	if present {
		o.GoType = fmt.Sprintf("%T", x)
	}
	o.V = normalise(x)
	return o, true
}

func sameObs(a, b obs) bool {
	return a.Panic == b.Panic && a.Status == b.Status && a.Message == b.Message && a.Ran == b.Ran &&
		a.Present == b.Present && a.GoType == b.GoType && a.V.K == b.V.K && a.V.equal(b.V)
}

// collidingAlphabet: declarations of one name in one location that differ in
// type/format, default (presence and value), validations (presence and bounds), required.
func collidingAlphabet(loc string, thorough bool) []Decl {
	name := "pz"
	if loc == "header" {
		name = "X-Pz-Val"
	}
	mk := func(d Decl) Decl {
		d.Loc, d.Name = loc, name
		if loc == "path" {
			d.Required = true
		}
		return d
	}
	out := []Decl{
		mk(Decl{Type: "integer", Format: "int32", Default: true, Valid: "minmax"}),
		mk(Decl{Type: "integer", Format: "int32", Default: true, Alt: true, Valid: "minmax2"}), // same type, other default and bounds
		mk(Decl{Type: "integer", Format: "int32", Required: true, Valid: "enum"}),
		mk(Decl{Type: "integer", Format: "int8"}),
		mk(Decl{Type: "string", Default: true, Valid: "enum"}),
		mk(Decl{Type: "string", Valid: "len2"}),
		mk(Decl{Type: "number", Format: "double", Default: true, Valid: "minmax"}),
		mk(Decl{Type: "array", ItemType: "string", CF: "csv", Valid: "items"}),
	}
	if thorough {
		out = append(out,
			mk(Decl{Type: "integer", Format: "int64", Valid: "enum2"}),
			mk(Decl{Type: "number", Format: "float", Required: true}),
			mk(Decl{Type: "boolean", Default: true}),
			mk(Decl{Type: "array", ItemType: "integer", ItemFormat: "int32", CF: "pipes", Default: true}),
		)
	}
	return out
}

// multiRequests: one request alphabet shared by every declaration of the
// colliding alphabet, so that each text is read under each declaration.
func multiRequests(d Decl, reduced bool) []Req {
	texts := [][]string{nil, {""}, {"1"}, {"5"}, {"7"}, {"42"}, {"101"}, {"127"}, {"128"}, {"ab"}, {"cd"}, {"abc"}, {"1.5"}, {"3.5"}, {"1000.5"}, {"true"}, {"ab,cd"}, {"5|7"}, {"5", "7"}}
	if reduced {
		texts = [][]string{nil, {"1"}, {"101"}, {"ab"}, {"1.5"}, {"ab,cd"}}
	}
	var out []Req
	for _, t := range texts {
		q := Req{Wire: d.Name, Texts: txts(t...)}
		if _, ok := rawRequest(d, q); ok {
			out = append(out, q)
		}
	}
	return out
}

type multiFail struct {
	class, what string
	steps       []Step
}

// checkStep compares one observation on the shared instance with the fresh
// single-operation result of the operation's own declaration.
func checkStep(d Decl, q Req, shared, fresh obs) (string, string) {
	if sameObs(shared, fresh) {
		return "", ""
	}
	e := reference(d, q)
	cl, _ := judge("handler", d, q, e, shared)
	what := fmt.Sprintf("operation declaring %v: observed %s; the same request to a single-operation API of that declaration gives %s; the declaration demands: %s", d.paramJSON(), shared, fresh, e)
	if cl == "" {
		return "multiop/differs-from-single-operation-api", what
	}
	return "multiop/" + cl, what
}

// freshTable: results of every request of the alphabet on a fresh
// single-operation API per declaration (also judged by the reference).
type freshTable struct {
	reqs [][]Req
	obs  [][]obs
}

func buildFresh(r *report.R, alpha []Decl, reduced bool) *freshTable {
	ft := &freshTable{reqs: make([][]Req, len(alpha)), obs: make([][]obs, len(alpha))}
	enum.Parallel(len(alpha), nil, func(i int) {
		d := alpha[i]
		p := prepare("handler", d)
		ft.reqs[i] = multiRequests(d, reduced)
		ft.obs[i] = make([]obs, len(ft.reqs[i]))
		for k, q := range ft.reqs[i] {
			o, _ := p.execute(q)
			ft.obs[i][k] = o
			if !reduced {
				r.Eval(1)
				e := reference(d, q)
				if e.mustBind() || e.must422() {
					r.Nontrivial(1)
				}
				if cl, what := judge("handler", d, q, e, o); cl != "" {
					r.Fail(cl, what, Case{Level: "handler", D: d, Q: q})
				}
			}
		}
	})
	return ft
}

// separated: how many ordered pairs of the alphabet have a request on which
// their fresh results differ (the sweep can only see a mix-up of such pairs).
func (ft *freshTable) unseparated(alpha []Decl) int {
	n := 0
	for i := range alpha {
		for j := range alpha {
			if i == j {
				continue
			}
			sep := false
			for k := range ft.reqs[i] {
				if k < len(ft.obs[j]) && !sameObs(ft.obs[i][k], ft.obs[j][k]) {
					sep = true
				}
			}
			if !sep {
				n++
			}
		}
	}
	return n
}

// runMulti executes the sweep for one tuple of declarations (indices into alpha).
func runMulti(alpha []Decl, ft *freshTable, idx []int, builds int, outcomes map[string]int64) (evals int64, fails []multiFail) {
	ds := make([]Decl, len(idx))
	for k, i := range idx {
		ds[k] = alpha[i]
	}
	count := func(o obs) {
		switch {
		case o.Panic != "":
			outcomes["multiop:panic"]++
		case o.Status == 200:
			outcomes["multiop:bound"]++
		default:
			outcomes[fmt.Sprintf("multiop:refused-%d", o.Status)]++
		}
	}
	one := func(m *multiAPI, op, k int) (Step, string, string) {
		q := ft.reqs[idx[op]][k]
		o, _ := m.execute(op, q)
		evals++
		count(o)
		cl, what := checkStep(ds[op], q, o, ft.obs[idx[op]][k])
		return Step{op, q}, cl, what
	}
	for b := 0; b < builds; b++ {
		m := buildMulti(ds)
		// every request to every operation
		for op := range ds {
			for k := range ft.reqs[idx[op]] {
				if st, cl, what := one(m, op, k); cl != "" {
					fails = append(fails, multiFail{cl, fmt.Sprintf("build %d: %s", b, what), []Step{st}})
				}
			}
		}
		if b > 0 {
			continue
		}
		// consecutive requests to different operations on this one handler instance
		if len(ds) == 2 {
			for a := 0; a < 2; a++ {
				for k1 := range ft.reqs[idx[a]] {
					for k2 := range ft.reqs[idx[1-a]] {
						s1, cl1, what1 := one(m, a, k1)
						s2, cl2, what2 := one(m, 1-a, k2)
						if cl1 != "" {
							fails = append(fails, multiFail{cl1, what1, []Step{s1}})
						}
						if cl2 != "" {
							fails = append(fails, multiFail{cl2, "after a request to the other operation: " + what2, []Step{s1, s2}})
						}
					}
				}
			}
		} else {
			// every sequence of one request per operation, in every order of the operations
			for _, perm := range enum.Perms(len(ds)) {
				sizes := make([]int, len(perm))
				for pos, op := range perm {
					sizes[pos] = len(ft.reqs[idx[op]])
				}
				enum.Product(sizes, func(ks []int) {
					var steps []Step
					for pos, op := range perm {
						st, cl, what := one(m, op, ks[pos])
						steps = append(steps, st)
						if cl != "" {
							fails = append(fails, multiFail{cl, fmt.Sprintf("as request %d of a sequence over the operations: %s", pos+1, what), append([]Step(nil), steps...)})
						}
					}
				})
			}
		}
	}
	return evals, fails
}

// multiSweep is the multi-operation dimension of the run.
func multiSweep(r *report.R) {
	thorough := r.Thorough()
	builds := 2
	if thorough {
		builds = 3
	}
	locs := []string{"path", "query", "header", "formU", "formM"}
	info := map[string]any{"builds_per_api": builds, "locations": locs}
	var mu sync.Mutex
	for _, loc := range locs {
		alpha := collidingAlphabet(loc, thorough)
		ft := buildFresh(r, alpha, false)
		var tuples [][]int
		for i := range alpha {
			for j := range alpha {
				if i != j {
					tuples = append(tuples, []int{i, j})
				}
			}
		}
		nPairs := len(tuples)
		var ft3 *freshTable
		var alpha3 []Decl
		if thorough {
			alpha3 = alpha[:6]
			ft3 = buildFresh(r, alpha3, true)
			for _, s := range enum.Seqs(len(alpha3), 3, 3) {
				if s[0] != s[1] && s[1] != s[2] && s[0] != s[2] {
					tuples = append(tuples, s)
				}
			}
		}
		info[loc] = map[string]int{"declarations": len(alpha), "requests_per_operation": len(ft.reqs[0]), "ordered_pairs": nPairs,
			"ordered_triples": len(tuples) - nPairs, "ordered_pairs_not_separated_by_the_requests": ft.unseparated(alpha)}
		enum.Parallel(len(tuples), r.OutOfTime, func(t int) {
			idx := tuples[t]
			outcomes := map[string]int64{}
			var evals int64
			var fails []multiFail
			a, f := alpha, ft
			if len(idx) == 3 {
				a, f = alpha3, ft3
			}
			evals, fails = runMulti(a, f, idx, builds, outcomes)
			r.Eval(evals)
			r.Nontrivial(evals)
			mu.Lock()
			for k, v := range outcomes {
				r.Outcome(k, v)
			}
			mu.Unlock()
			for _, fl := range fails {
				ops := make([]Decl, len(idx))
				for k, i := range idx {
					ops[k] = a[i]
				}
				r.Fail(fl.class, fl.what, Case{Level: "multiop", D: ops[fl.steps[len(fl.steps)-1].Op], Q: fl.steps[len(fl.steps)-1].Q, Ops: ops, Steps: fl.steps})
			}
		})
	}
	r.Set("multi_operation_sweep", info)
}

// replayMulti re-executes a multi-operation case: the API is rebuilt several
// times (the build order of the operations is not under the harness's control).
func replayMulti(r *report.R, c Case) {
	const rebuilds = 16
	fresh := make([]*prepared, len(c.Ops))
	for i, d := range c.Ops {
		fresh[i] = prepare("handler", d)
	}
	failing := 0
	var firstClass, firstWhat string
	for b := 0; b < rebuilds; b++ {
		m := buildMulti(c.Ops)
		for _, st := range c.Steps {
			if st.Op < 0 || st.Op >= len(c.Ops) {
				fmt.Fprintln(os.Stderr, "replay: step names an operation that is not in ops")
				os.Exit(2)
			}
			o, ok := m.execute(st.Op, st.Q)
			if !ok {
				continue
			}
			fo, _ := fresh[st.Op].execute(st.Q)
			if cl, what := checkStep(c.Ops[st.Op], st.Q, o, fo); cl != "" {
				failing++
				if firstClass == "" {
					firstClass, firstWhat = cl, what
				}
				break
			}
		}
	}
	fmt.Printf("replay level=multiop: %d operations, %d steps, %d of %d router builds fail\n", len(c.Ops), len(c.Steps), failing, rebuilds)
	for k, d := range c.Ops {
		fmt.Printf("  /op%d declares %v\n", k, d.paramJSON())
	}
	for _, st := range c.Steps {
		raw, _ := rawRequest(c.Ops[st.Op], st.Q)
		fmt.Printf("  request to /op%d: %q\n", st.Op, strings.Replace(raw, " /op", fmt.Sprintf(" /op%d", st.Op), 1))
	}
	if firstClass != "" {
		fmt.Printf("  %s\n  class=%q\n", firstWhat, firstClass)
		r.Fail(firstClass, firstWhat, c)
	} else {
		fmt.Println("  every step equals the single-operation result")
	}
	r.Eval(int64(rebuilds * len(c.Steps)))
	r.Nontrivial(1)
	r.Sample(c)
	r.Finish("replay of one multi-operation case", false)
}
