package main

// Pair sweep: two parameters of one operation, declared in two different
// locations, with the same name or with different names. It checks the
// per-parameter loop: each parameter is bound from its own location, a failure
// of one neither hides nor fakes the other, and the handler receives both.

import (
	"bufio"
	"fmt"
	"net/http"
	"net/http/httptest"
	"os"
	"reflect"
	"strings"

	"github.com/go-openapi/runtime"
	"github.com/go-openapi/runtime/middleware"
	"github.com/go-openapi/runtime/middleware/untyped"
	"github.com/go-openapi/spec"
	"github.com/go-openapi/strfmt"

	"verif/engine/apib"
)

type pairPrepared struct {
	ds      [2]Decl
	level   string
	binder  *middleware.UntypedRequestBinder
	fields  [2]string
	handler http.Handler
	got     *capture
	err     string
}

type pairObs struct {
	Panic   string
	Status  int
	Message string
	Ran     int
	P       [2]obs // per parameter: Present, V, GoType
}

func (o pairObs) String() string {
	switch {
	case o.Panic != "":
		return "panic: " + o.Panic
	case o.Status != 200:
		return fmt.Sprintf("status %d %q (handler runs: %d)", o.Status, o.Message, o.Ran)
	}
	return fmt.Sprintf("bound first: %s; second: %s", o.P[0], o.P[1])
}

func preparePair(level string, d1, d2 Decl) (p *pairPrepared) {
	p = &pairPrepared{ds: [2]Decl{d1, d2}, level: level}
	defer func() {
		if e := recover(); e != nil {
			p.err = fmt.Sprint(e)
		}
	}()
	switch level {
	case "map", "struct":
		params := map[string]spec.Parameter{}
		for i, d := range p.ds {
			sp, err := specParam(d)
			if err != nil {
				panic(err)
			}
			key := d.in() + "#" + d.Name
			if level == "struct" {
				_, key = d.goType()
				p.fields[i] = key
			}
			params[key] = sp
		}
		if len(params) != 2 {
			panic("harness: the two parameters need distinct fields")
		}
		p.binder = middleware.NewUntypedRequestBinder(params, new(spec.Swagger), strfmt.Default)
	case "handler":
		method, path := "GET", "/op"
		var consumes []string
		var raw []map[string]any
		for _, d := range p.ds {
			if d.Loc == "path" {
				path = "/op/{" + d.Name + "}"
			}
			if d.in() == "formData" {
				method = "POST"
				consumes = []string{"application/x-www-form-urlencoded", "multipart/form-data"}
			}
			raw = append(raw, d.paramJSON())
		}
		doc := apib.MustLoad(apib.Spec{BasePath: "/", Ops: []apib.Op{{Method: method, Path: path, Params: raw, Consumes: consumes}}})
		api := untyped.NewAPI(doc)
		api.RegisterConsumer("application/x-www-form-urlencoded", runtime.DiscardConsumer)
		api.RegisterConsumer("multipart/form-data", runtime.DiscardConsumer)
		p.got = &capture{}
		got := p.got
		api.RegisterOperation(method, path, runtime.OperationHandlerFunc(func(params interface{}) (interface{}, error) {
			got.ran++
			got.params, _ = params.(map[string]interface{})
			return map[string]string{"ok": "1"}, nil
		}))
		ctx := middleware.NewContext(doc, api, nil)
		p.handler = ctx.APIHandler(nil)
	}
	return p
}

func (p *pairPrepared) execute(q1, q2 Req) (o pairObs, ok bool) {
	raw, ok := rawRequestMulti(p.ds[:], []Req{q1, q2})
	if !ok {
		return pairObs{}, false
	}
	req, err := http.ReadRequest(bufio.NewReader(strings.NewReader(raw)))
	if err != nil {
		fmt.Fprintf(os.Stderr, "C03 harness: request does not parse: %v\n%q\n", err, raw)
		os.Exit(2)
	}
	defer func() {
		if e := recover(); e != nil {
			o = pairObs{Panic: fmt.Sprint(e)}
		}
	}()
	if p.err != "" {
		return pairObs{Panic: "while building: " + p.err}, true
	}
	var rp middleware.RouteParams
	for i, d := range p.ds {
		if d.Loc == "path" {
			rp = middleware.RouteParams{{Name: d.Name, Value: string([]Req{q1, q2}[i].Texts[0])}}
		}
	}
	fromMap := func(m map[string]interface{}) {
		for i, d := range p.ds {
			x, present := m[d.Name]
			o.P[i] = obs{Status: 200, Present: present, V: normalise(x)}
			if present {
				o.P[i].GoType = fmt.Sprintf("%T", x)
			}
		}
	}
	switch p.level {
	case "map":
		data := map[string]interface{}{}
		if err := p.binder.Bind(req, rp, runtime.JSONConsumer(), data); err != nil {
			return pairObs{Status: statusOf(err), Message: err.Error()}, true
		}
		o.Status = 200
		fromMap(data)
	case "struct":
		data := &target{}
		if err := p.binder.Bind(req, rp, runtime.JSONConsumer(), data); err != nil {
			return pairObs{Status: statusOf(err), Message: err.Error()}, true
		}
		o.Status = 200
		for i := range p.ds {
			x := reflect.ValueOf(data).Elem().FieldByName(p.fields[i]).Interface()
			o.P[i] = obs{Status: 200, Present: true, V: normalise(x), GoType: fmt.Sprintf("%T", x)}
		}
	case "handler":
		*p.got = capture{}
		rec := httptest.NewRecorder()
		p.handler.ServeHTTP(rec, req)
		o.Status, o.Ran = rec.Code, p.got.ran
		if rec.Code != 200 {
			o.Message = strings.TrimSpace(rec.Body.String())
			return o, true
		}
		fromMap(p.got.params)
	}
	return o, true
}

// judgePair: each parameter is judged by the single-parameter reference; a
// refusal is justified by any parameter that may or must be refused.
func judgePair(level string, ds [2]Decl, qs [2]Req, o pairObs) (string, string) {
	es := [2]expect{reference(ds[0], qs[0]), reference(ds[1], qs[1])}
	what := fmt.Sprintf("%s level, two parameters: observed %s; expected first: %s [state %s]; second: %s [state %s]", level, o, es[0], es[0].State, es[1], es[1].State)
	if o.Panic != "" {
		return "panic", what
	}
	if o.Status != 200 {
		if o.Status != 422 {
			return fmt.Sprintf("wrong-status-%d", o.Status), what
		}
		if !es[0].R422 && !es[1].R422 {
			return "rejected-valid", what
		}
		if level == "handler" && o.Ran != 0 {
			return "handler-ran-on-422", what
		}
		named := false
		for i, d := range ds {
			_, field := d.goType()
			if es[i].R422 && (strings.Contains(o.Message, d.Name) || (level == "struct" && strings.Contains(o.Message, field))) {
				named = true
			}
		}
		if !named {
			return "422-without-parameter-name", what
		}
		return "", ""
	}
	if level == "handler" && o.Ran != 1 {
		return fmt.Sprintf("handler-ran-%d-times", o.Ran), what
	}
	for i, d := range ds {
		if es[i].accepts(o.P[i]) {
			want, _ := d.goType()
			if level != "struct" && o.P[i].Present && o.P[i].GoType != want {
				if ds[0].Name == ds[1].Name {
					return "not-delivered/same-name-in-two-locations", what
				}
				return "wrong-go-type", what
			}
			continue
		}
		if level != "struct" && ds[0].Name == ds[1].Name {
			// the untyped handler receives one map entry per *name*: one of the two parameters is lost
			return "not-delivered/same-name-in-two-locations", what
		}
		if es[i].must422() {
			return "bound-not-422", what
		}
		return "wrong-value", what
	}
	return "", ""
}

// pairJobs: the declarations and requests of the pair sweep.
type pairJob struct {
	level  string
	d1, d2 Decl
}

func pairDecls() [][2]Decl {
	locs := []string{"path", "query", "header", "formU", "formM"}
	var out [][2]Decl
	for _, l1 := range locs {
		for _, l2 := range locs {
			if l1 == l2 || (strings.HasPrefix(l1, "form") && strings.HasPrefix(l2, "form")) {
				continue
			}
			for _, name2 := range []string{"Pz", "Qz"} {
				for _, req := range []bool{false, true} {
					d1 := Decl{Loc: l1, Name: "Pz", Type: "integer", Format: "int32", Required: req || l1 == "path"}
					d2 := Decl{Loc: l2, Name: name2, Type: "string", Required: req || l2 == "path"}
					out = append(out, [2]Decl{d1, d2})
				}
			}
		}
	}
	return out
}

func pairRequests(d Decl) []Req {
	var texts [][]string
	if d.Type == "integer" {
		texts = [][]string{nil, {"1"}, {"0"}, {"abc"}, {"2147483648"}, {"5", "7"}}
	} else {
		texts = [][]string{nil, {"ab"}, {""}, {"1"}, {"cd", "ab"}}
	}
	var out []Req
	for _, t := range texts {
		out = append(out, Req{Wire: d.Name, Texts: txts(t...)})
	}
	return out
}
