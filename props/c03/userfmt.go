package main

// The "formats registry" configuration axis: the default registry, or a
// registry of the application's own (strfmt.NewFormats() + Add, which is what
// untyped.API.RegisterFormat does) holding
//   x-shout   a user-defined format with its own Go type: 1..6 ASCII letters,
//             normalised to upper case by UnmarshalText;
//   hexcolor  a user format that shadows a built-in name: '#' and six hex
//             digits, normalised to lower case (the built-in one keeps the text
//             and also takes three digits / no '#').
// Under that registry a text denotes what the application's format says.

import (
	"strings"

	"github.com/go-openapi/strfmt"
)

// Shout is the Go type of the user format x-shout.
type Shout string

func (s Shout) String() string               { return string(s) }
func (s Shout) MarshalText() ([]byte, error) { return []byte(s), nil }
func (s *Shout) UnmarshalText(b []byte) error {
	*s = Shout(strings.ToUpper(string(b)))
	return nil
}

func isShout(s string) bool {
	if len(s) < 1 || len(s) > 6 {
		return false
	}
	for i := 0; i < len(s); i++ {
		if c := s[i] | 0x20; c < 'a' || c > 'z' {
			return false
		}
	}
	return true
}

// OwnHex is the Go type of the application's hexcolor format.
type OwnHex string

func (h OwnHex) String() string               { return string(h) }
func (h OwnHex) MarshalText() ([]byte, error) { return []byte(h), nil }
func (h *OwnHex) UnmarshalText(b []byte) error {
	*h = OwnHex(strings.ToLower(string(b)))
	return nil
}

func isOwnHex(s string) bool {
	if len(s) != 7 || s[0] != '#' {
		return false
	}
	for i := 1; i < 7; i++ {
		c := s[i]
		if !(c >= '0' && c <= '9' || c >= 'a' && c <= 'f' || c >= 'A' && c <= 'F') {
			return false
		}
	}
	return true
}

type registrar interface {
	Add(string, strfmt.Format, strfmt.Validator) bool
}

func addUserFormats(add func(name string, f strfmt.Format, v strfmt.Validator)) {
	var s Shout
	var h OwnHex
	add("x-shout", &s, isShout)
	add("hexcolor", &h, isOwnHex)
}

// registryFor: the registry a binder is given at the map / struct level.
func registryFor(d Decl) strfmt.Registry {
	if d.Registry != "own" {
		return strfmt.Default
	}
	r := strfmt.NewFormats()
	if d.LateFormats {
		return r // prepare adds the formats to this registry after the binder was built
	}
	addUserFormats(func(name string, f strfmt.Format, v strfmt.Validator) { r.Add(name, f, v) })
	return r
}

func init() {
	fmtLits["own:x-shout"] = []fmtLit{
		{"ab", sv("AB"), canon}, {"cd", sv("CD"), canon}, {"AB", sv("AB"), canon}, {"aBc", sv("ABC"), canon}, {"abcdef", sv("ABCDEF"), canon}, {"z", sv("Z"), canon},
		{"ef", sv("EF"), canon}, {"gh", sv("GH"), canon},
		{"a1", val{}, bad}, {"abcdefg", val{}, bad}, {"a b", val{}, bad}, {"é", val{}, bad}, {"a-b", val{}, bad}, {"#ffaa00", val{}, bad}, {"1", val{}, bad},
	}
	fmtLits["own:hexcolor"] = []fmtLit{
		{"#ffaa00", sv("#ffaa00"), canon}, {"#FFAA00", sv("#ffaa00"), canon}, {"#00Ff7a", sv("#00ff7a"), canon}, {"#000000", sv("#000000"), canon},
		{"#fa0", val{}, bad}, {"ffaa00", val{}, bad}, {"#ggaa00", val{}, bad}, {"red", val{}, bad}, {"#ffaa000", val{}, bad}, {"#ffaa0", val{}, bad}, {"ab", val{}, bad},
	}
	fmtLits["hexcolor"] = []fmtLit{ // the built-in format: the text itself, as strfmt.HexColor
		{"#ffaa00", sv("#ffaa00"), canon}, {"#FFAA00", sv("#FFAA00"), canon}, {"#00Ff7a", sv("#00Ff7a"), canon}, {"#000000", sv("#000000"), canon},
		{"#fa0", sv("#fa0"), loose}, {"ffaa00", sv("ffaa00"), loose},
		{"#ggaa00", val{}, bad}, {"red", val{}, bad}, {"#ffaa000", val{}, bad}, {"#ffaa0", val{}, bad}, {"ab", val{}, bad},
	}
	arrayTexts["string:own:x-shout"] = []string{"ab", "ab,cd", "ab|cd", "ab cd", "ab\tcd", "ab,cd,ab", "ab,,cd", " ab , cd ", "AB,cd", "ab,a1", "ab,abcdefg", "ab,cd,ef,gh"}
	arrayTexts["string:uuid"] = []string{uuid1, uuid1 + "," + uuid1, uuid1 + "|" + uuid1, uuid1 + ",zz", uuid1 + ",,"}
	arrayTexts["string:byte"] = []string{"aGk=", "aGk=,YWJj", "aGk=|YWJj", "aGk= YWJj", "aGk=,!!!", "aGk=,,YWJj", "aGk=,_-8=", "aGk=,/+8="}
	arrayTexts["string:own:hexcolor"] = []string{"#ffaa00", "#FFAA00,#000000", "#ffaa00|#000000", "#ffaa00 #000000", "#ffaa00\t#000000", "#ffaa00,red", "#ffaa00,#fa0", "#FFAA00,#000000,#00Ff7a,#ffaa00"}
}
