package main

import (
	"encoding/json"
	"fmt"
	"net/http"
	"net/url"
	"strconv"
	"strings"
)

// Txt is a request text. It is stored in replay files as a Go-quoted ASCII
// string so that every byte (invalid UTF-8 included) survives JSON.
type Txt string

func (t Txt) MarshalJSON() ([]byte, error) {
	return json.Marshal(strconv.QuoteToASCII(string(t)))
}

func (t *Txt) UnmarshalJSON(b []byte) error {
	var q string
	if err := json.Unmarshal(b, &q); err != nil {
		return err
	}
	s, err := strconv.Unquote(q)
	if err != nil {
		return fmt.Errorf("text %q is not a Go-quoted string: %v", q, err)
	}
	*t = Txt(s)
	return nil
}

// Decl is one non-body parameter declaration (the configuration axis).
type Decl struct {
	Loc        string `json:"loc"`  // path | query | header | formU (urlencoded) | formM (multipart)
	Name       string `json:"name"` // declared name
	Type       string `json:"type"` // string integer number boolean array file
	Format     string `json:"format,omitempty"`
	ItemType   string `json:"itemType,omitempty"`
	ItemFormat string `json:"itemFormat,omitempty"`
	CF         string `json:"collectionFormat,omitempty"` // "" csv ssv tsv pipes multi
	Required   bool   `json:"required,omitempty"`
	Default    bool   `json:"default,omitempty"`    // declares the standard valid default of its type
	Alt        bool   `json:"alt,omitempty"`        // the default is the second standard value of the type (multi-operation sweep)
	AllowEmpty bool   `json:"allowEmpty,omitempty"` // allowEmptyValue (query / formData only)
	Valid      string `json:"valid,omitempty"`      // named validation set, see validationJSON
	Registry   string `json:"registry,omitempty"`   // "" the default formats registry | "own" the application's registry (userfmt.go)
	// order of setup: the application's formats are added to the SAME registry AFTER the binder /
	// the handler was built from it (strfmt registries are mutable; Add is legal at any time)
	LateFormats bool `json:"lateFormats,omitempty"`
}

// Req is one request (the input axis): the occurrences of the parameter in its
// declared location, the spelling of the name on the wire, decoys elsewhere.
type Req struct {
	Wire  string `json:"wire"`            // name as spelled on the wire
	Texts []Txt  `json:"texts"`           // occurrences in the declared location, in order; empty = absent
	Decoy bool   `json:"decoy,omitempty"` // the same name also travels in the other locations with a valid literal
}

// Case is the replayable unit.
type Case struct {
	Level string `json:"level"` // map | struct | handler
	D     Decl   `json:"decl"`
	Q     Req    `json:"req"`
	// second parameter of the same operation (pair sweep only)
	D2 *Decl `json:"decl2,omitempty"`
	Q2 *Req  `json:"req2,omitempty"`
	// multi-operation sweep (level "multiop"): the operations of one API, all declaring the
	// same name in the same location, and the consecutive requests sent to one handler instance
	// literal-grammar consistency: a text of the same class (same value, other padding) that was bound
	Peer *Txt `json:"peer,omitempty"`
	// hostile-caller histories (hostile.go): the requests served before Q by the same binder /
	// handler instance; after each of them the caller overwrote everything it had been handed
	Prior []Req  `json:"prior,omitempty"`
	Ops   []Decl `json:"ops,omitempty"`
	Steps []Step `json:"steps,omitempty"`
}

func (d Decl) in() string {
	if d.Loc == "formU" || d.Loc == "formM" {
		return "formData"
	}
	return d.Loc
}

// elem: the type whose literals the texts (or items) are, and the key of its
// literal table: the format name, prefixed with "own:" for the formats the
// application's own registry defines (their texts denote something else there).
func (d Decl) elem() (string, string) {
	t, f := d.Type, d.Format
	if d.Type == "array" {
		t, f = d.ItemType, d.ItemFormat
	}
	if d.Registry == "own" && (f == "x-shout" || f == "hexcolor") {
		f = "own:" + f
	}
	return t, f
}

// ---- the standard default of each type (JSON form and denotation) ----

func scalarDefault(tpe, format string, alt bool) (any, val) {
	if alt && format == "" {
		switch tpe {
		case "integer":
			return 5, iv(5)
		case "number":
			return 3.5, fv(3.5)
		case "boolean":
			return false, bv(false)
		case "string":
			return "cd", sv("cd")
		}
	}
	switch tpe {
	case "integer":
		return 7, iv(7)
	case "number":
		return 1.5, fv(1.5)
	case "boolean":
		return true, bv(true)
	case "string":
		switch format {
		case "date":
			return "2020-01-02", tv(dateUnix(2020, 1, 2))
		case "date-time":
			return "2020-01-02T03:04:05Z", tv(dateUnix(2020, 1, 2) + (3*3600+4*60+5)*1e9)
		case "uuid":
			return "a8098c1a-f86e-11da-bd1a-00112444be1e", sv("a8098c1a-f86e-11da-bd1a-00112444be1e")
		case "byte":
			return "aGk=", val{K: "bytes", S: "hi"}
		case "email":
			return "a@b.co", sv("a@b.co")
		case "ipv4":
			return "10.0.0.1", sv("10.0.0.1")
		case "duration":
			return "3s", val{K: "int", I: 3e9}
		case "own:x-shout":
			return "ab", sv("AB")
		case "own:hexcolor":
			return "#FFAA00", sv("#ffaa00")
		case "hexcolor":
			return "#FFAA00", sv("#FFAA00")
		}
		return "ab", sv("ab")
	}
	return nil, val{K: "none"}
}

func (d Decl) defaultValue() (any, val) {
	if d.Type == "array" {
		switch d.ItemType {
		case "integer":
			return []any{7, 1}, lv(iv(7), iv(1))
		case "number":
			return []any{1.5, 7}, lv(fv(1.5), fv(7))
		case "boolean":
			return []any{true, false}, lv(bv(true), bv(false))
		default:
			switch _, f := d.elem(); f {
			case "own:x-shout":
				return []any{"ab", "cd"}, lv(sv("AB"), sv("CD"))
			case "own:hexcolor":
				return []any{"#FFAA00", "#000000"}, lv(sv("#ffaa00"), sv("#000000"))
			}
			return []any{"ab", "cd"}, lv(sv("ab"), sv("cd"))
		}
	}
	t, f := d.elem()
	return scalarDefault(t, f, d.Alt)
}

// validationJSON adds the keywords of the named validation set to m (the
// parameter object, or its items object for the item-level sets).
func validationJSON(name, tpe string, m map[string]any) {
	switch name {
	case "minmax":
		if tpe == "integer" {
			m["minimum"], m["maximum"] = -3, 100
		} else {
			m["minimum"], m["maximum"] = -2.5, 1000
		}
	case "minmax2":
		if tpe == "integer" {
			m["minimum"], m["maximum"] = 0, 50
		} else {
			m["minimum"], m["maximum"] = 0, 500
		}
	case "enum2":
		switch tpe {
		case "integer":
			m["enum"] = []any{2, 5, 42}
		case "number":
			m["enum"] = []any{3.5, 100}
		case "boolean":
			m["enum"] = []any{false}
		default:
			m["enum"] = []any{"cd", "ef"}
		}
	case "len2":
		m["minLength"], m["maxLength"] = 1, 2
	case "exclusive":
		if tpe == "integer" {
			m["minimum"], m["maximum"] = -3, 100
		} else {
			m["minimum"], m["maximum"] = -2.5, 1000
		}
		m["exclusiveMinimum"], m["exclusiveMaximum"] = true, true
	case "multipleOf":
		m["multipleOf"] = 7
	case "enum":
		switch tpe {
		case "integer":
			m["enum"] = []any{1, 7, 127}
		case "number":
			m["enum"] = []any{1.5, 7, 1000}
		case "boolean":
			m["enum"] = []any{true}
		default:
			m["enum"] = []any{"ab", "cd", "a b", "é"}
		}
	case "len":
		m["minLength"], m["maxLength"] = 2, 4
	case "pattern":
		m["pattern"] = "^[a-z]+$"
	}
}

// paramJSON renders the declaration as a Swagger 2.0 parameter object.
func (d Decl) paramJSON() map[string]any {
	m := map[string]any{"name": d.Name, "in": d.in(), "type": d.Type}
	if d.Format != "" {
		m["format"] = d.Format
	}
	if d.Required {
		m["required"] = true
	}
	if d.AllowEmpty {
		m["allowEmptyValue"] = true
	}
	if d.Default {
		j, _ := d.defaultValue()
		m["default"] = j
	}
	if d.Type == "array" {
		it := map[string]any{"type": d.ItemType}
		if d.ItemFormat != "" {
			it["format"] = d.ItemFormat
		}
		if d.CF != "" {
			m["collectionFormat"] = d.CF
		}
		switch d.Valid {
		case "items":
			m["minItems"], m["maxItems"] = 2, 3
		case "unique":
			m["uniqueItems"] = true
		case "itemenum":
			validationJSON("enum", d.ItemType, it)
		case "itemminmax":
			validationJSON("minmax", d.ItemType, it)
		case "itemlen":
			validationJSON("len", d.ItemType, it)
		}
		m["items"] = it
	} else {
		validationJSON(d.Valid, d.Type, m)
	}
	return m
}

// ---- rendering a request as the text net/http would receive ----

const boundary = "BoUnDaRy7"

// decoyText is a valid literal of (nearly) every type's neighbour: it is what
// the *other* locations carry when Decoy is set; it never equals a text under test.
func decoyText(d Decl) string {
	t, f := d.elem()
	switch t {
	case "integer":
		return "99"
	case "number":
		return "99.5"
	case "boolean":
		return "true"
	case "string":
		if j, _ := scalarDefault(t, f, false); f != "" {
			return j.(string)
		}
	}
	return "decoy"
}

// rawRequest renders the case. ok=false when the combination cannot be put on
// the wire (e.g. an empty path segment) - such combinations are not enumerated.
func rawRequest(d Decl, q Req) (raw string, ok bool) {
	return rawRequestMulti([]Decl{d}, []Req{q})
}

// rawRequestMulti renders one request carrying several parameters (at most one
// path parameter; form parameters must agree on the encoding).
func rawRequestMulti(ds []Decl, qs []Req) (raw string, ok bool) {
	method := "GET"
	target := "/op"
	var query []string
	var hdr []string
	var formU []string
	var formM strings.Builder
	ct := ""
	add := func(loc, name, text string) {
		switch loc {
		case "query":
			query = append(query, url.QueryEscape(name)+"="+url.QueryEscape(text))
		case "header":
			hdr = append(hdr, name+": "+text+"\r\n")
		}
	}
	paths := 0
	for i, d := range ds {
		q := qs[i]
		switch d.Loc {
		case "path":
			paths++
			if paths > 1 || len(q.Texts) != 1 || !pathTextOK(string(q.Texts[0])) {
				return "", false
			}
			target += "/" + url.PathEscape(string(q.Texts[0]))
		case "query", "header":
			for _, t := range q.Texts {
				if d.Loc == "header" && !headerTextOK(string(t)) {
					return "", false
				}
				add(d.Loc, q.Wire, string(t))
			}
		case "formU":
			if ct != "" && ct != "application/x-www-form-urlencoded" {
				return "", false
			}
			method = "POST"
			ct = "application/x-www-form-urlencoded"
			for _, t := range q.Texts {
				formU = append(formU, url.QueryEscape(q.Wire)+"="+url.QueryEscape(string(t)))
			}
		case "formM":
			if ct != "" && ct == "application/x-www-form-urlencoded" {
				return "", false
			}
			method = "POST"
			ct = "multipart/form-data; boundary=" + boundary
			for i, t := range q.Texts {
				if strings.Contains(string(t), boundary) {
					return "", false
				}
				if d.Type == "file" {
					fmt.Fprintf(&formM, "--%s\r\nContent-Disposition: form-data; name=%q; filename=\"f%d.txt\"\r\nContent-Type: text/plain\r\n\r\n%s\r\n", boundary, q.Wire, i, string(t))
				} else {
					fmt.Fprintf(&formM, "--%s\r\nContent-Disposition: form-data; name=%q\r\n\r\n%s\r\n", boundary, q.Wire, string(t))
				}
			}
		default:
			return "", false
		}
		if q.Decoy {
			dt := decoyText(d)
			if d.Loc != "query" {
				add("query", d.Name, dt)
			}
			if d.Loc != "header" && headerNameOK(d.Name) {
				add("header", d.Name, dt)
			}
		}
	}
	body := ""
	switch {
	case ct == "application/x-www-form-urlencoded":
		body = strings.Join(append([]string{"zz=1"}, formU...), "&") // an unrelated field is always there
	case ct != "":
		body = "--" + boundary + "\r\nContent-Disposition: form-data; name=\"zz\"\r\n\r\n1\r\n" + formM.String() + "--" + boundary + "--\r\n"
	}
	if len(query) > 0 {
		target += "?" + strings.Join(query, "&")
	}
	var b strings.Builder
	fmt.Fprintf(&b, "%s %s HTTP/1.1\r\nHost: x\r\n", method, target)
	for _, h := range hdr {
		b.WriteString(h)
	}
	if ct != "" {
		fmt.Fprintf(&b, "Content-Type: %s\r\nContent-Length: %d\r\n", ct, len(body))
	}
	b.WriteString("\r\n")
	b.WriteString(body)
	return b.String(), true
}

func pathTextOK(t string) bool {
	// an empty segment does not route, "." and ".." are removed by path cleaning (C01's business)
	return t != "" && t != "." && t != ".."
}

func headerNameOK(n string) bool {
	for i := 0; i < len(n); i++ {
		c := n[i]
		if !(c >= 'a' && c <= 'z' || c >= 'A' && c <= 'Z' || c >= '0' && c <= '9' || c == '-' || c == '_') {
			return false
		}
	}
	return n != ""
}

func headerTextOK(t string) bool {
	for i := 0; i < len(t); i++ {
		if c := t[i]; (c < 0x20 && c != '\t') || c == 0x7f {
			return false
		}
	}
	return true
}

// delivered is the text a location hands over for the text put on the wire:
// HTTP removes optional whitespace around a header field value; the other
// locations are escaped by the renderer and arrive unchanged.
func delivered(d Decl, t string) string {
	if d.Loc == "header" {
		return strings.Trim(t, " \t")
	}
	return t
}

// wireMatches: does a field sent under the name `wire` belong to the parameter
// declared as `name` under the rules of the location?
func wireMatches(d Decl, wire string) bool {
	if d.Loc == "header" {
		return http.CanonicalHeaderKey(wire) == http.CanonicalHeaderKey(d.Name) // header names are case-insensitive
	}
	return wire == d.Name
}
