package main

// Reference model of C01, written from the property text (not from the code):
//
//   - a route is (method, base-path segments + template segments);
//   - the request path is URL.EscapedPath() cleaned segment-wise (empty and "."
//     segments vanish, ".." removes its predecessor), still percent-encoded;
//   - a route is *instantiated* by the path when both have the same number of
//     segments, literal segments are byte-equal to the encoded path segment and
//     every placeholder is bound to the (non-empty) path segment; the value the
//     handler receives is the percent-decoded segment;
//   - among the instantiated routes of the request's method a route is NOT
//     acceptable when another instantiated route has a literal segment wherever
//     this one has a literal and additionally a literal where this one has a
//     placeholder (strict dominance; two routes that each have a literal where
//     the other has a placeholder are both acceptable: the text does not rank
//     positions);
//   - nothing instantiated under the method: 405 + Allow = the set of methods
//     that have an instantiated route, 404 if that set is empty.
//
//   - an encoded dot (%2E, %2E%2E) is segment text, not a dot segment: cleaning acts on the
//     encoded path.
//
// Everything the text leaves open is a set of acceptable readings (MAY).

import (
	"fmt"
	"net/url"
	"sort"
	"strings"

	"github.com/go-openapi/swag"
)

// ---- templates ----

type cpart struct {
	lit  string // literal piece, or
	name string // placeholder name
}

type tseg struct {
	kind  byte    // 'L' literal, 'P' placeholder = whole segment, 'C' composite (placeholders and literal pieces in one segment)
	lit   string  // 'L'
	name  string  // 'P'
	parts []cpart // 'C'
}

func splitSegs(p string) []string {
	var out []string
	for _, s := range strings.Split(p, "/") {
		if s != "" {
			out = append(out, s)
		}
	}
	return out
}

func parseTemplateSeg(s string) tseg {
	if !strings.Contains(s, "{") {
		return tseg{kind: 'L', lit: s}
	}
	var parts []cpart
	rest := s
	for rest != "" {
		i := strings.Index(rest, "{")
		if i < 0 {
			parts = append(parts, cpart{lit: rest})
			break
		}
		if i > 0 {
			parts = append(parts, cpart{lit: rest[:i]})
		}
		j := strings.Index(rest, "}")
		parts = append(parts, cpart{name: rest[i+1 : j]})
		rest = rest[j+1:]
	}
	if len(parts) == 1 {
		return tseg{kind: 'P', name: parts[0].name}
	}
	return tseg{kind: 'C', parts: parts}
}

func templateNames(t string) []string {
	var out []string
	for _, s := range splitSegs(t) {
		ts := parseTemplateSeg(s)
		switch ts.kind {
		case 'P':
			out = append(out, ts.name)
		case 'C':
			for _, p := range ts.parts {
				if p.name != "" {
					out = append(out, p.name)
				}
			}
		}
	}
	return out
}

// route is one operation of the description, under the base path.
type route struct {
	op        int
	method    string // upper case, as registered
	template  string
	segs      []tseg
	nbase     int  // number of leading segments that come from the base path
	trailing  bool // template other than "/" that ends in '/'
	rootUnder bool // template "/" under a base path that has segments
	composite bool // has a composite segment that starts with a placeholder ({p}.{q}, {p}.json)
	prefixed  bool // has a composite segment that starts with a literal (x{p})
}

func makeRoutes(base string, ops []OpC) []route {
	bs := splitSegs(base)
	out := make([]route, len(ops))
	for i, o := range ops {
		r := route{op: i, method: strings.ToUpper(o.Method), template: o.Template, nbase: len(bs)}
		for _, s := range bs {
			r.segs = append(r.segs, tseg{kind: 'L', lit: s})
		}
		for _, s := range splitSegs(o.Template) {
			ts := parseTemplateSeg(s)
			if ts.kind == 'C' {
				if ts.parts[0].name != "" {
					r.composite = true
				} else {
					r.prefixed = true
				}
			}
			r.segs = append(r.segs, ts)
		}
		r.trailing = o.Template != "/" && strings.HasSuffix(o.Template, "/")
		r.rootUnder = o.Template == "/" && len(bs) > 0
		out[i] = r
	}
	return out
}

// ---- request paths ----

// cleanSegs: the cleaned path as a segment list; ok=false when the escaped path is not rooted.
func cleanSegs(esc string) (segs []string, ok bool) {
	if !strings.HasPrefix(esc, "/") {
		return nil, false
	}
	for _, s := range strings.Split(esc, "/") {
		switch s {
		case "", ".":
		case "..":
			if len(segs) > 0 {
				segs = segs[:len(segs)-1]
			}
		default:
			segs = append(segs, s)
		}
	}
	return segs, true
}

// a reading of the request path: the segment list the routes are compared with.
type reading struct {
	segs   []string
	rooted bool
	note   string
}

// pathReadings: the primary reading plus the ones the text does not exclude.
func pathReadings(esc string) []reading {
	var out []reading
	segs, ok := cleanSegs(esc)
	out = append(out, reading{segs, ok, "primary"})
	if esc == "" {
		// absolute-form target without a path: the text does not say whether it is "/"
		out = append(out, reading{nil, true, "empty path read as /"})
	}
	return out
}

// dotResolvedReadings are NOT accepted readings. "Cleaned, still percent-encoded path": cleaning
// acts on the encoded path, so %2E / %2E%2E is the text of a segment (a placeholder bound to it
// receives "." / ".."), never a dot segment. These readings describe an implementation that
// decodes dots before cleaning; they only give such a failure its own class.
func dotResolvedReadings(esc string) []reading {
	if !strings.Contains(strings.ToUpper(esc), "%2E") {
		return nil
	}
	r := strings.NewReplacer("%2E", ".", "%2e", ".")
	var parts []string
	for _, s := range strings.Split(esc, "/") {
		if d := r.Replace(s); d == "." || d == ".." {
			s = d
		}
		parts = append(parts, s)
	}
	s1, ok1 := cleanSegs(strings.Join(parts, "/"))
	s2, ok2 := cleanSegs(r.Replace(esc))
	return []reading{{s1, ok1, "encoded dot segments resolved"}, {s2, ok2, "every encoded dot decoded before cleaning"}}
}

// ---- instantiation ----

type verdict int8

const (
	no    verdict = iota // certainly not instantiated
	undet                // the text does not decide (reported never)
	yes                  // instantiated, bindings determined
)

type bindings map[string]string

// decompose returns every way to split s along the composite parts (placeholder texts may be empty).
func decompose(parts []cpart, s string) [][]string {
	if len(parts) == 0 {
		if s == "" {
			return [][]string{{}}
		}
		return nil
	}
	p := parts[0]
	if p.name == "" {
		if strings.HasPrefix(s, p.lit) {
			return decompose(parts[1:], s[len(p.lit):])
		}
		return nil
	}
	var out [][]string
	for k := 0; k <= len(s); k++ {
		for _, rest := range decompose(parts[1:], s[k:]) {
			out = append(out, append([]string{s[:k]}, rest...))
		}
	}
	return out
}

// fitSeg compares one template segment with one encoded path segment.
func fitSeg(t tseg, raw string, b bindings) verdict {
	dec, err := url.PathUnescape(raw)
	if err != nil {
		return undet // net/http does not deliver such a path; never judged
	}
	switch t.kind {
	case 'L':
		if raw == t.lit {
			return yes
		}
		if dec == t.lit {
			return undet // equal only after decoding: the text compares the encoded path, be lenient
		}
		return no
	case 'P':
		b[t.name] = dec
		return yes
	}
	// composite: determined only when the encoded and the decoded segment decompose
	// in exactly one way into non-empty texts, or in no way at all
	dr := decompose(t.parts, raw)
	dd := decompose(t.parts, dec)
	if len(dr) == 0 && len(dd) == 0 {
		return no
	}
	if len(dr) != 1 || len(dd) != 1 {
		return undet
	}
	names := []string{}
	for _, p := range t.parts {
		if p.name != "" {
			names = append(names, p.name)
		}
	}
	for i, txt := range dr[0] {
		if txt == "" {
			return undet
		}
		v, err := url.PathUnescape(txt)
		if err != nil || v != dd[0][i] {
			return undet
		}
		b[names[i]] = v
	}
	return yes
}

// fit: is the route instantiated by the segment list. relaxed=true is NOT the
// reference: it is the model of a known defect (a composite segment taken as one
// whole-segment placeholder) and only used to classify failures.
func fit(r *route, segs []string, relaxed bool) (verdict, bindings) {
	if len(r.segs) != len(segs) {
		return no, nil
	}
	b := bindings{}
	res := yes
	for i, t := range r.segs {
		if relaxed && t.kind == 'C' && t.parts[0].name != "" {
			continue
		}
		switch fitSeg(t, segs[i], b) {
		case no:
			return no, nil
		case undet:
			res = undet
		}
	}
	return res, b
}

// dominates: o has a literal wherever r has one, and at least one more.
func dominates(o, r *route) bool {
	more := false
	for i := range r.segs {
		rl, ol := r.segs[i].kind == 'L', o.segs[i].kind == 'L'
		if rl && !ol {
			return false
		}
		if ol && !rl {
			more = true
		}
	}
	return more
}

// ---- expectation ----

// expect is what one reading forces.
type expect struct {
	undetermined bool
	runs         map[int]bindings // acceptable (operation -> bindings); non-empty: a handler MUST run
	refused422   map[int]bool     // defect models only: the request may die in the binder of these operations
	allow        []string         // nothing runs: sorted Allow set; empty = 404
	note         string
}

type model struct {
	dropTrailing  bool // defect model: trailing-slash templates are not routed
	dropRootUnder bool // defect model: template "/" under a base path with segments is not routed
	relaxComposit bool // defect model: composite segment that starts with a placeholder = whole-segment placeholder, texts found afterwards
	dropPrefixed  bool // defect model: a template with a placeholder after a literal inside one segment is not routed
}

func expected(routes []route, method string, rd reading, m model) expect {
	e := expect{note: rd.note}
	if !rd.rooted {
		return e // nothing can be instantiated by a path that is not rooted: 404
	}
	type hit struct {
		r       *route
		b       bindings
		relaxed bool // fits only under the relaxed (defect) notion
	}
	byMethod := map[string][]hit{}
	for i := range routes {
		r := &routes[i]
		if (m.dropTrailing && r.trailing) || (m.dropRootUnder && r.rootUnder) || (m.dropPrefixed && r.prefixed) {
			continue
		}
		v, b := fit(r, rd.segs, false)
		if v == undet {
			e.undetermined = true
			return e
		}
		if v == yes {
			byMethod[r.method] = append(byMethod[r.method], hit{r, b, false})
			continue
		}
		if m.relaxComposit && r.composite {
			if v2, _ := fit(r, rd.segs, true); v2 == yes {
				byMethod[r.method] = append(byMethod[r.method], hit{r, nil, true})
			}
		}
	}
	if hits := byMethod[method]; len(hits) > 0 {
		e.runs = map[int]bindings{}
		for _, h := range hits {
			dominated := false
			for _, o := range hits {
				if o.r != h.r && dominates(o.r, h.r) {
					dominated = true
				}
			}
			if dominated {
				continue
			}
			if h.relaxed {
				if e.refused422 == nil {
					e.refused422 = map[int]bool{}
				}
				e.refused422[h.r.op] = true
			} else {
				e.runs[h.r.op] = h.b
			}
		}
		return e
	}
	for k := range byMethod {
		e.allow = append(e.allow, k)
	}
	sort.Strings(e.allow)
	return e
}

// ---- observation and comparison ----

type run struct {
	Op     int            `json:"op"`
	Params map[string]any `json:"params"`
}

type observed struct {
	Panic      string      `json:"panic,omitempty"`
	Runs       []run       `json:"runs,omitempty"`
	Status     int         `json:"status"`
	Allow      []string    `json:"allow,omitempty"` // sorted set of the tokens of all Allow header lines
	MRPattern  string      `json:"matched_pattern,omitempty"`
	MRParams   [][2]string `json:"matched_params,omitempty"`
	HasMR      bool        `json:"has_matched_route,omitempty"`
	NoSpy      bool        `json:"no_spy,omitempty"`     // entry point without a builder (middleware.Serve): the matched route cannot be observed
	MRGet      [][2]string `json:"params_get,omitempty"` // name, RouteParams.Get(name) for every name of the matched route
	MRGetOK    [][2]string `json:"params_getok,omitempty"`
	MRGetOKBad string      `json:"params_getok_flags,omitempty"` // first name whose GetOK flags are not (one value, has key, has value iff non-empty)
}

func (o observed) String() string {
	if o.Panic != "" {
		return "panic: " + o.Panic
	}
	s := fmt.Sprintf("status %d", o.Status)
	if len(o.Allow) > 0 {
		s += " Allow=" + strings.Join(o.Allow, ",")
	}
	for _, r := range o.Runs {
		s += fmt.Sprintf(" ran op#%d params=%v", r.Op, r.Params)
	}
	if len(o.Runs) == 0 {
		s += " no handler ran"
	}
	if o.HasMR {
		s += fmt.Sprintf(" matched=%q %v Get=%v GetOK=%v", o.MRPattern, o.MRParams, o.MRGet, o.MRGetOK)
	}
	return s
}

func sameSet(a, b []string) bool {
	if len(a) != len(b) {
		return false
	}
	for i := range a {
		if a[i] != b[i] {
			return false
		}
	}
	return true
}

// conforms returns "" when the observation satisfies the expectation, else the symptom kind.
func conforms(o observed, e expect) string {
	if o.Panic != "" {
		return "panic"
	}
	if e.undetermined {
		return ""
	}
	if len(o.Runs) > 1 {
		return "multiple-dispatch"
	}
	if len(o.Runs) == 1 {
		rn := o.Runs[0]
		if len(e.runs) == 0 && len(e.refused422) == 0 {
			return "spurious-dispatch"
		}
		want, ok := e.runs[rn.Op]
		if !ok {
			return "wrong-handler"
		}
		if len(rn.Params) != len(want) {
			return "wrong-params"
		}
		for k, v := range want {
			got, ok := rn.Params[k].(string)
			if !ok || got != v {
				return "wrong-params"
			}
		}
		if o.NoSpy {
			return ""
		}
		// the matched route the request carries names the same bindings
		if !o.HasMR {
			return "matched-route-mismatch"
		}
		if len(o.MRParams) != len(want) {
			return "matched-route-mismatch"
		}
		for _, kv := range o.MRParams {
			if v, ok := want[kv[0]]; !ok || v != kv[1] {
				return "matched-route-mismatch"
			}
		}
		// ... through every accessor of RouteParams: direct slice access (above), Get, GetOK
		if len(o.MRGet) != len(want) || len(o.MRGetOK) != len(want) {
			return "route-params-accessor-mismatch"
		}
		for _, kv := range o.MRGet {
			if v, ok := want[kv[0]]; !ok || v != kv[1] {
				return "route-params-get-mismatch"
			}
		}
		for _, kv := range o.MRGetOK {
			if v, ok := want[kv[0]]; !ok || v != kv[1] {
				return "route-params-getok-mismatch"
			}
		}
		if o.MRGetOKBad != "" {
			return "route-params-getok-mismatch"
		}
		return ""
	}
	// no handler ran
	if len(e.refused422) > 0 && o.Status == 422 {
		return ""
	}
	if len(e.runs) > 0 || len(e.refused422) > 0 {
		return "not-dispatched"
	}
	if len(e.allow) == 0 {
		if o.Status != 404 {
			return "refusal-status"
		}
		return ""
	}
	if o.Status != 405 {
		return "refusal-status"
	}
	if !sameSet(o.Allow, e.allow) {
		return "refusal-allow"
	}
	return ""
}

func (e expect) String() string {
	if e.undetermined {
		return "undetermined"
	}
	if len(e.runs) > 0 || len(e.refused422) > 0 {
		var parts []string
		ks := []int{}
		for k := range e.runs {
			ks = append(ks, k)
		}
		sort.Ints(ks)
		for _, k := range ks {
			parts = append(parts, fmt.Sprintf("op#%d with %v", k, map[string]string(e.runs[k])))
		}
		for k := range e.refused422 {
			parts = append(parts, fmt.Sprintf("422 from op#%d", k))
		}
		return "exactly one handler runs: " + strings.Join(parts, " or ")
	}
	if len(e.allow) == 0 {
		return "no handler runs, 404"
	}
	return "no handler runs, 405 Allow=" + strings.Join(e.allow, ",")
}

// goNameCollision is the model of a known defect of the dependency go-openapi/analysis
// (Spec.ParamsFor keys the parameters of an operation by swag.ToGoName(name), so two path
// parameters such as "id" and "ID" or "pet-id" and "pet_id" become ONE entry and only one of
// them is bound): the right handler ran, the matched route carries every binding, every value
// the handler received is right, and each missing name shares its Go name with a name that was
// received.
func goNameCollision(o observed, e expect) bool {
	if len(o.Runs) != 1 {
		return false
	}
	want, ok := e.runs[o.Runs[0].Op]
	if !ok || len(o.Runs[0].Params) >= len(want) || len(o.MRParams) != len(want) {
		return false
	}
	for _, kv := range o.MRParams {
		if v, ok := want[kv[0]]; !ok || v != kv[1] {
			return false
		}
	}
	got := map[string]bool{}
	for k, v := range o.Runs[0].Params {
		w, ok := want[k]
		if s, isStr := v.(string); !ok || !isStr || s != w {
			return false
		}
		got[swag.ToGoName(k)] = true
	}
	for k := range want {
		if _, received := o.Runs[0].Params[k]; !received && !got[swag.ToGoName(k)] {
			return false
		}
	}
	return true
}

// knownDefectSuffixes are the class suffixes that name a defect model (see judge / goNameCollision).
var knownDefectSuffixes = []string{
	"trailing-slash-template-not-routed", "root-template-under-basepath-not-routed",
	"composite-segment-matched-as-whole-segment", "placeholder-after-literal-prefix-not-routed",
	"placeholder-names-with-one-go-name",
}

// viaSuffix: a failure that only an uncommon exported entry point shows says which one.
func viaSuffix(class, via string) string {
	if class == "" || via == "routes" || via == "api" {
		return class
	}
	for _, k := range knownDefectSuffixes {
		if strings.Contains(class, "/"+k) {
			return class
		}
	}
	return class + "/entry-point-" + via
}

// judgeIn judges an observation made under a configuration of the library. Debug logging must
// not change dispatch: the expectations are the same; a failure that is not one of the defects
// already modelled says which configuration it needs.
func judgeIn(debug bool, routes []route, method, esc string, o observed) (class, what string, determined bool) {
	class, what, determined = judge(routes, method, esc, o)
	if !debug || class == "" {
		return
	}
	for _, k := range knownDefectSuffixes {
		if strings.Contains(class, "/"+k) {
			return
		}
	}
	return class + "/debug-logging-on", what + " [middleware.Debug = true]", determined
}

// afterHistory marks a failure that the same request does not show on a fresh instance: the answer
// depends on requests served earlier by the same handler, which the property excludes (the handler
// that runs is determined by the description and the request alone).
func afterHistory(class, what string, n int) (string, string) {
	return class + "/after-earlier-requests", fmt.Sprintf("%s [after %d earlier requests on the same handler; alone on a fresh handler the request is answered as demanded]", what, n)
}

// judge decides one observation. Returns class ("" = satisfied), text, and whether the case was determined.
func judge(routes []route, method, esc string, o observed) (class, what string, determined bool) {
	up := strings.ToUpper(method)
	type alt struct {
		method string
		rd     reading
	}
	var alts []alt
	for _, rd := range pathReadings(esc) {
		alts = append(alts, alt{up, rd})
		if up != method {
			// HTTP methods are case-sensitive tokens; the text does not say that "get" is GET.
			// Reading 2: no operation is registered for the token as sent.
			alts = append(alts, alt{method, reading{rd.segs, rd.rooted, rd.note + ", method token taken literally"}})
		}
	}
	determined = true
	var first expect
	for i, a := range alts {
		e := expected(routes, a.method, a.rd, model{})
		if i == 0 {
			first = e
		}
		if e.undetermined {
			determined = false
		}
		if conforms(o, e) == "" {
			return "", "", determined && i == 0
		}
	}
	symptom := conforms(o, first)
	what = fmt.Sprintf("observed: %s; the text demands: %s", o, first)
	if symptom == "panic" {
		return symptom, what, true
	}
	if symptom == "wrong-params" && goNameCollision(o, first) {
		return symptom + "/placeholder-names-with-one-go-name", what, true
	}
	// attribute to a known defect only if the defect's own model predicts exactly this observation
	models := []struct {
		name string
		m    model
	}{
		{"trailing-slash-template-not-routed", model{dropTrailing: true}},
		{"root-template-under-basepath-not-routed", model{dropRootUnder: true}},
		{"composite-segment-matched-as-whole-segment", model{relaxComposit: true}},
		{"placeholder-after-literal-prefix-not-routed", model{dropPrefixed: true}},
		{"placeholder-after-literal-prefix-not-routed+composite-segment-matched-as-whole-segment", model{dropPrefixed: true, relaxComposit: true}},
		{"trailing-slash-template-not-routed+root-template-under-basepath-not-routed", model{dropTrailing: true, dropRootUnder: true}},
		{"trailing-slash-template-not-routed+composite-segment-matched-as-whole-segment", model{dropTrailing: true, relaxComposit: true}},
		{"root-template-under-basepath-not-routed+composite-segment-matched-as-whole-segment", model{dropRootUnder: true, relaxComposit: true}},
	}
	for _, dm := range models {
		for _, a := range alts {
			if conforms(o, expected(routes, a.method, a.rd, dm.m)) == "" {
				return symptom + "/" + dm.name, what, true
			}
		}
	}
	// not a known defect: an implementation that decodes dots before cleaning gets its own class
	for _, rd := range dotResolvedReadings(esc) {
		for _, m := range []string{up, method} {
			if conforms(o, expected(routes, m, rd, model{})) == "" {
				return symptom + "/encoded-dot-resolved-as-dot-segment", what, true
			}
		}
	}
	return symptom, what, true
}
