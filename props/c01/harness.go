package main

import (
	"bufio"
	"encoding/json"
	"fmt"
	"io"
	"log"
	"net/http"
	"sort"
	"strings"

	"github.com/go-openapi/analysis"
	"github.com/go-openapi/errors"
	"github.com/go-openapi/loads"
	"github.com/go-openapi/runtime"
	"github.com/go-openapi/runtime/middleware"
	"github.com/go-openapi/runtime/middleware/untyped"
	"github.com/go-openapi/spec"
	"github.com/go-openapi/strfmt"

	"verif/engine/apib"
)

// OpC is one operation of a generated description.
type OpC struct {
	Method   string `json:"method"`
	Template string `json:"template"`
}

// Desc is an API description of the enumerated family.
type Desc struct {
	Base   string `json:"base"`
	NoBase bool   `json:"no_base,omitempty"` // no basePath member at all
	Ops    []OpC  `json:"ops"`
	// IDs: how the operations are identified. "" = every operation has its own operationId;
	// "none" = no operation has an operationId (it is optional in Swagger 2.0); "dup" = all
	// operations carry the same operationId (a description error the loader accepts);
	// "mix" = operations at even positions have none, the others their own.
	IDs string `json:"ids,omitempty"`
}

// Req is one request line.
type Req struct {
	Method string `json:"method"`
	Target string `json:"target"`
}

// Case = one description, one entry point, one request as a raw request line.
type Case struct {
	Desc
	Via    string `json:"via"`              // "routes" = Context.RoutesHandler(builder), "api" = Context.APIHandler(builder)
	Debug  bool   `json:"debug,omitempty"`  // middleware.Debug = true while the API is wired and the request served
	Before []Req  `json:"before,omitempty"` // requests served earlier, in this order, by the SAME wired handler
	Method string `json:"method"`           // method token as sent
	Target string `json:"target"`           // request-target as sent
}

// built is a description wired on the real middleware; single-threaded use.
type built struct {
	desc    Desc
	routes  []route
	handler http.Handler
	obs     *observed
	via     string
	noSpy   bool
	ctx     *middleware.Context // nil for the entry points that hide it (Serve, ServeWithBuilder)
	router  middleware.Router   // non-nil when the harness built the router itself
}

func (d Desc) spec() apib.Spec {
	s := apib.Spec{BasePath: d.Base, NoBasePath: d.NoBase}
	for i, o := range d.Ops {
		var ps []map[string]any
		for _, n := range templateNames(o.Template) {
			ps = append(ps, map[string]any{"name": n, "in": "path", "required": true, "type": "string"})
		}
		s.Ops = append(s.Ops, apib.Op{Method: o.Method, Path: o.Template, ID: fmt.Sprintf("op%d", i), Params: ps})
	}
	return s
}

func build(d Desc, via string) (b *built, err error) {
	defer func() {
		if e := recover(); e != nil {
			err = fmt.Errorf("building the API panicked: %v", e)
		}
	}()
	doc, err := d.load()
	if err != nil {
		return nil, err
	}
	return wireUp(d, doc, via), nil
}

// load analyses the description in memory (the operationId variants are produced by editing
// the rendered document, apib always writes an operationId).
func (d Desc) load() (*loads.Document, error) {
	if d.IDs == "" {
		return apib.Load(d.spec())
	}
	var doc map[string]any
	if err := json.Unmarshal(d.spec().JSON(), &doc); err != nil {
		return nil, err
	}
	paths, _ := doc["paths"].(map[string]any)
	for i, o := range d.Ops {
		pi, _ := paths[o.Template].(map[string]any)
		op, _ := pi[strings.ToLower(o.Method)].(map[string]any)
		if op == nil {
			return nil, fmt.Errorf("operation %s %s not rendered", o.Method, o.Template)
		}
		switch {
		case d.IDs == "none", d.IDs == "mix" && i%2 == 0:
			delete(op, "operationId")
		case d.IDs == "dup":
			op["operationId"] = "same"
		}
	}
	raw, err := json.Marshal(doc)
	if err != nil {
		return nil, err
	}
	return loads.Analyzed(json.RawMessage(raw), "")
}

// entry points (Case.Via): every exported way to obtain the dispatching handler chain.
//
//	routes                Context.RoutesHandler(builder)                         (common path)
//	api                   Context.APIHandler(builder)                            (common path)
//	swaggerui, rapidoc    Context.APIHandlerSwaggerUI / APIHandlerRapiDoc(builder)
//	newrouter             middleware.NewRouter(ctx, builder(middleware.NewOperationExecutor(ctx)))
//	serve                 middleware.ServeWithBuilder(doc, api, builder)
//	serve-plain           middleware.Serve(doc, api)                             (no builder: matched route not observable)
//	routable              NewRoutableContext(doc, <own RoutableAPI>, nil).RoutesHandler(builder): the flavour generated
//	                      servers use - handlers read the matched route and bind through Context.BindValidRequest
//	routable-router       NewRoutableContextWithAnalyzedSpec(doc, analysis, <own RoutableAPI>,
//	                      DefaultRouter(doc, api, WithDefaultRouterLoggerFunc(..))).APIHandler(builder)
//	routable-router-lg    the same with DefaultRouter(doc, api, WithDefaultRouterLogger(..)) and Context.SetLogger
var surfaceVias = []string{"routes", "api", "swaggerui", "rapidoc", "newrouter", "serve", "serve-plain", "routable", "routable-router", "routable-router-lg"}

// wireUp builds a fresh API, context and handler chain over an analysed description.
func wireUp(d Desc, doc *loads.Document, via string) (b *built) {
	b = &built{desc: d, routes: makeRoutes(d.Base, d.Ops), obs: &observed{}, via: via}
	// the builder decorates the operation executor: it sees the request after routing
	spy := func(next http.Handler) http.Handler {
		return http.HandlerFunc(func(w http.ResponseWriter, r *http.Request) {
			if mr := middleware.MatchedRouteFrom(r); mr != nil {
				b.obs.HasMR = true
				b.obs.MRPattern = mr.PathPattern
				for _, p := range mr.Params { // direct slice access
					b.obs.MRParams = append(b.obs.MRParams, [2]string{p.Name, p.Value})
					b.obs.MRGet = append(b.obs.MRGet, [2]string{p.Name, mr.Params.Get(p.Name)})
					vv, hasKey, hasValue := mr.Params.GetOK(p.Name)
					if len(vv) != 1 || !hasKey || hasValue != (vv[0] != "") {
						if b.obs.MRGetOKBad == "" {
							b.obs.MRGetOKBad = p.Name
						}
					}
					if len(vv) > 0 {
						b.obs.MRGetOK = append(b.obs.MRGetOK, [2]string{p.Name, vv[len(vv)-1]})
					}
				}
			}
			next.ServeHTTP(w, r)
		})
	}
	if strings.HasPrefix(via, "routable") {
		ra := &ownAPI{b: b, handlers: map[string]http.Handler{}}
		for i, o := range d.Ops {
			ra.handlers[strings.ToUpper(o.Method)+" "+o.Template] = ra.operation(i, templateNames(o.Template))
		}
		switch via {
		case "routable":
			b.ctx = middleware.NewRoutableContext(doc, ra, nil)
			b.handler = b.ctx.RoutesHandler(spy)
		default:
			if via == "routable-router-lg" {
				b.router = middleware.DefaultRouter(doc, ra, middleware.WithDefaultRouterLogger(discardLogger{}))
			} else {
				b.router = middleware.DefaultRouter(doc, ra, middleware.WithDefaultRouterLoggerFunc(func(string, ...any) {}))
			}
			b.ctx = middleware.NewRoutableContextWithAnalyzedSpec(doc, analysis.New(doc.Spec()), ra, b.router)
			if via == "routable-router-lg" {
				b.ctx.SetLogger(discardLogger{})
			}
			b.handler = b.ctx.APIHandler(spy)
		}
		ra.ctx = b.ctx
		return b
	}
	api := untyped.NewAPI(doc)
	for i, o := range d.Ops {
		i := i
		api.RegisterOperation(o.Method, o.Template, runtime.OperationHandlerFunc(func(params interface{}) (interface{}, error) {
			m, _ := params.(map[string]interface{})
			cp := make(map[string]any, len(m))
			for k, v := range m {
				cp[k] = v
			}
			b.obs.Runs = append(b.obs.Runs, run{Op: i, Params: cp})
			return okBody, nil
		}))
	}
	switch via {
	case "serve":
		b.handler = middleware.ServeWithBuilder(doc, api, spy)
		return b
	case "serve-plain":
		b.handler = middleware.Serve(doc, api)
		b.noSpy = true
		return b
	}
	b.ctx = middleware.NewContext(doc, api, nil)
	switch via {
	case "api":
		b.handler = b.ctx.APIHandler(spy)
	case "swaggerui":
		b.handler = b.ctx.APIHandlerSwaggerUI(spy)
	case "rapidoc":
		b.handler = b.ctx.APIHandlerRapiDoc(spy)
	case "newrouter":
		b.handler = middleware.NewRouter(b.ctx, spy(middleware.NewOperationExecutor(b.ctx)))
	default:
		b.handler = b.ctx.RoutesHandler(spy)
	}
	return b
}

// ownAPI is a RoutableAPI written the way generated servers write theirs: one http.Handler per
// operation, which takes the matched route from the request, binds its path parameters from
// route.Params.GetOK inside Context.BindValidRequest and responds through Context.Respond.
type ownAPI struct {
	b        *built
	ctx      *middleware.Context
	handlers map[string]http.Handler
}

type ownBinder struct {
	names []string
	got   map[string]any
}

func (ob *ownBinder) BindRequest(_ *http.Request, route *middleware.MatchedRoute) error {
	for _, n := range ob.names {
		vv, hasKey, _ := route.Params.GetOK(n)
		if hasKey && len(vv) > 0 {
			ob.got[n] = vv[len(vv)-1]
		}
	}
	return nil
}

func (a *ownAPI) operation(i int, names []string) http.Handler {
	return http.HandlerFunc(func(w http.ResponseWriter, r *http.Request) {
		route, rCtx, _ := a.ctx.RouteInfo(r)
		if rCtx != nil {
			r = rCtx
		}
		ob := &ownBinder{names: names, got: map[string]any{}}
		if err := a.ctx.BindValidRequest(r, route, ob); err != nil {
			a.ctx.Respond(w, r, route.Produces, route, err)
			return
		}
		a.b.obs.Runs = append(a.b.obs.Runs, run{Op: i, Params: ob.got})
		a.ctx.Respond(w, r, route.Produces, route, okBody)
	})
}

func (a *ownAPI) HandlerFor(method, path string) (http.Handler, bool) {
	h, ok := a.handlers[strings.ToUpper(method)+" "+path]
	return h, ok
}
func (a *ownAPI) ServeErrorFor(string) func(http.ResponseWriter, *http.Request, error) {
	return errors.ServeError
}
func (a *ownAPI) ConsumersFor(mts []string) map[string]runtime.Consumer {
	out := map[string]runtime.Consumer{}
	for _, mt := range mts {
		if mt == runtime.JSONMime {
			out[mt] = runtime.JSONConsumer()
		}
	}
	return out
}
func (a *ownAPI) ProducersFor(mts []string) map[string]runtime.Producer {
	out := map[string]runtime.Producer{}
	for _, mt := range mts {
		if mt == runtime.JSONMime {
			out[mt] = runtime.JSONProducer()
		}
	}
	return out
}
func (a *ownAPI) AuthenticatorsFor(map[string]spec.SecurityScheme) map[string]runtime.Authenticator {
	return nil
}
func (a *ownAPI) Authorizer() runtime.Authorizer { return nil }
func (a *ownAPI) Formats() strfmt.Registry       { return strfmt.Default }
func (a *ownAPI) DefaultProduces() string        { return runtime.JSONMime }
func (a *ownAPI) DefaultConsumes() string        { return runtime.JSONMime }

// direct calls the exported lookup methods themselves, after the handler chain has answered the
// same request, and compares: Context.LookupRoute / RouteInfo / AllowedMethods and (when the
// router was built by the harness) Router.Lookup / OtherMethods must tell what the chain did.
func (b *built) direct(req *http.Request, o observed) (class, what string) {
	if b.ctx == nil || o.Panic != "" || b.noSpy {
		return "", ""
	}
	defer func() {
		if e := recover(); e != nil {
			class, what = "panic/direct-call", fmt.Sprint(e)
		}
	}()
	type look struct {
		name   string
		found  bool
		pat    string
		params middleware.RouteParams
	}
	var looks []look
	mr, ok := b.ctx.LookupRoute(req)
	l := look{name: "Context.LookupRoute", found: ok && mr != nil}
	if l.found {
		l.pat, l.params = mr.PathPattern, mr.Params
	}
	looks = append(looks, l)
	mr2, r2, ok2 := b.ctx.RouteInfo(req)
	l = look{name: "Context.RouteInfo", found: ok2 && mr2 != nil}
	if l.found {
		l.pat, l.params = mr2.PathPattern, mr2.Params
		if from := middleware.MatchedRouteFrom(r2); from != mr2 {
			return "direct-call-differs/context-routeinfo", "RouteInfo returned a request that does not carry the matched route"
		}
	}
	looks = append(looks, l)
	if b.router != nil {
		mr3, ok3 := b.router.Lookup(req.Method, req.URL.EscapedPath())
		l = look{name: "Router.Lookup", found: ok3 && mr3 != nil}
		if l.found {
			l.pat, l.params = mr3.PathPattern, mr3.Params
		}
		looks = append(looks, l)
	}
	for _, l := range looks {
		if l.found != o.HasMR {
			return "direct-call-differs/" + strings.ToLower(strings.ReplaceAll(l.name, ".", "-")), fmt.Sprintf("%s found=%v, the handler chain: %s", l.name, l.found, o)
		}
		if !l.found {
			continue
		}
		same := l.pat == o.MRPattern && len(l.params) == len(o.MRParams)
		for i := 0; same && i < len(l.params); i++ {
			same = l.params[i].Name == o.MRParams[i][0] && l.params[i].Value == o.MRParams[i][1]
		}
		if !same {
			return "direct-call-differs/" + strings.ToLower(strings.ReplaceAll(l.name, ".", "-")), fmt.Sprintf("%s gives %q %v, the handler chain: %s", l.name, l.pat, l.params, o)
		}
	}
	if !o.HasMR {
		sets := map[string][]string{"Context.AllowedMethods": b.ctx.AllowedMethods(req)}
		if b.router != nil {
			sets["Router.OtherMethods"] = b.router.OtherMethods(req.Method, req.URL.EscapedPath())
		}
		for name, ms := range sets {
			got := append([]string(nil), ms...)
			sort.Strings(got)
			if !sameSet(got, o.Allow) || (len(got) > 0) != (o.Status == 405) {
				return "direct-call-differs/" + strings.ToLower(strings.ReplaceAll(name, ".", "-")), fmt.Sprintf("%s gives %v, the handler chain: %s", name, got, o)
			}
		}
	}
	return "", ""
}

// discardLogger swallows the debug output of the library.
type discardLogger struct{}

func (discardLogger) Printf(string, ...interface{}) {}
func (discardLogger) Debugf(string, ...interface{}) {}

// silence sends every log sink the middleware may write to (its package logger, the standard
// logger) to nowhere; called once at start, independent of the DEBUG / SWAGGER_DEBUG variables.
func silence() {
	middleware.Logger = discardLogger{}
	log.SetOutput(io.Discard)
}

// setDebug switches the library's debug mode (package variable middleware.Debug). It is only
// called while no worker is serving requests.
func setDebug(on bool) { middleware.Debug = on }

var okBody = map[string]string{"ok": "1"}

// recorder is a minimal http.ResponseWriter (status, headers; body discarded).
type recorder struct {
	h      http.Header
	status int
}

func (r *recorder) Header() http.Header { return r.h }
func (r *recorder) WriteHeader(c int) {
	if r.status == 0 {
		r.status = c
	}
}
func (r *recorder) Write(b []byte) (int, error) {
	if r.status == 0 {
		r.status = 200
	}
	return len(b), nil
}

func rawRequest(method, target string) string {
	return method + " " + target + " HTTP/1.1\r\nHost: verif.test\r\n\r\n"
}

// parse builds the request exactly as net/http's server would from the wire text.
func parse(raw string) (*http.Request, error) {
	return http.ReadRequest(bufio.NewReaderSize(strings.NewReader(raw), 512))
}

// wire is a reusable connection-side reader (one per worker): net/http's server also reads
// every request of a connection through one bufio.Reader.
type wire struct{ br *bufio.Reader }

func newWire() *wire { return &wire{br: bufio.NewReaderSize(strings.NewReader(""), 512)} }

func (w *wire) parse(raw string) (*http.Request, error) {
	w.br.Reset(strings.NewReader(raw))
	return http.ReadRequest(w.br)
}

// serve runs one request through the real handler chain and returns what was observed.
func (b *built) serve(req *http.Request) (o observed) {
	*b.obs = observed{}
	rec := &recorder{h: http.Header{}}
	func() {
		defer func() {
			if e := recover(); e != nil {
				b.obs.Panic = fmt.Sprint(e)
			}
		}()
		b.handler.ServeHTTP(rec, req)
	}()
	o = *b.obs
	o.NoSpy = b.noSpy
	o.Status = rec.status
	if o.Status == 0 && o.Panic == "" {
		o.Status = 200
	}
	if vs := rec.h.Values("Allow"); len(vs) > 0 {
		set := map[string]bool{}
		for _, v := range vs {
			for _, t := range strings.Split(v, ",") {
				if t = strings.TrimSpace(t); t != "" {
					set[t] = true
				}
			}
		}
		for t := range set {
			o.Allow = append(o.Allow, t)
		}
		sort.Strings(o.Allow)
	}
	return o
}

// check executes one case from scratch (used by replay and to confirm every failure).
func check(c Case) (class, what string) {
	req, err := parse(rawRequest(c.Method, c.Target))
	if err != nil {
		return "", "request line not deliverable by net/http: " + err.Error()
	}
	// Operations of one method whose routed shapes coincide are wired by the library in Go map
	// order (which one wins is decided when the API is built): the case is re-wired up to 8
	// times and the first failing observation is the verdict.
	if c.Debug {
		setDebug(true)
		defer setDebug(false)
	}
	for attempt := 1; attempt <= 8; attempt++ {
		b, err := build(c.Desc, c.Via)
		if err != nil {
			return "", "description does not load: " + err.Error()
		}
		for _, q := range c.Before {
			if rq, err := parse(rawRequest(q.Method, q.Target)); err == nil {
				b.serve(rq)
			}
		}
		req, _ = parse(rawRequest(c.Method, c.Target))
		o := b.serve(req)
		class, what, _ = judgeIn(c.Debug, b.routes, req.Method, req.URL.EscapedPath(), o)
		class = viaSuffix(class, c.Via)
		if class == "" {
			rq, _ := parse(rawRequest(c.Method, c.Target))
			class, what = b.direct(rq, o)
		}
		if class != "" && len(c.Before) > 0 {
			// does it need the history? the same request on a fresh instance decides the class suffix
			fresh, _ := build(c.Desc, c.Via)
			rq, _ := parse(rawRequest(c.Method, c.Target))
			if fc, _, _ := judgeIn(c.Debug, fresh.routes, rq.Method, rq.URL.EscapedPath(), fresh.serve(rq)); fc == "" {
				class, what = afterHistory(class, what, len(c.Before))
			}
		}
		if class != "" {
			return class, what
		}
		what = "observed: " + o.String()
	}
	return class, what
}
