// C01 - spec-driven dispatch: path + method select exactly the designated
// operation. Small-scope exhaustive enumeration (E1): every API description of a
// stated family x every request of a stated family, each executed on the real
// middleware chain (Context.RoutesHandler / Context.APIHandler over an in-memory
// Swagger document with untyped per-operation handlers) and compared with the
// reference dispatcher of ref.go.
package main

import (
	"fmt"
	"strings"
	"sync"
	"time"

	"verif/engine/enum"
	"verif/engine/report"
)

type reqT struct{ method, target string }

// ---- request families ----

// seqTargets: prefix + "/" + s1 + "/" + s2 ... for every sequence of 0..maxLen symbols, each with the given suffixes.
func seqTargets(prefix string, alpha []string, maxLen int, suffixes []string) []string {
	var out []string
	var rec func(cur string, depth int)
	rec = func(cur string, depth int) {
		for _, sfx := range suffixes {
			t := cur + sfx
			if t == "" {
				continue // an empty request-target is not a request line
			}
			out = append(out, t)
		}
		if depth == maxLen {
			return
		}
		for _, a := range alpha {
			rec(cur+"/"+a, depth+1)
		}
	}
	rec(prefix, 0)
	return out
}

// prefixes under which the request paths are sent for a base path: the base path
// itself, a noisy spelling of it, no base path, a wrong last segment.
func basePrefixes(base string) (right []string, wrong []string) {
	segs := splitSegs(base)
	if len(segs) == 0 {
		return []string{"", "/x/.."}, []string{"/zz"}
	}
	p := "/" + strings.Join(segs, "/")
	noisy := "/." + strings.Repeat("/", 2) + strings.Join(segs, "/./")
	w := "/" + strings.Join(append(append([]string{}, segs[:len(segs)-1]...), "zz"), "/")
	wrong = []string{"", w}
	if len(segs) > 1 {
		wrong = append(wrong, "/"+segs[0]) // a proper prefix of the base path
	}
	return []string{p, noisy}, wrong
}

func dedupe(in []reqT) []reqT {
	seen := make(map[reqT]bool, len(in))
	out := in[:0:0]
	for _, r := range in {
		if !seen[r] {
			seen[r] = true
			out = append(out, r)
		}
	}
	return out
}

type family struct {
	long      []string // symbols for the long sequences
	longLen   int
	full      []string // full symbol alphabet
	fullLen   int
	methods   []string // methods crossed with the method part
	mAlpha    []string // symbols of the method part
	mLen      int
	suffixes  []string // trailing decorations of the method part
	wrongLen  int      // sequence length under wrong / absent base path
	specials  []reqT   // targets that are not origin-form paths
	longMeths []string // methods of the long part
}

func (f family) requests(base string) []reqT {
	right, wrong := basePrefixes(base)
	var out []reqT
	add := func(ms []string, ts []string) {
		for _, t := range ts {
			for _, m := range ms {
				out = append(out, reqT{m, t})
			}
		}
	}
	add(f.longMeths, seqTargets(right[0], f.long, f.longLen, []string{""}))
	add(f.longMeths, seqTargets(right[0], f.full, f.fullLen, []string{""}))
	add(f.methods, seqTargets(right[0], f.mAlpha, f.mLen, f.suffixes))
	for _, p := range right[1:] {
		add(f.longMeths, seqTargets(p, f.long, f.wrongLen, []string{"", "/"}))
	}
	for _, p := range wrong {
		add(f.methods[:2], seqTargets(p, f.long, f.wrongLen, []string{""}))
	}
	out = append(out, f.specials...)
	return dedupe(out)
}

// ---- description families ----

func descsFromSets(universe []string, minK, maxK int, bases []Desc, methodsFor func(k int) [][][]string) []Desc {
	var out []Desc
	for _, set := range enum.Subsets(len(universe), minK, maxK) {
		for _, assign := range methodsFor(len(set)) {
			var ops []OpC
			for i, ti := range set {
				for _, m := range assign[i] {
					ops = append(ops, OpC{Method: m, Template: universe[ti]})
				}
			}
			for _, b := range bases {
				out = append(out, Desc{Base: b.Base, NoBase: b.NoBase, Ops: ops})
			}
		}
	}
	return out
}

// every assignment of one of the given method sets to each of k templates
func assignments(sets [][]string) func(k int) [][][]string {
	return func(k int) [][][]string {
		var out [][][]string
		sizes := make([]int, k)
		for i := range sizes {
			sizes[i] = len(sets)
		}
		enum.Product(sizes, func(idx []int) {
			a := make([][]string, k)
			for i, j := range idx {
				a[i] = sets[j]
			}
			out = append(out, a)
		})
		return out
	}
}

func nonEmptySubsets(ms []string) [][]string {
	var out [][]string
	for _, s := range enum.Subsets(len(ms), 1, len(ms)) {
		var x []string
		for _, i := range s {
			x = append(x, ms[i])
		}
		out = append(out, x)
	}
	return out
}

// nameTemplates substitutes every ordered selection of distinct names for the slots X, Y, Z of each shape.
func nameTemplates(shapes []string, names []string) []string {
	var out []string
	for _, sh := range shapes {
		k := 0
		for _, slot := range []string{"{X}", "{Y}", "{Z}"} {
			if strings.Contains(sh, slot) {
				k++
			}
		}
		var rec func(cur []int)
		rec = func(cur []int) {
			if len(cur) == k {
				t := sh
				for i, slot := range []string{"{X}", "{Y}", "{Z}"}[:k] {
					t = strings.Replace(t, slot, "{"+names[cur[i]]+"}", 1)
				}
				out = append(out, t)
				return
			}
		next:
			for i := range names {
				for _, j := range cur {
					if i == j {
						continue next
					}
				}
				rec(append(cur, i))
			}
		}
		rec(nil)
	}
	return out
}

// nameDescs: one description per template (GET), under each base path; withSibling adds, for the
// two-slot whole-segment shape, a second operation whose names are swapped at the same positions.
func nameDescs(templates []string, bs []Desc) []Desc {
	var out []Desc
	for _, t := range templates {
		for _, b := range bs {
			out = append(out, Desc{Base: b.Base, NoBase: b.NoBase, Ops: []OpC{{Method: "GET", Template: t}}})
		}
	}
	return out
}

func swappedSiblingDescs(names []string, bs []Desc) []Desc {
	var out []Desc
	for i, x := range names {
		for j, y := range names {
			if i == j {
				continue
			}
			for _, b := range bs {
				out = append(out, Desc{Base: b.Base, NoBase: b.NoBase, Ops: []OpC{
					{Method: "GET", Template: "/s/{" + x + "}/{" + y + "}"},
					{Method: "GET", Template: "/s/{" + y + "}/{" + x + "}/t"},
					{Method: "POST", Template: "/s/{" + y + "}/{" + x + "}"},
				}})
			}
		}
	}
	return out
}

type sweep struct {
	name  string
	via   string
	descs []Desc
	fam   family
}

// the sweep of this name runs with middleware.Debug = true; every request is served several times
const debugSweep = "debug-logging-on"

func bases(bs ...string) []Desc {
	var out []Desc
	for _, b := range bs {
		if b == "<none>" {
			out = append(out, Desc{NoBase: true})
		} else {
			out = append(out, Desc{Base: b})
		}
	}
	return out
}

func main() {
	r := report.Start("C01", "exploration")
	silence()
	started := time.Now()
	// quick has 60 s of wall time including the build on a shared machine: stop enumerating at 42 s (thorough: 10 min, stop at 8.5 min)
	// (the run is then reported exhaustive:false, never as a failure)
	ownCut := false
	var cutMu sync.Mutex
	stop := func() bool {
		if r.OutOfTime() {
			return true
		}
		if (!r.Thorough() && time.Since(started) > 42*time.Second) || time.Since(started) > 510*time.Second {
			cutMu.Lock()
			ownCut = true
			cutMu.Unlock()
			return true
		}
		return false
	}
	if r.Replay != "" {
		var c Case
		r.LoadReplay(&c)
		cl, what := check(c)
		fmt.Printf("replay %s %s via %s on base=%q ops=%v\n  class=%q\n  %s\n", c.Method, c.Target, c.Via, c.Base, c.Ops, cl, what)
		if cl != "" {
			r.Fail(cl, what, c)
		}
		r.Eval(1)
		r.Nontrivial(2)
		r.Sample(c)
		r.Finish("replay of one case", false)
	}

	universe := []string{"/", "/a", "/b", "/a/b", "/a/{p}", "/{p}", "/{p}/b", "/a/{p}/c", "/a/{p}/{q}", "/{p}/{q}",
		"/a/b/c", "/a/", "/a/{p}.{q}", "/a/{p}/b/{q}", "/{q}/c", "/a/{p}/", "/b/{pet-id}"}
	// templates with placeholders that are only part of a segment, and their neighbours
	compU := []string{"/a/{p}.{q}", "/a/{p}.json", "/a/x{p}", "/a/{p}", "/a/b", "/{p}/b", "/a/{p}/c", "/a/{p}.{q}/c"}
	compAlpha := []string{"a", "b", "c", "x", "x.y", "x.json", "xfoo", ".json", "x.", ".y", "x.y.z", "x%2Ey", "x.y.json", "xa.b", "%2F.%2F", "é.json"}
	small := []string{"/", "/a", "/a/{p}", "/{p}", "/{p}/b", "/a/", "/a/{p}.{q}", "/a/b"}
	fullAlpha := []string{"a", "b", "c", "x", ":", ":x", "*", "=", ";v=1", "%2F", "%25", "a%2Fb", "%3A", "é", ".", "..", "",
		"x.y", ".y", "%2E%2E", "%2e", "+", "a+b", "%20", "%23", "#", "a=b", "A", "%252F"}
	longAlpha := []string{"a", "b", "c", "x", ":", "%2F", "..", "", "x.y", "é", "%25", "*", "=", ";v=1", "."}
	specials := []reqT{{"OPTIONS", "*"}, {"GET", "http://verif.test"}, {"GET", "http://verif.test/a"}, {"GET", "http://verif.test/a/x%2Fy?q=/b"},
		{"GET", "/a?x=/b"}, {"GET", "/a/x?"}, {"GET", "/?/a"}, {"POST", "/a/b?/c"}}
	allMethods := []string{"GET", "get", "POST", "Post", "DELETE", "PUT", "HEAD", "OPTIONS", "PATCH", "gEt", "FOO"}

	// placeholder-name dimension: the same template shapes under every ordered selection of names that are
	// prefixes / suffixes / substrings of each other, differ in case only, equal a literal segment, or
	// contain '-', '_', '.', digits
	names := []string{"id", "idType", "Type", "a", "ab", "abc", "b", "pet-id", "pet_id", "pet.id", "id2", "ID", "s", "p", "pq"}
	nameShapes2 := []string{"/s/{X}/{Y}", "/{X}/s/{Y}", "/s/{X}.{Y}"}
	nameShapes3 := []string{"/s/{X}/{Y}/{Z}", "/s/{X}/{Y}.{Z}", "/s/{X}.{Y}/{Z}"}
	nameTriples := [][]string{{"a", "ab", "abc", "b"}, {"id", "idType", "Type"}, {"p", "pq", "pet-id"}}
	nameFam := family{long: []string{"s", "t", "v", "w", "x.y", "%2F"}, longLen: 4, full: []string{"s"}, fullLen: 1, methods: []string{"GET", "POST", "get", "HEAD"},
		mAlpha: []string{"s", "v", "x.y"}, mLen: 3, suffixes: []string{"", "/"}, wrongLen: 1, longMeths: []string{"GET"}}

	// every Swagger verb on every template of the universe: each verb alone, and all seven together
	verbs := []string{"GET", "PUT", "POST", "DELETE", "OPTIONS", "HEAD", "PATCH"}
	var verbDescs []Desc
	for _, t := range universe {
		var all []OpC
		for _, v := range verbs {
			verbDescs = append(verbDescs, Desc{Base: "", Ops: []OpC{{Method: v, Template: t}}})
			all = append(all, OpC{Method: v, Template: t})
		}
		verbDescs = append(verbDescs, Desc{Base: "/api", Ops: all})
	}
	verbFam := family{long: []string{"a", "b", "c", "x", "x.y"}, longLen: 3, full: fullAlpha, fullLen: 1, methods: allMethods,
		mAlpha: []string{"a", "b", "c", "x"}, mLen: 2, suffixes: []string{"", "/"}, wrongLen: 1, specials: specials, longMeths: []string{"GET", "OPTIONS"}}

	var sweeps []sweep
	if r.Thorough() {
		famA := family{long: longAlpha[:12], longLen: 3, full: fullAlpha, fullLen: 2, methods: []string{"GET", "POST", "get", "HEAD"},
			mAlpha: []string{"a", "b", "c", "x", "x.y", "%2F"}, mLen: 2, suffixes: []string{"", "/", "//", "/.", "?q=/a"}, wrongLen: 2, specials: specials, longMeths: []string{"GET"}}
		famB := family{long: []string{"a", "b", "x", ":", "x.y"}, longLen: 2, full: fullAlpha, fullLen: 1, methods: allMethods,
			mAlpha: []string{"a", "b", "x", "x.y", "%2F", ""}, mLen: 2, suffixes: []string{"", "/", "//"}, wrongLen: 1, specials: specials, longMeths: []string{"GET", "POST"}}
		sweeps = []sweep{
			{"shapes", "routes", descsFromSets(universe, 1, 2, bases("", "/", "/api", "/api/", "/v1/api", "<none>", "/a"),
				assignments([][]string{{"GET"}})), famA},
			{"shapes-triples", "routes", descsFromSets(universe, 3, 3, bases("", "/api", "/v1/api/"),
				assignments([][]string{{"GET"}})), famA},
			{"methods", "api", descsFromSets(small, 1, 2, bases("", "/v1/api/"),
				assignments(nonEmptySubsets([]string{"GET", "POST", "DELETE"}))), famB},
			{"all-verbs", "api", descsFromSets([]string{"/a", "/a/{p}", "/"}, 1, 2, bases("", "/api"),
				assignments([][]string{{"GET"}, {"PUT", "HEAD"}, {"OPTIONS", "PATCH", "DELETE"}, {"GET", "PUT", "POST", "DELETE", "OPTIONS", "HEAD", "PATCH"}})), famB},
			{"partial-segment-placeholders", "routes", descsFromSets(compU, 1, 3, bases("", "/api"), assignments([][]string{{"GET"}})),
				family{long: compAlpha, longLen: 3, full: compAlpha, fullLen: 1, methods: []string{"GET", "POST", "get", "HEAD"},
					mAlpha: compAlpha, mLen: 2, suffixes: []string{"", "/"}, wrongLen: 1, longMeths: []string{"GET"}}},
		}
		var nt []string
		nt = append(nt, nameTemplates(nameShapes2, names)...)
		for _, tr := range nameTriples {
			nt = append(nt, nameTemplates(nameShapes3, tr)...)
		}
		nd := nameDescs(nt, bases(""))
		nd = append(nd, nameDescs(nameTemplates(nameShapes2[:1], names), bases("/api"))...)
		nd = append(nd, swappedSiblingDescs(names, bases(""))...)
		sweeps = append(sweeps, sweep{"placeholder-names", "routes", nd, nameFam})
		sweeps = append(sweeps, sweep{"every-verb-every-template", "routes", verbDescs, verbFam})
	} else {
		famA := family{long: longAlpha[:10], longLen: 3, full: fullAlpha, fullLen: 2, methods: []string{"GET", "POST", "get", "HEAD"},
			mAlpha: []string{"a", "b", "x", "x.y"}, mLen: 2, suffixes: []string{"", "/", "//", "/.", "?q=/a"}, wrongLen: 1, specials: specials, longMeths: []string{"GET"}}
		famB := family{long: []string{"a", "b", "x", ":", "x.y"}, longLen: 2, full: fullAlpha, fullLen: 1, methods: allMethods,
			mAlpha: []string{"a", "b", "x", "x.y"}, mLen: 2, suffixes: []string{"", "/"}, wrongLen: 1, specials: specials, longMeths: []string{"GET", "POST"}}
		sweeps = []sweep{
			{"shapes", "routes", descsFromSets(universe, 1, 2, bases("", "/v1/api/"),
				assignments([][]string{{"GET"}})), famA},
			{"methods", "api", descsFromSets([]string{"/", "/a", "/a/{p}", "/{p}", "/a/"}, 1, 2, bases("/api"),
				assignments([][]string{{"GET"}, {"POST"}, {"GET", "POST"}, {"DELETE", "GET"}})), famB},
			{"partial-segment-placeholders", "routes", descsFromSets(compU, 1, 2, bases("", "/api"), assignments([][]string{{"GET"}})),
				family{long: compAlpha, longLen: 2, full: compAlpha, fullLen: 1, methods: []string{"GET", "POST", "get", "HEAD"},
					mAlpha: compAlpha[:8], mLen: 2, suffixes: []string{"", "/"}, wrongLen: 1, longMeths: []string{"GET"}}},
		}
		qnames := []string{"id", "idType", "Type", "a", "ab", "pet_id", "ID", "s"}
		nt := nameTemplates(nameShapes2, qnames)
		nt = append(nt, nameTemplates(nameShapes3[:1], []string{"a", "ab", "abc"})...)
		nd := nameDescs(nt, bases(""))
		nd = append(nd, swappedSiblingDescs(qnames[:5], bases("/api"))...)
		qf := nameFam
		qf.long = []string{"s", "t", "v", "x.y", "%2F"}
		qf.mLen = 2
		sweeps = append(sweeps, sweep{"placeholder-names", "routes", nd, qf})
		sweeps = append(sweeps, sweep{"every-verb-every-template", "routes", verbDescs, verbFam})
	}
	// configuration dimension "debug logging on": the method-centred descriptions again, with
	// middleware.Debug = true, judged against the SAME expectations
	var dbg []Desc
	for _, sw := range sweeps {
		if sw.name == "every-verb-every-template" || sw.name == "all-verbs" || (sw.name == "methods" && !r.Thorough()) {
			dbg = append(dbg, sw.descs...)
		}
	}
	if r.Thorough() {
		dbg = append(dbg, descsFromSets([]string{"/", "/a", "/a/{p}", "/{p}", "/a/"}, 1, 2, bases("/api"),
			assignments([][]string{{"GET"}, {"POST"}, {"GET", "POST"}, {"DELETE", "GET"}}))...)
	}
	sweeps = append(sweeps, sweep{debugSweep, "routes", dbg, verbFam})
	debugRepeat := 2
	if r.Thorough() {
		debugRepeat = 3
	}
	r.Set("debug_mode_repeats_per_request", debugRepeat)
	r.Set("template_universe", universe)
	r.Set("template_universe_methods_sweep", small)
	r.Set("segment_alphabet", fullAlpha)
	r.Set("segment_alphabet_long_sequences", sweeps[0].fam.long)
	r.Set("request_methods", allMethods)
	r.Set("template_universe_partial_segment_sweep", compU)
	r.Set("segment_alphabet_partial_segment_sweep", compAlpha)
	r.Set("spec_verbs_every_verb_sweep", verbs)
	r.Set("placeholder_names", names)
	r.Set("placeholder_name_shapes", append(append([]string{}, nameShapes2...), nameShapes3...))
	r.Set("placeholder_name_triples", nameTriples)
	r.Set("segment_alphabet_placeholder_names_sweep", nameFam.long)

	var mu sync.Mutex
	totals := map[string]int64{}
	var notDeliverable int64
	for _, sw := range sweeps {
		sw := sw
		// request lists per base path (shared, read-only); targets net/http refuses are dropped here and counted
		reqCache := map[string][]reqT{}
		for _, d := range sw.descs {
			if _, ok := reqCache[d.Base]; ok {
				continue
			}
			var keep []reqT
			for _, q := range sw.fam.requests(d.Base) {
				if _, err := parse(rawRequest(q.method, q.target)); err != nil {
					notDeliverable++
					continue
				}
				keep = append(keep, q)
			}
			reqCache[d.Base] = keep
		}
		nreq := 0
		for _, v := range reqCache {
			if len(v) > nreq {
				nreq = len(v)
			}
		}
		r.Set("sweep_"+sw.name, map[string]any{"descriptions": len(sw.descs), "requests_per_description_max": nreq, "entry_point": sw.via})
		n := len(sw.descs)
		stride := n/2 + 1
		sweepSamples := map[int][]any{}
		rot := int(r.Seed%int64(n)+int64(n)) % n
		repeat := 1
		inDebug := sw.name == debugSweep
		if inDebug {
			repeat = debugRepeat
			setDebug(true) // no worker is running between sweeps
		}
		enum.Parallel(n, stop, func(k int) {
			d := sw.descs[(k+rot)%n]
			b, err := build(d, sw.via)
			if err != nil {
				r.Fail("description-rejected", err.Error(), Case{Desc: d, Via: sw.via, Debug: inDebug, Method: "GET", Target: "/"})
				return
			}
			w := newWire()
			var evals, nontrivial int64
			sampled := false
			var samples []any
			out := map[string]int64{}
			for qi, q := range reqCache[d.Base] {
				req, err := w.parse(rawRequest(q.method, q.target))
				if err != nil {
					continue
				}
				esc := req.URL.EscapedPath()
				o := b.serve(req)
				evals++
				class, what, determined := judgeIn(inDebug, b.routes, req.Method, esc, o)
				// with debug logging on the library ranges over its per-method map once more per lookup
				// (Go randomises the order per range): the same request is served again
				for rep := 1; rep < repeat && class == ""; rep++ {
					req, _ = w.parse(rawRequest(q.method, q.target))
					o = b.serve(req)
					evals++
					class, what, determined = judgeIn(inDebug, b.routes, req.Method, esc, o)
				}
				if class != "" {
					r.Fail(class, what, Case{Desc: d, Via: sw.via, Debug: inDebug, Method: q.method, Target: q.target})
				}
				switch {
				case o.Panic != "":
					out["panic"]++
				case len(o.Runs) > 0:
					out[fmt.Sprintf("dispatched-%dparams", len(o.Runs[0].Params))]++
				default:
					out[fmt.Sprintf("refused-%d", o.Status)]++
				}
				if !determined {
					out["oracle-undetermined(MAY)"]++
				}
				if len(o.Runs) > 0 || o.Status == 405 || class != "" {
					nontrivial++
				}
				if k%stride == stride/2 && !sampled && (len(o.Runs) > 0 || o.Status == 405) && qi >= (k*131+int(r.Seed%997+997))%len(reqCache[d.Base])/2 {
					sampled = true
					samples = append(samples, map[string]any{"case": Case{Desc: d, Via: sw.via, Debug: inDebug, Method: q.method, Target: q.target}, "observed": o.String()})
				}
			}
			r.Eval(evals)
			r.Nontrivial(nontrivial)
			mu.Lock()
			for k, v := range out {
				totals[k] += v
			}
			sweepSamples[k] = samples
			mu.Unlock()
		})
		setDebug(false)
		for k := 0; k < n; k++ {
			for _, v := range sweepSamples[k] {
				r.Sample(v)
			}
		}
	}
	// ---- the exported surface: every entry point x a representative description / request family ----
	// Same reference for every entry point; after the handler chain has answered, the exported lookup
	// methods (Context.LookupRoute / RouteInfo / AllowedMethods, Router.Lookup / OtherMethods) are
	// called with the same request and must tell what the chain did.
	{
		surfU := []string{"/", "/a", "/a/{p}", "/{p}/b", "/a/{p}/{q}", "/{q}/c", "/a/", "/b/{pet-id}"}
		var specs [][]OpC
		for _, set := range enum.Subsets(len(surfU), 1, 2) {
			var ops []OpC
			for _, ti := range set {
				ops = append(ops, OpC{Method: "GET", Template: surfU[ti]})
			}
			specs = append(specs, ops)
		}
		specs = append(specs,
			[]OpC{{"GET", "/a/{p}"}, {"POST", "/a/{p}"}, {"DELETE", "/{p}/b"}},
			[]OpC{{"GET", "/"}, {"POST", "/a"}},
			[]OpC{{"GET", "/a/{p}/{q}"}, {"PUT", "/a/{p}"}, {"OPTIONS", "/a/{p}"}})
		var sds []Desc
		for _, ops := range specs {
			sds = append(sds, Desc{Base: "", Ops: ops}, Desc{Base: "/api", Ops: ops})
		}
		surfFam := family{long: []string{"a", "b", "c", "x", "+", "a+b", "%252F", "%25", "%2F", "é"}, longLen: 2, full: fullAlpha, fullLen: 1,
			methods: []string{"GET", "POST", "get", "DELETE", "FOO"}, mAlpha: []string{"a", "b", "x"}, mLen: 2, suffixes: []string{"", "/"},
			wrongLen: 1, specials: specials, longMeths: []string{"GET", "POST"}}
		if r.Thorough() {
			surfFam.longLen = 3
		}
		reqs := map[string][]reqT{}
		for _, base := range []string{"", "/api"} {
			for _, q := range surfFam.requests(base) {
				if _, err := parse(rawRequest(q.method, q.target)); err == nil {
					reqs[base] = append(reqs[base], q)
				}
			}
		}
		r.Set("sweep_exported-surface", map[string]any{"descriptions": len(sds), "entry_points": surfaceVias, "requests_per_description_and_entry_point": len(reqs[""]),
			"direct_calls_compared":  []string{"Context.LookupRoute", "Context.RouteInfo", "Context.AllowedMethods", "Router.Lookup", "Router.OtherMethods"},
			"route_params_accessors": []string{"slice", "Get", "GetOK"}})
		enum.Parallel(len(sds), stop, func(k int) {
			d := sds[k]
			doc, err := d.load()
			if err != nil {
				r.Fail("description-rejected", err.Error(), Case{Desc: d, Via: "routes", Method: "GET", Target: "/"})
				return
			}
			w := newWire()
			var evals, nontrivial int64
			out := map[string]int64{}
			for _, via := range surfaceVias {
				b := wireUp(d, doc, via)
				for _, q := range reqs[d.Base] {
					req, err := w.parse(rawRequest(q.method, q.target))
					if err != nil {
						continue
					}
					o := b.serve(req)
					evals++
					class, what, _ := judge(b.routes, req.Method, req.URL.EscapedPath(), o)
					class = viaSuffix(class, via)
					if class == "" {
						req2, _ := w.parse(rawRequest(q.method, q.target))
						class, what = b.direct(req2, o)
					}
					if class != "" {
						r.Fail(class, what, Case{Desc: d, Via: via, Method: q.method, Target: q.target})
					}
					switch {
					case o.Panic != "":
						out["panic"]++
					case len(o.Runs) > 0:
						out[fmt.Sprintf("dispatched-%dparams", len(o.Runs[0].Params))]++
						nontrivial++
					default:
						out[fmt.Sprintf("refused-%d", o.Status)]++
						if o.Status == 405 {
							nontrivial++
						}
					}
				}
			}
			r.Eval(evals)
			r.Nontrivial(nontrivial)
			mu.Lock()
			for k, v := range out {
				totals[k] += v
			}
			mu.Unlock()
		})
	}

	// ---- sequences on one wired handler x operationId variants ----
	// Every request of the alphabet is served FIRST by its own fresh handler; then that handler
	// serves the whole alphabet in order. Each answer must be the one the reference demands,
	// i.e. the one the request gets alone; a failure that the request does not show alone gets
	// the class suffix /after-earlier-requests.
	{
		seqU := []string{"/a", "/b", "/a/{p}", "/{p}/b", "/"}
		seqMeths := []string{"GET", "POST"}
		if r.Thorough() {
			seqU = append(seqU, "/a/{p}/c")
			seqMeths = []string{"GET", "POST", "DELETE", "get"}
		}
		var specs [][]OpC
		for _, set := range enum.Subsets(len(seqU), 2, 3) {
			var ops []OpC
			for _, ti := range set {
				ops = append(ops, OpC{Method: "GET", Template: seqU[ti]})
			}
			specs = append(specs, ops)
		}
		specs = append(specs,
			[]OpC{{"GET", "/a"}, {"POST", "/a"}},
			[]OpC{{"GET", "/a/{p}"}, {"DELETE", "/a/{p}"}, {"GET", "/b"}},
			[]OpC{{"GET", "/"}, {"POST", "/"}, {"GET", "/a"}},
			[]OpC{{"GET", "/a"}, {"POST", "/a"}, {"GET", "/a/{p}"}, {"POST", "/a/{p}"}})
		idModes := []string{"none", "dup", "mix", ""}
		type seqDesc struct {
			d   Desc
			via string
		}
		var sds []seqDesc
		for _, ops := range specs {
			for _, ids := range idModes {
				sds = append(sds, seqDesc{Desc{Base: "", Ops: ops, IDs: ids}, "routes"}, seqDesc{Desc{Base: "/api", Ops: ops, IDs: ids}, "api"})
			}
		}
		alphabet := func(base string) []Req {
			var out []Req
			for _, p := range []string{"/a", "/b", "/a/x", "/x/b", "/", "/a/b", "/c", "/a/x/c"} {
				for _, m := range seqMeths {
					out = append(out, Req{m, base + p})
				}
			}
			return out
		}
		r.Set("sweep_sequences-on-one-handler", map[string]any{"descriptions": len(sds), "operation_id_variants": idModes, "request_alphabet": alphabet(""),
			"handlers_per_description": len(alphabet("")), "entry_points": []string{"routes (base \"\")", "api (base /api)"}})
		var rejected int64
		enum.Parallel(len(sds), stop, func(k int) {
			sd := sds[k]
			doc, err := sd.d.load()
			if err != nil {
				if sd.d.IDs == "dup" {
					mu.Lock()
					rejected++
					mu.Unlock()
					return
				}
				r.Fail("description-rejected", err.Error(), Case{Desc: sd.d, Via: sd.via, Method: "GET", Target: "/"})
				return
			}
			S := alphabet(sd.d.Base)
			w := newWire()
			var evals, nontrivial int64
			out := map[string]int64{}
			insts := make([]*built, len(S))
			fresh := make([]string, len(S))
			serve := func(b *built, q Req, before []Req, alone string, judged bool) string {
				req, err := w.parse(rawRequest(q.Method, q.Target))
				if err != nil {
					return ""
				}
				o := b.serve(req)
				evals++
				class, what, _ := judge(b.routes, req.Method, req.URL.EscapedPath(), o)
				if class != "" && judged && alone == "" {
					class, what = afterHistory(class, what, len(before))
				}
				if class != "" {
					r.Fail(class, what, Case{Desc: sd.d, Via: sd.via, Before: append([]Req(nil), before...), Method: q.Method, Target: q.Target})
				}
				switch {
				case o.Panic != "":
					out["panic"]++
				case len(o.Runs) > 0:
					out[fmt.Sprintf("dispatched-%dparams", len(o.Runs[0].Params))]++
					nontrivial++
				default:
					out[fmt.Sprintf("refused-%d", o.Status)]++
					if o.Status == 405 {
						nontrivial++
					}
				}
				return class
			}
			for i, q := range S {
				insts[i] = wireUp(sd.d, doc, sd.via)
				fresh[i] = serve(insts[i], q, nil, "", false)
			}
			for i := range S {
				before := []Req{S[i]}
				for j, q := range S {
					serve(insts[i], q, before, fresh[j], true)
					before = append(before, q)
				}
			}
			r.Eval(evals)
			r.Nontrivial(nontrivial)
			mu.Lock()
			for k, v := range out {
				totals[k] += v
			}
			mu.Unlock()
		})
		r.Set("descriptions_with_duplicate_operation_ids_rejected_by_loader", rejected)
	}
	for k, v := range totals {
		r.Outcome(k, v)
	}
	r.Set("request_lines_refused_by_net_http", notDeliverable)
	r.Assume(
		"reference dispatcher (props/c01/ref.go) is the definition of 'instantiated', 'preferred' and of the 404/405 rule",
		"net/http's request parsing (http.ReadRequest, URL.EscapedPath) and net/url.PathUnescape are trusted",
		"descriptions in which two operations of one method have the same shape are wired by the library in Go map order; one order is explored per run",
	)
	r.Finish("every description of the stated families (template sets x method assignment x base path; template shapes x every ordered selection of distinct placeholder names from the stated name alphabet) x every request line of the family for its base path (symbol sequences up to the stated length x methods x trailing decorations x right/noisy/absent/wrong base prefix); one evaluation = one request served by the real handler chain and compared with the reference dispatcher; non-trivial = a handler ran, or the answer was 405, or the oracle failed (distinct by construction: descriptions are distinct sets, request lines are de-duplicated per description; the sweep debug-logging-on repeats the method-centred descriptions with middleware.Debug = true against the same expectations and serves each request the stated number of times, each serving being one evaluation; the sweep sequences-on-one-handler serves, for every description x operationId variant, every request of its alphabet first on a fresh handler and then the whole alphabet in order on that same handler, each serving being one evaluation judged by the same reference; the sweep exported-surface serves a representative description x request family through every exported entry point, reads the matched route through every RouteParams accessor, and compares the exported lookup methods called directly with what the handler chain did)", !ownCut)
}
