package main

// The harness: an in-memory API built on the real untyped.API / middleware.Context,
// recording doubles (producers that tag their output with their identity, an error
// responder, a Responder, a ResponseWriter that records what the handler chain does
// to it) and the two ways a request is driven through the real code.

import (
	"bufio"
	"bytes"
	stdctx "context"
	"encoding/json"
	stderrors "errors"
	"fmt"
	"io"
	"net/http"
	"sort"
	"strings"

	"github.com/go-openapi/errors"
	"github.com/go-openapi/loads"
	"github.com/go-openapi/runtime"
	"github.com/go-openapi/runtime/middleware"
	"github.com/go-openapi/runtime/middleware/untyped"
	"github.com/go-openapi/runtime/security"
	"github.com/go-openapi/spec"
	"github.com/go-openapi/strfmt"

	"verif/engine/apib"
)

const (
	mtJSON  = "application/json"
	mtText  = "text/plain"
	mtXML   = "application/xml"
	mtUnreg = "application/x-unreg" // never has a registered producer
)

// ---- configuration (everything an environment is built from) ----

// Auth describes the basic-auth protection of the operations of an environment.
type Auth struct {
	Ctor  string `json:"ctor"`  // BasicAuth | BasicAuthRealm | BasicAuthCtx | BasicAuthRealmCtx
	Realm string `json:"realm"` // argument of the *Realm* constructors ("" = library default)
	Creds string `json:"creds"` // none | wrong | malformed | other-scheme | right | right-nil-principal
	// several security alternatives (OR), each one scheme: Alts lists the schemes in the
	// declared order (basic | key1 | key2), States says per alternative what the request
	// carries for it: absent (does not apply) | fail (the authenticator returns its own
	// coded error) | ok. Creds is unused then.
	Alts   []string `json:"alts,omitempty"`
	States []string `json:"states,omitempty"`
}

// Config is the part of a Case an environment is built from.
type Config struct {
	Mode      string     // json | text | none | json-unreg (see modeOf)
	Produces  []string   // declared produces list
	Where     string     // "op": on every operation; "global": only at the top of the description
	Responses [][]string // declared response sets, one path /r<i> each
	AuthCtor  string     // "" = operations are not secured
	AuthRealm string
	AuthAlts  []string // several alternatives (see Auth.Alts); empty: the single alternative {basic}
	Methods   []string // methods every /r<i> path declares (default opMethods)
	Extra     []string // further media types with a registered (recording) producer
	NoDocs    bool     // serve through Context.RoutesHandler (no spec / docs middlewares in front)
	Hostile   string   // "" | before-context | after-context (see Case.Hostile)
}

type modeInfo struct {
	defaultType string   // api.DefaultProduces
	registered  []string // media types with a registered (recording) producer
}

// modeOf: the four ways the API default producer is set up.
//
//	json        DefaultProduces=application/json (library default), producers for json, text/plain, xml
//	text        DefaultProduces=text/plain (exported field set by the application), same producers
//	none        WithoutJSONDefaults(): no default type, no json producer; text/plain and xml registered
//	json-unreg  DefaultProduces=application/json but no producer registered under it
func modeOf(m string) modeInfo {
	switch m {
	case "json":
		return modeInfo{mtJSON, []string{mtJSON, mtText, mtXML}}
	case "text":
		return modeInfo{mtText, []string{mtJSON, mtText, mtXML}}
	case "none":
		return modeInfo{"", []string{mtText, mtXML}}
	case "json-unreg":
		return modeInfo{mtJSON, []string{mtText, mtXML}}
	}
	panic("unknown mode " + m)
}

// ---- recording doubles ----

type payload struct{ A int }

type customErr struct{ msg string }

func (e *customErr) Error() string {
	if e == nil {
		return "typed nil error"
	}
	return e.msg
}

type recProducer struct {
	tag string
	e   *env
}

type prodCall struct {
	p    *recProducer
	data interface{}
}

// render is what a recording producer writes: its identity and the value it was given.
func render(tag string, data interface{}) string { return fmt.Sprintf("<%s>%#v", tag, data) }

func (p *recProducer) Produce(w io.Writer, data interface{}) error {
	p.e.cur.prodCalls = append(p.e.cur.prodCalls, prodCall{p, data})
	_, err := io.WriteString(w, render(p.tag, data))
	return err
}

type respCall struct {
	p  runtime.Producer
	ct string // Content-Type on the writer when the Responder was invoked
}

type recResponder struct{ o *obs }

const selfBody = "self"

func (x *recResponder) WriteResponse(rw http.ResponseWriter, p runtime.Producer) {
	writeSelf(x.o, rw, p)
}

func writeSelf(o *obs, rw http.ResponseWriter, p runtime.Producer) {
	o.respCalls = append(o.respCalls, respCall{p, rw.Header().Get("Content-Type")})
	rw.WriteHeader(299)
	if p != nil {
		_ = p.Produce(rw, selfBody)
	}
}

type errCall struct {
	err error
	ct  string // Content-Type on the writer when the error responder was invoked
	www []string
}

// capWriter records what is done to the ResponseWriter, with net/http's rules:
// the first WriteHeader (or Write) commits status and headers; an invalid code panics.
type capWriter struct {
	h         http.Header
	committed bool
	status    int
	snap      http.Header
	body      bytes.Buffer
}

func (w *capWriter) Header() http.Header { return w.h }
func (w *capWriter) WriteHeader(code int) {
	if code < 100 || code > 999 {
		panic(fmt.Sprintf("invalid WriteHeader code %v", code))
	}
	if w.committed {
		return
	}
	w.committed = true
	w.status = code
	w.snap = w.h.Clone()
}
func (w *capWriter) Write(b []byte) (int, error) {
	if !w.committed {
		w.WriteHeader(http.StatusOK)
	}
	return w.body.Write(b)
}

// obs is everything observed while one request is served.
type obs struct {
	panicked    string
	handlerRuns int
	retVal      interface{}
	retErr      error
	prodCalls   []prodCall
	respCalls   []respCall
	errCalls    []errCall
	authRuns    int
	authErr     error
	authErrs    []error // every error an authenticator returned while this request was served
	stageErr    error   // error returned by the typed binder (an "earlier stage" the harness owns)
	w           *capWriter
}

// ---- environment ----

type env struct {
	cfg   Config
	mode  modeInfo
	api   *untyped.API
	ctx   *middleware.Context
	h     http.Handler
	reg   map[string]*recProducer // media type -> producer registered for it
	realm string                  // the realm a challenge must name (when secured)
	cur   *obs
	// the outcome the handler returns for the current case
	outcome string
	curCase *Case
	doc     *loads.Document
	// the same description served through a hand-written RoutableAPI (what generated
	// servers do): middleware.NewRoutableContext + APIHandler; built on first use
	rctx *middleware.Context
	rh   http.Handler
}

func respKey(codes []string) string { return strings.Join(codes, "+") }

func (e *env) pathFor(codes []string) string {
	for i, r := range e.cfg.Responses {
		if respKey(r) == respKey(codes) {
			return fmt.Sprintf("/r%d", i)
		}
	}
	return ""
}

var opMethods = []string{"GET", "HEAD", "POST", "DELETE"}

// opReg is one (method, path) an operation handler has to be registered for.
type opReg struct{ m, p string }

// loadDoc builds the API description of a configuration. It does not depend on
// cfg.Mode, cfg.AuthCtor's value (only on whether it is set) or cfg.AuthRealm, so one
// document serves all environments of a shard that differ only in those.
func loadDoc(cfg Config) (*loads.Document, []opReg) {
	sp := apib.Spec{BasePath: "/api"}
	var opProduces []string
	if cfg.Where == "global" {
		if len(cfg.Produces) > 0 {
			sp.Produces = cfg.Produces
		}
	} else if len(cfg.Produces) > 0 {
		opProduces = cfg.Produces
	}
	var sec *[]map[string][]string
	if cfg.AuthCtor != "" {
		sp.SecurityDefs = map[string]any{"basic": map[string]any{"type": "basic"}}
		sec = &[]map[string][]string{{"basic": {}}}
		if len(cfg.AuthAlts) > 0 {
			sp.SecurityDefs["key1"] = map[string]any{"type": "apiKey", "in": "header", "name": "X-Key1"}
			sp.SecurityDefs["key2"] = map[string]any{"type": "apiKey", "in": "header", "name": "X-Key2"}
			alts := []map[string][]string{}
			for _, a := range cfg.AuthAlts {
				alts = append(alts, map[string][]string{a: {}})
			}
			sec = &alts
		}
	}
	var regs []opReg
	for i, codes := range cfg.Responses {
		resp := map[string]any{}
		for _, c := range codes {
			resp[c] = map[string]any{"description": "r" + c}
		}
		p := fmt.Sprintf("/r%d", i)
		methods := cfg.Methods
		if methods == nil {
			methods = opMethods
		}
		for _, m := range methods {
			sp.Ops = append(sp.Ops, apib.Op{Method: m, Path: p, Produces: opProduces, Security: sec, Responses: resp})
			regs = append(regs, opReg{m, p})
		}
	}
	// an operation with a required query parameter: a request without it fails in binding
	for _, m := range []string{"GET", "HEAD"} {
		sp.Ops = append(sp.Ops, apib.Op{Method: m, Path: "/v", Produces: opProduces, Security: sec,
			Params: []map[string]any{{"name": "q", "in": "query", "type": "string", "required": true}}})
		regs = append(regs, opReg{m, "/v"})
	}
	return apib.MustLoad(sp), regs
}

func buildEnv(cfg Config) *env {
	doc, regs := loadDoc(cfg)
	return buildEnvWith(cfg, doc, regs)
}

func buildEnvWith(cfg Config, doc *loads.Document, regs []opReg) *env {
	e := &env{cfg: cfg, mode: modeOf(cfg.Mode), reg: map[string]*recProducer{}}
	api := untyped.NewAPI(doc)
	api.WithoutJSONDefaults()
	api.DefaultProduces = e.mode.defaultType
	// the request side is not under test: keep the library's json consumer as default
	api.DefaultConsumes = runtime.JSONMime
	api.RegisterConsumer(runtime.JSONMime, runtime.JSONConsumer())
	for _, mt := range append(append([]string(nil), e.mode.registered...), cfg.Extra...) {
		p := &recProducer{tag: mt, e: e}
		e.reg[mt] = p
		api.RegisterProducer(mt, p)
	}
	api.ServeError = func(rw http.ResponseWriter, _ *http.Request, err error) {
		e.cur.errCalls = append(e.cur.errCalls, errCall{err, rw.Header().Get("Content-Type"), rw.Header().Values("WWW-Authenticate")})
		code := http.StatusInternalServerError
		if ce, ok := err.(errors.Error); ok && ce != nil {
			if c := int(ce.Code()); c >= 100 && c <= 599 {
				code = c
			}
		}
		rw.WriteHeader(code)
		// the body names the error's type and status, not its message: messages of the
		// library list media types and methods in map iteration order
		_, _ = io.WriteString(rw, errTag(err))
	}
	handler := runtime.OperationHandlerFunc(func(interface{}) (interface{}, error) { return e.handle() })
	for _, rg := range regs {
		api.RegisterOperation(rg.m, rg.p, handler)
	}
	if cfg.AuthCtor != "" {
		e.realm = cfg.AuthRealm
		if e.realm == "" || cfg.AuthCtor == "BasicAuth" || cfg.AuthCtor == "BasicAuthCtx" {
			e.realm = security.DefaultRealmName
		}
		plain := func(user, pass string) (interface{}, error) { return e.authenticate(user, pass) }
		withCtx := func(c stdctx.Context, user, pass string) (stdctx.Context, interface{}, error) {
			p, err := e.authenticate(user, pass)
			return c, p, err
		}
		switch cfg.AuthCtor {
		case "BasicAuth":
			api.RegisterAuth("basic", security.BasicAuth(plain))
		case "BasicAuthRealm":
			api.RegisterAuth("basic", security.BasicAuthRealm(cfg.AuthRealm, plain))
		case "BasicAuthCtx":
			api.RegisterAuth("basic", security.BasicAuthCtx(withCtx))
		case "BasicAuthRealmCtx":
			api.RegisterAuth("basic", security.BasicAuthRealmCtx(cfg.AuthRealm, withCtx))
		default:
			panic("unknown auth constructor " + cfg.AuthCtor)
		}
		if len(cfg.AuthAlts) > 0 {
			// API-key schemes whose refusal is an error of their own, distinguishable from
			// the framework's generic 401 and from each other
			for name, code := range map[string]int32{"key1": http.StatusForbidden, "key2": http.StatusTooManyRequests} {
				name, code := name, code
				api.RegisterAuth(name, security.APIKeyAuth("X-K"+name[1:], "header", func(token string) (interface{}, error) {
					e.cur.authRuns++
					if token == "good" {
						return "principal-" + name, nil
					}
					err := errors.New(code, "%s refuses token %q", name, token)
					e.cur.authErrs = append(e.cur.authErrs, err)
					return nil, err
				}))
			}
		}
	}
	e.api = api
	e.doc = doc
	if cfg.Hostile == "before-context" {
		e.hostile()
	}
	e.ctx = middleware.NewContext(doc, api, nil)
	if cfg.NoDocs {
		e.h = e.ctx.RoutesHandler(nil)
	} else {
		e.h = e.ctx.APIHandler(nil)
	}
	// either call also installs the default router in the context (the typed entry point needs it)
	if cfg.Hostile != "" {
		e.hostile()
	}
	return e
}

const mtHostile = "x-hostile/x"

// hostile is the "hostile caller" event: the application asks the API for the producers of
// every non-empty subset of the media types it registered a producer for (what generated
// code and custom middleware do to encode on their own), and then treats every map it was
// given - and every slice it passed in - as its own: all entries are replaced by a foreign
// producer, a foreign key is added, the argument slice is overwritten. The registry of the
// API and the routes built from it must not be affected: the judge still demands the
// producer REGISTERED for the negotiated type (identity).
func (e *env) hostile() {
	types := append(append([]string(nil), e.mode.registered...), e.cfg.Extra...)
	for mask := 1; mask < 1<<len(types); mask++ {
		var ask []string
		for i, t := range types {
			if mask>>i&1 == 1 {
				ask = append(ask, t)
			}
		}
		got := e.api.ProducersFor(ask)
		for k := range got {
			got[k] = &recProducer{tag: "hostile-caller:" + k, e: e}
		}
		if got != nil {
			got[mtHostile] = &recProducer{tag: "hostile-caller:" + mtHostile, e: e}
		}
		for i := range ask {
			ask[i] = mtHostile
		}
	}
}

func (e *env) authenticate(user, pass string) (interface{}, error) {
	e.cur.authRuns++
	if user == "u" && pass == "good" {
		return "principal", nil
	}
	if user == "u" && pass == "nilp" {
		return nil, nil
	}
	e.cur.authErr = errors.New(http.StatusUnauthorized, "bad credentials for %s", user)
	e.cur.authErrs = append(e.cur.authErrs, e.cur.authErr)
	return nil, e.cur.authErr
}

// outcomes a handler can have; the first group are results, the second errors.
var allOutcomes = []string{
	"string", "struct", "nil",
	"responder", "responder-func", "mw-error", "not-implemented",
	"err-api", "err-plain", "err-composite", "err-405", "err-custom", "value+error",
}

func (e *env) handle() (interface{}, error) {
	o := e.cur
	o.handlerRuns++
	switch e.outcome {
	case "string":
		o.retVal = "hello"
	case "struct":
		o.retVal = &payload{A: 1}
	case "nil":
	case "empty-string":
		o.retVal = ""
	case "zero":
		o.retVal = 0
	case "nil-slice":
		o.retVal = []string(nil)
	case "empty-slice":
		o.retVal = []string{}
	case "nil-pointer":
		o.retVal = (*payload)(nil)
	case "err-typed-nil":
		o.retErr = (*customErr)(nil) // a non-nil error value holding a nil pointer
	case "responder":
		o.retVal = &recResponder{o}
	case "responder-func":
		o.retVal = middleware.ResponderFunc(func(rw http.ResponseWriter, p runtime.Producer) { writeSelf(o, rw, p) })
	case "mw-error":
		o.retVal = middleware.Error(418, "teapot", http.Header{"X-T": {"1"}})
	case "not-implemented":
		o.retVal = middleware.NotImplemented("nope")
	case "err-api":
		o.retErr = errors.New(http.StatusConflict, "conflict")
	case "err-plain":
		o.retErr = stderrors.New("boom")
	case "err-composite":
		o.retErr = errors.CompositeValidationError(errors.Required("q", "query", nil))
	case "err-405":
		o.retErr = errors.MethodNotAllowed("GET", []string{"POST"})
	case "err-custom":
		o.retErr = &customErr{"custom"}
	case "value+error":
		o.retVal = "hello"
		o.retErr = errors.New(http.StatusGone, "gone")
	default:
		panic("unknown outcome " + e.outcome)
	}
	return o.retVal, o.retErr
}

// ---- requests ----

// Range is one media range of an abstract Accept header; Q is in tenths (10 = no q parameter).
type Range struct {
	T string `json:"t"`
	Q int    `json:"q"`
}

func renderAccept(rs []Range) string { return renderAcceptStyle(rs, "") }

// renderAcceptStyle spells the same abstract header differently: "" (", " and ";q=0.5"),
// compact (no optional whitespace), spaced (blanks around ';' and ','), tab (TAB as the
// optional whitespace), q3 (three fractional digits, q=1.000 written out).
func renderAcceptStyle(rs []Range, style string) string {
	semi, comma := ";", ", "
	switch style {
	case "", "q3":
	case "compact":
		comma = ","
	case "spaced":
		semi, comma = " ; ", " , "
	case "tab":
		semi, comma = ";\t", ",\t"
	default:
		panic("unknown Accept style " + style)
	}
	parts := make([]string, len(rs))
	for i, r := range rs {
		switch {
		case r.Q >= 10 && style == "q3":
			parts[i] = r.T + semi + "q=1.000"
		case r.Q >= 10:
			parts[i] = r.T
		case r.Q <= 0 && style == "q3":
			parts[i] = r.T + semi + "q=0.000"
		case r.Q <= 0:
			parts[i] = r.T + semi + "q=0"
		case style == "q3":
			parts[i] = fmt.Sprintf("%s%sq=0.%d00", r.T, semi, r.Q)
		default:
			parts[i] = fmt.Sprintf("%s%sq=0.%d", r.T, semi, r.Q)
		}
	}
	return strings.Join(parts, comma)
}

// rawRequest renders the request the way a client would put it on the wire.
func rawRequest(c *Case, path string) string {
	var b strings.Builder
	fmt.Fprintf(&b, "%s /api%s HTTP/1.1\r\nHost: verif.test\r\n", c.Method, path)
	if !c.NoAccept {
		fmt.Fprintf(&b, "Accept: %s\r\n", renderAcceptStyle(c.Accept, c.AcceptStyle))
	}
	if c.Auth != nil && len(c.Auth.Alts) > 0 {
		for i, a := range c.Auth.Alts {
			st := c.Auth.States[i]
			switch {
			case st == "absent":
			case a == "basic" && st == "fail":
				b.WriteString("Authorization: Basic dTpiYWQ=\r\n") // u:bad
			case a == "basic" && st == "ok":
				b.WriteString("Authorization: Basic dTpnb29k\r\n") // u:good
			case st == "fail":
				fmt.Fprintf(&b, "X-K%s: bad\r\n", a[1:])
			case st == "ok":
				fmt.Fprintf(&b, "X-K%s: good\r\n", a[1:])
			default:
				panic("unknown alternative state " + st)
			}
		}
	} else if c.Auth != nil {
		switch c.Auth.Creds {
		case "none":
		case "wrong":
			b.WriteString("Authorization: Basic dTpiYWQ=\r\n") // u:bad
		case "wrong-lowercase-scheme": // the scheme name is case-insensitive
			b.WriteString("Authorization: basic dTpiYWQ=\r\n")
		case "wrong-uppercase-scheme":
			b.WriteString("Authorization: BASIC dTpiYWQ=\r\n")
		case "wrong-empty-user": // ":" = empty user, empty password
			b.WriteString("Authorization: Basic Og==\r\n")
		case "wrong-colon-in-password": // u:ba:d
			b.WriteString("Authorization: Basic dTpiYTpk\r\n")
		case "wrong-non-ascii": // u-umlaut:pa-umlaut-ssword
			b.WriteString("Authorization: Basic w7w6cMOkc3N3b3Jk\r\n")
		case "right":
			b.WriteString("Authorization: Basic dTpnb29k\r\n") // u:good
		case "right-nil-principal":
			b.WriteString("Authorization: Basic dTpuaWxw\r\n") // u:nilp
		case "malformed":
			b.WriteString("Authorization: Basic !!!\r\n")
		case "other-scheme":
			b.WriteString("Authorization: Bearer dTpnb29k\r\n")
		default:
			panic("unknown creds " + c.Auth.Creds)
		}
	}
	body := ""
	switch c.Body {
	case "":
		if c.Method == "POST" {
			b.WriteString("Content-Length: 0\r\n")
		}
	case "json":
		body = "{}"
		b.WriteString("Content-Type: application/json\r\n")
	case "csv":
		body = "a,b"
		b.WriteString("Content-Type: text/csv\r\n")
	default:
		panic("unknown body " + c.Body)
	}
	if body != "" {
		fmt.Fprintf(&b, "Content-Length: %d\r\n", len(body))
	}
	b.WriteString("\r\n")
	b.WriteString(body)
	return b.String()
}

func (e *env) requestPath(c *Case) string {
	if c.Path != "" {
		return c.Path // sequence sweep: the operation names its own path
	}
	switch c.Target {
	case "op", "other-method":
		return e.pathFor(c.Responses)
	case "missing-param":
		return "/v"
	case "unknown-path":
		return "/nope"
	}
	panic("unknown target " + c.Target)
}

// typedProduces is the produces argument the typed entry point hands to Respond: the
// declared list in the enumerated order, with the API default appended when it is not
// in the list (what the router stores in MatchedRoute.Produces, but in an owned order).
func typedProduces(declared []string, def string) []string {
	out := append([]string(nil), declared...)
	if def != "" && !containsCI(out, def) {
		out = append(out, def)
	}
	return out
}

func containsCI(l []string, s string) bool {
	for _, x := range l {
		if strings.EqualFold(x, s) {
			return true
		}
	}
	return false
}

// serve runs one case on the real code and returns what was observed.
func (e *env) serve(c *Case) *obs {
	o := &obs{w: &capWriter{h: http.Header{}}}
	e.cur = o
	e.outcome = c.Outcome
	e.curCase = c
	path := e.requestPath(c)
	if path == "" {
		panic("case names a response set the environment does not have")
	}
	req, err := http.ReadRequest(bufio.NewReader(strings.NewReader(rawRequest(c, path))))
	if err != nil {
		panic(fmt.Sprintf("harness: request does not parse: %v", err))
	}
	func() {
		defer func() {
			if p := recover(); p != nil {
				o.panicked = fmt.Sprint(p)
			}
		}()
		switch c.Via {
		case "typed":
			e.serveTyped(e.ctx, e.h, o.w, req, c)
		case "direct":
			e.serveDirect(o.w, req, c)
		case "notfound":
			e.ctx.NotFound(o.w, req)
		case "routable":
			e.routable().ServeHTTP(o.w, req)
		case "untyped":
			e.h.ServeHTTP(o.w, req)
		default:
			panic("unknown entry point " + c.Via)
		}
	}()
	if e.cfg.Hostile != "" {
		e.hostile()
	}
	return o
}

// typedBinder stands for the generated parameter binder: it fails, with an error the
// oracle knows, when the required query parameter of /v is missing.
type typedBinder struct {
	o       *obs
	require bool
}

func (b typedBinder) BindRequest(r *http.Request, _ *middleware.MatchedRoute) error {
	if b.require && r.URL.Query().Get("q") == "" {
		b.o.stageErr = errors.CompositeValidationError(errors.Required("q", "query", nil))
		return b.o.stageErr
	}
	return nil
}

// serveTyped drives the request the way a generated (typed) operation handler does:
// RouteInfo, Authorize, BindValidRequest, then Context.Respond with the outcome.
func (e *env) serveTyped(ctx *middleware.Context, unrouted http.Handler, w http.ResponseWriter, r *http.Request, c *Case) {
	route, rCtx, ok := ctx.RouteInfo(r)
	if !ok {
		// not routed: generated servers answer through the same router middleware
		unrouted.ServeHTTP(w, r)
		return
	}
	if rCtx != nil {
		*r = *rCtx
	}
	produces := typedProduces(c.Produces, e.mode.defaultType)
	if e.cfg.Hostile != "" {
		// the produces argument is the caller's slice: it re-uses it once Respond has returned
		defer func() {
			for i := range produces {
				produces[i] = mtHostile
			}
		}()
	}
	if route.HasAuth() {
		_, aCtx, err := ctx.Authorize(r, route)
		if err != nil {
			ctx.Respond(w, r, produces, route, err)
			return
		}
		if aCtx != nil {
			*r = *aCtx
		}
	}
	if err := ctx.BindValidRequest(r, route, typedBinder{e.cur, c.Target == "missing-param"}); err != nil {
		ctx.Respond(w, r, produces, route, err)
		return
	}
	res, herr := e.handle()
	if herr != nil {
		ctx.Respond(w, r, produces, route, herr)
		return
	}
	ctx.Respond(w, r, produces, route, res)
}

// serveDirect calls the exported Context.Respond the way custom middleware does: without
// a matched route (nil, or a MatchedRoute that has no Operation), optionally on a request
// whose context already carries the format negotiated by Context.ResponseFormat.
func (e *env) serveDirect(w http.ResponseWriter, r *http.Request, c *Case) {
	res, herr := e.handle()
	var route *middleware.MatchedRoute
	switch {
	case strings.HasPrefix(c.Direct, "nil-route"):
	case strings.HasPrefix(c.Direct, "empty-route"):
		route = &middleware.MatchedRoute{}
	default:
		panic("unknown direct variant " + c.Direct)
	}
	if strings.HasSuffix(c.Direct, "+cached-format") {
		_, r = e.ctx.ResponseFormat(r, typedProduces(c.Produces, e.mode.defaultType))
	}
	var data interface{} = res
	if herr != nil {
		data = herr
	}
	produces := c.Produces
	if e.cfg.Hostile != "" {
		produces = append([]string(nil), c.Produces...)
		defer func() {
			for i := range produces {
				produces[i] = mtHostile
			}
		}()
	}
	e.ctx.Respond(w, r, produces, route, data)
}

// routableDouble is a RoutableAPI written by hand, as generated servers have one: the
// registries are those of the untyped API, the operation handlers run the typed call
// sequence, the error responder is looked up per operation id.
type routableDouble struct{ e *env }

func (d routableDouble) HandlerFor(_, _ string) (http.Handler, bool) {
	return http.HandlerFunc(func(w http.ResponseWriter, r *http.Request) {
		d.e.serveTyped(d.e.rctx, d.e.rh, w, r, d.e.curCase)
	}), true
}
func (d routableDouble) ServeErrorFor(string) func(http.ResponseWriter, *http.Request, error) {
	return func(rw http.ResponseWriter, r *http.Request, err error) { d.e.api.ServeError(rw, r, err) }
}
func (d routableDouble) ConsumersFor(mt []string) map[string]runtime.Consumer {
	return d.e.api.ConsumersFor(mt)
}
func (d routableDouble) ProducersFor(mt []string) map[string]runtime.Producer {
	return d.e.api.ProducersFor(mt)
}
func (d routableDouble) AuthenticatorsFor(s map[string]spec.SecurityScheme) map[string]runtime.Authenticator {
	return d.e.api.AuthenticatorsFor(s)
}
func (d routableDouble) Authorizer() runtime.Authorizer { return d.e.api.Authorizer() }
func (d routableDouble) Formats() strfmt.Registry       { return d.e.api.Formats() }
func (d routableDouble) DefaultProduces() string        { return d.e.api.DefaultProduces }
func (d routableDouble) DefaultConsumes() string        { return d.e.api.DefaultConsumes }

func (e *env) routable() http.Handler {
	if e.rh == nil {
		e.rctx = middleware.NewRoutableContext(e.doc, routableDouble{e}, nil)
		e.rh = e.rctx.APIHandler(nil)
	}
	return e.rh
}

func sortedKeys(m map[string]int64) []string {
	ks := make([]string, 0, len(m))
	for k := range m {
		ks = append(ks, k)
	}
	sort.Strings(ks)
	return ks
}

// errTag identifies an error without its message text.
func errTag(err error) string {
	if err == nil {
		return "E|nil"
	}
	return fmt.Sprintf("E|%T|%d", err, firstCode(err))
}

// ---- descriptions whose operations collide on their operationId (sequence sweep) ----

// seqOp is one operation of the sequence sweep's description. The operations are chosen
// to collide pairwise on something a cache could be keyed by (operationId when absent or
// duplicated, path, method, produced media type) while differing in what the property
// makes depend on the operation: the declared success status and the produces list.
// Every list has at most one entry besides the API default, so that the offer order -
// and with it every response - is the same on every instance of the API.
type seqOp struct {
	Method   string
	Path     string // template
	ReqPath  string // a path that instantiates it
	Codes    []string
	Produces []string
}

var seqOps = []seqOp{
	{"GET", "/things", "/things", []string{"200"}, []string{mtText}},
	{"POST", "/things", "/things", []string{"201"}, []string{mtXML}},
	{"DELETE", "/things/{id}", "/things/7", []string{"204"}, []string{mtJSON}},
	{"GET", "/other", "/other", []string{"202"}, []string{mtXML}},
	{"HEAD", "/other", "/other", []string{"200", "203"}, []string{"text/plain; charset=utf-8"}},
}

// idVariants: how the operations are identified in the description.
//
//	distinct  every operation has its own operationId (what engine/apib generates)
//	none      no operation has an operationId (it is optional in Swagger 2.0)
//	dup       all operations carry the same operationId
//	mixed     the first two have none, the others share one
var idVariants = []string{"distinct", "none", "dup", "mixed"}

func loadSeqDoc(ids string) (*loads.Document, []opReg) {
	sp := apib.Spec{BasePath: "/api"}
	var regs []opReg
	for _, o := range seqOps {
		resp := map[string]any{}
		for _, c := range o.Codes {
			resp[c] = map[string]any{"description": "r" + c}
		}
		op := apib.Op{Method: o.Method, Path: o.Path, Produces: o.Produces, Responses: resp}
		if strings.Contains(o.Path, "{id}") {
			op.Params = []map[string]any{{"name": "id", "in": "path", "type": "string", "required": true}}
		}
		sp.Ops = append(sp.Ops, op)
		regs = append(regs, opReg{o.Method, o.Path})
	}
	// engine/apib always writes an operationId: edit the rendered JSON
	var doc map[string]any
	if err := json.Unmarshal(sp.JSON(), &doc); err != nil {
		panic(err)
	}
	paths := doc["paths"].(map[string]any)
	for i, o := range seqOps {
		op := paths[o.Path].(map[string]any)[strings.ToLower(o.Method)].(map[string]any)
		switch ids {
		case "distinct":
		case "none":
			delete(op, "operationId")
		case "dup":
			op["operationId"] = "same"
		case "mixed":
			if i < 2 {
				delete(op, "operationId")
			} else {
				op["operationId"] = "same"
			}
		default:
			panic("unknown id variant " + ids)
		}
	}
	raw, err := json.Marshal(doc)
	if err != nil {
		panic(err)
	}
	d, err := loads.Analyzed(json.RawMessage(raw), "")
	if err != nil {
		panic(fmt.Sprintf("sequence description does not load: %v", err))
	}
	return d, regs
}

// signature is the observation in a form that must be identical on every instance of
// the same API: everything summary() shows, with errors named by type and status.
func (o *obs) signature() string {
	var b strings.Builder
	if o.panicked != "" {
		fmt.Fprintf(&b, "panic(%s) ", o.panicked)
	}
	if o.w.committed {
		fmt.Fprintf(&b, "status=%d content-type=%q www-authenticate=%q body=%q", o.w.status, o.w.snap.Get("Content-Type"), o.w.snap.Values("WWW-Authenticate"), o.w.body.String())
	} else {
		fmt.Fprintf(&b, "nothing written (content-type header %q)", o.w.h.Get("Content-Type"))
	}
	fmt.Fprintf(&b, " handler-runs=%d", o.handlerRuns)
	for _, pc := range o.prodCalls {
		fmt.Fprintf(&b, " produce[%s](%#v)", pc.p.tag, pc.data)
	}
	for _, rc := range o.respCalls {
		tag := "nil"
		if p, ok := rc.p.(*recProducer); ok && p != nil {
			tag = p.tag
		} else if rc.p != nil {
			tag = fmt.Sprintf("%T", rc.p)
		}
		fmt.Fprintf(&b, " responder-handed[%s; content-type=%q]", tag, rc.ct)
	}
	for _, ec := range o.errCalls {
		fmt.Fprintf(&b, " error-responder(%s; content-type=%q)", errTag(ec.err), ec.ct)
	}
	return b.String()
}
