// C08 - responses carry the declared status, the negotiated type and that type's
// encoding; errors reach the API's error responder; failed basic auth is challenged.
//
// Small-scope exhaustive enumeration (E1) on the real middleware.Context: every element
// of  API configurations (default-producer mode x produces list x where it is declared
// x declared responses) x requests (method, body, Accept) x handler outcomes x entry
// point  is served by the real code with recording producers / error responder /
// Responder / ResponseWriter and judged by the reference in model.go.
package main

import (
	"fmt"
	"runtime/debug"
	"sort"
	"sync"

	"verif/engine/enum"
	"verif/engine/report"
)

// ---- alphabets ----

var producesAlphabet = []string{
	mtJSON,
	mtText,
	"text/plain; charset=utf-8",
	mtXML,
	"application/json; charset=utf-8",
	mtUnreg,
}

var modes = []string{"json", "text", "none", "json-unreg"}

var responseSets = [][]string{
	{"200"}, {"201"}, {"204"}, {"default"}, {"200", "201"}, {"202", "404", "default"},
}

// Accept headers of the main sweep, as abstract lists of ranges (nil entry = header absent).
var acceptsMain = [][]Range{
	nil, // absent
	{{"*/*", 10}},
	{{mtJSON, 10}},
	{{mtText, 10}},
	{{mtXML, 10}},
	{{"text/*", 10}},
	{{"application/*", 10}},
	{{"image/png", 10}}, // admits nothing
	{{mtText, 5}, {mtJSON, 10}},
	{{mtJSON, 5}, {mtText, 10}},
	{{mtText, 10}, {mtJSON, 10}},
	{{mtJSON, 10}, {mtText, 10}},
	{{"*/*", 1}, {mtXML, 9}},
	{{"text/*", 5}, {mtJSON, 5}},
	{{mtJSON, 0}, {"*/*", 10}},
	{{mtUnreg, 10}},
}

// acceptsDeep: absent, every single range and every ordered pair of ranges over 7 media
// ranges x q in {1, 0.5, 0}.
func acceptsDeep() [][]Range {
	var atoms []Range
	for _, t := range []string{"*/*", mtJSON, mtText, mtXML, "text/*", "application/*", "image/png"} {
		for _, q := range []int{10, 5, 0} {
			atoms = append(atoms, Range{t, q})
		}
	}
	out := [][]Range{nil}
	for _, a := range atoms {
		out = append(out, []Range{a})
	}
	for _, a := range atoms {
		for _, b := range atoms {
			out = append(out, []Range{a, b})
		}
	}
	return out
}

type shape struct {
	Method, Body, Target string
}

var opShapes = []shape{
	{"GET", "", "op"}, {"HEAD", "", "op"}, {"DELETE", "", "op"}, {"POST", "", "op"}, {"POST", "json", "op"},
}

// requests that an earlier stage refuses (besides 406, which the Accept axis produces)
var stageShapes = []shape{
	{"POST", "csv", "op"},          // 415
	{"GET", "", "missing-param"},   // 422
	{"HEAD", "", "missing-param"},  // 422
	{"GET", "", "unknown-path"},    // 404
	{"HEAD", "", "unknown-path"},   // 404
	{"PATCH", "", "other-method"},  // 405
	{"DELETE", "", "unknown-path"}, // 404
}

// lists: every ordered list without repetition of 0..max entries of the alphabet.
func lists(n, max int) [][]int {
	out := [][]int{{}}
	var rec func(cur []int)
	rec = func(cur []int) {
		if len(cur) > 0 {
			out = append(out, append([]int(nil), cur...))
		}
		if len(cur) == max {
			return
		}
		for i := 0; i < n; i++ {
			dup := false
			for _, k := range cur {
				if k == i {
					dup = true
				}
			}
			if !dup {
				rec(append(cur, i))
			}
		}
	}
	rec(nil)
	return out
}

func ascending(l []int) bool {
	for i := 1; i < len(l); i++ {
		if l[i] < l[i-1] {
			return false
		}
	}
	return true
}

func configOf(c *Case) Config {
	cfg := Config{Mode: c.Mode, Produces: c.Produces, Where: c.Where, Responses: [][]string{c.Responses}}
	if c.Auth != nil {
		cfg.AuthCtor, cfg.AuthRealm = c.Auth.Ctor, c.Auth.Realm
	}
	return cfg
}

// check decides one case from scratch (fresh API); it is what --replay runs.
func check(c Case) (class, what, label, observed string) {
	e := buildEnv(configOf(&c))
	o := e.serve(&c)
	class, what, label = judge(e, &c, o)
	return class, what, label, o.summary()
}

// shardStats is the per-environment batch of counters.
type shardStats struct {
	evals, nontrivial int64
	outcomes          map[string]int64
	firsts            map[string]any // first case of every situation seen in this shard
}

func (s *shardStats) run(r *report.R, e *env, c *Case) {
	o := e.serve(c)
	class, what, label := judge(e, c, o)
	s.evals++
	if class != "" {
		cc := *c
		cc.Produces = append([]string(nil), c.Produces...)
		cc.Responses = append([]string(nil), c.Responses...)
		cc.Accept = append([]Range(nil), c.Accept...)
		if c.Auth != nil {
			a := *c.Auth
			cc.Auth = &a
		}
		r.Fail(class, what, cc)
		s.nontrivial++
		s.outcomes["deviation/"+class]++
		return
	}
	s.outcomes[label]++
	if len(label) < 4 || label[:4] != "may/" {
		s.nontrivial++
	}
	if _, seen := s.firsts[label]; !seen {
		if s.firsts == nil {
			s.firsts = map[string]any{}
		}
		s.firsts[label] = map[string]any{"case": *c, "observed": o.summary(), "situation": label}
	}
}

// samples: one real case per situation label, taken from the shard of lowest rank (a fixed
// pseudo-random order of the shards rotated by VERIF_SEED), so that the choice does not
// depend on scheduling and the samples come from different configurations.
var samples = map[string]sampleOf{}
var sampleSeed uint32

func rank(shard int) uint32 { return (uint32(shard) + sampleSeed + 7) * 2654435761 }

type sampleOf struct {
	shard int
	v     any
}

func (s *shardStats) flush(r *report.R, mu *sync.Mutex, total map[string]int64, shard int) {
	r.Eval(s.evals)
	r.Nontrivial(s.nontrivial)
	mu.Lock()
	for k, v := range s.outcomes {
		total[k] += v
	}
	for k, v := range s.firsts {
		if old, ok := samples[k]; !ok || rank(shard) < rank(old.shard) {
			samples[k] = sampleOf{shard, v}
		}
	}
	mu.Unlock()
}

func main() {
	r := report.Start("C08", "exploration")
	// the live heap is a few API descriptions per worker; the front end's 2000% setting lets
	// the heap grow to gigabytes on a machine that is shared, for no measurable gain here
	debug.SetGCPercent(600)
	sampleSeed = uint32(r.Seed)
	if r.Replay != "" {
		var c Case
		r.LoadReplay(&c)
		class, what, label, observed := check(c)
		fmt.Printf("replay %+v\n  observed: %s\n  situation: %s\n  class=%q %s\n", c, observed, label, class, what)
		if class != "" {
			r.Fail(class, what, c)
		}
		r.Eval(1)
		r.Nontrivial(1)
		r.Sample(c)
		r.Finish("replay of one case", false)
	}

	total := map[string]int64{}
	var mu sync.Mutex
	var envs int64
	done := func(st *shardStats, shard int) {
		st.flush(r, &mu, total, shard)
		mu.Lock()
		envs++
		mu.Unlock()
	}
	named := func(l []int) []string {
		out := make([]string, len(l))
		for j, x := range l {
			out[j] = producesAlphabet[x]
		}
		return out
	}

	// ---- sweep "main": full product ----
	// A shard is one API description (produces list x where it is declared); the four
	// default-producer modes share the parsed document (it does not depend on the mode).
	type docKey struct {
		where string
		list  []int
	}
	maxOp, maxGlobal := 2, 1
	if r.Thorough() {
		maxOp, maxGlobal = 3, 3
	}
	// quick leaves out two error classes and two Accept headers that thorough has
	outcomes, accepts := allOutcomes, acceptsMain
	if !r.Thorough() {
		outcomes = nil
		for _, o := range allOutcomes {
			if o != "err-405" && o != "err-custom" {
				outcomes = append(outcomes, o)
			}
		}
		accepts = nil
		for i, a := range acceptsMain {
			if i != 11 && i != 15 { // "application/json, text/plain" (mirror of #10) and "application/x-unreg"
				accepts = append(accepts, a)
			}
		}
	}
	var keysMain []docKey
	for _, l := range lists(len(producesAlphabet), maxOp) {
		keysMain = append(keysMain, docKey{"op", l})
	}
	for _, l := range lists(len(producesAlphabet), maxGlobal) {
		keysMain = append(keysMain, docKey{"global", l})
	}
	lsOp, lsGlobal := lists(len(producesAlphabet), maxOp), lists(len(producesAlphabet), maxGlobal)
	r.Set("axes_main", map[string]any{
		"default_producer_modes": modes,
		"produces_alphabet":      producesAlphabet,
		"produces_lists": fmt.Sprintf("every ordered list without repetition of 0..%d entries declared on the operation (%d lists) and of 0..%d entries declared globally (%d lists); typed entry point: all of them (the order is the produces argument of Respond); untyped entry point: the ascending ones (%d and %d), because the order of a declared list is lost in go-openapi/analysis",
			maxOp, len(lsOp), maxGlobal, len(lsGlobal), countAscending(lsOp), countAscending(lsGlobal)),
		"declared_at":          []string{"op", "global"},
		"response_sets":        responseSets,
		"request_shapes":       opShapes,
		"stage_failure_shapes": stageShapes,
		"accept_headers":       renderAll(accepts),
		"handler_outcomes":     outcomes,
		"entry_points":         []string{"untyped", "typed"},
	})
	enum.Parallel(len(keysMain), r.OutOfTime, func(i int) {
		k := keysMain[i]
		produces := named(k.list)
		doc, regs := loadDoc(Config{Produces: produces, Where: k.where, Responses: responseSets})
		vias := []string{"typed"}
		if ascending(k.list) {
			vias = []string{"untyped", "typed"}
		}
		for _, mode := range modes {
			e := buildEnvWith(Config{Mode: mode, Produces: produces, Where: k.where, Responses: responseSets}, doc, regs)
			st := &shardStats{outcomes: map[string]int64{}}
			c := Case{Sweep: "main", Mode: mode, Produces: produces, Where: k.where}
			for _, via := range vias {
				c.Via = via
				for _, acc := range accepts {
					c.NoAccept, c.Accept = acc == nil, acc
					for _, rs := range responseSets {
						c.Responses = rs
						for _, sh := range opShapes {
							c.Method, c.Body, c.Target = sh.Method, sh.Body, sh.Target
							for _, oc := range outcomes {
								c.Outcome = oc
								st.run(r, e, &c)
							}
						}
					}
					c.Responses = responseSets[0]
					c.Outcome = "string"
					for _, sh := range stageShapes {
						if via == "typed" && (sh.Target == "unknown-path" || sh.Target == "other-method") {
							continue // not routed: the typed entry point is never reached
						}
						c.Method, c.Body, c.Target = sh.Method, sh.Body, sh.Target
						st.run(r, e, &c)
					}
				}
			}
			done(st, i)
		}
	})

	// ---- sweep "deep-accept" (thorough): every single range and ordered pair of ranges ----
	if r.Thorough() {
		deep := acceptsDeep()
		ls2 := lists(len(producesAlphabet), 2)
		deepResponses := [][]string{{"200"}, {"204"}}
		deepOutcomes := []string{"string", "responder", "mw-error", "err-api"}
		r.Set("axes_deep_accept", map[string]any{
			"accept_headers":   fmt.Sprintf("absent + every single range + every ordered pair of ranges over 7 media ranges x q in {1, 0.5, 0}: %d headers", len(deep)),
			"produces_lists":   fmt.Sprintf("every ordered list of 0..2 entries, declared on the operation: %d", len(ls2)),
			"modes":            modes,
			"response_sets":    deepResponses,
			"methods":          []string{"GET", "HEAD"},
			"handler_outcomes": deepOutcomes,
			"entry_points":     []string{"untyped (ascending lists)", "typed"},
		})
		enum.Parallel(len(ls2), r.OutOfTime, func(i int) {
			produces := named(ls2[i])
			doc, regs := loadDoc(Config{Produces: produces, Where: "op", Responses: deepResponses})
			vias := []string{"typed"}
			if ascending(ls2[i]) {
				vias = []string{"untyped", "typed"}
			}
			for _, mode := range modes {
				e := buildEnvWith(Config{Mode: mode, Produces: produces, Where: "op", Responses: deepResponses}, doc, regs)
				st := &shardStats{outcomes: map[string]int64{}}
				c := Case{Sweep: "deep-accept", Mode: mode, Produces: produces, Where: "op", Target: "op"}
				for _, via := range vias {
					c.Via = via
					for _, acc := range deep {
						c.NoAccept, c.Accept = acc == nil, acc
						for _, rs := range deepResponses {
							c.Responses = rs
							for _, m := range []string{"GET", "HEAD"} {
								c.Method = m
								for _, oc := range deepOutcomes {
									c.Outcome = oc
									st.run(r, e, &c)
								}
							}
						}
					}
				}
				done(st, 100000+i)
			}
		})
	}

	// ---- sweep "auth": basic-auth protected operations ----
	type authKey struct {
		ctor, realm string
		produces    []string
	}
	realms := []string{"", "API", "custom", "my realm", `q"uote`, `back\slash`, "r\u00e9alm", "a,b"}
	var keysAuth []authKey
	authLists := [][]string{{mtJSON}, {mtText}, {"text/plain; charset=utf-8"}, {mtText, mtXML}}
	authModes := []string{"json", "none"}
	if r.Thorough() {
		authModes = modes
	}
	ctors := []string{"BasicAuth", "BasicAuthCtx", "BasicAuthRealm", "BasicAuthRealmCtx"}
	for _, ctor := range ctors {
		rl := realms
		if ctor == "BasicAuth" || ctor == "BasicAuthCtx" {
			rl = []string{""}
		}
		for _, realm := range rl {
			for _, p := range authLists {
				keysAuth = append(keysAuth, authKey{ctor, realm, p})
			}
		}
	}
	creds := []string{"none", "wrong", "malformed", "other-scheme", "right", "right-nil-principal"}
	authAccepts := [][]Range{nil, {{mtText, 10}}, {{mtJSON, 10}}, {{"image/png", 10}}, {{"*/*", 10}}}
	authOutcomes := []string{"string", "responder", "err-api"}
	authShapes := []shape{{"GET", "", "op"}, {"HEAD", "", "op"}, {"POST", "", "op"}, {"POST", "json", "op"}, {"GET", "", "missing-param"}}
	r.Set("axes_auth", map[string]any{
		"constructors": ctors,
		"realms":       realms,
		"credentials":  creds,
		"modes":        authModes,
		"produces":     authLists,
		"accept":       renderAll(authAccepts),
		"outcomes":     authOutcomes,
		"shapes":       authShapes,
		"entry_points": []string{"untyped", "typed"},
	})
	authResponses := [][]string{{"200"}}
	enum.Parallel(len(keysAuth), r.OutOfTime, func(i int) {
		k := keysAuth[i]
		doc, regs := loadDoc(Config{Produces: k.produces, Where: "op", Responses: authResponses, AuthCtor: k.ctor})
		for _, mode := range authModes {
			e := buildEnvWith(Config{Mode: mode, Produces: k.produces, Where: "op", Responses: authResponses, AuthCtor: k.ctor, AuthRealm: k.realm}, doc, regs)
			st := &shardStats{outcomes: map[string]int64{}}
			c := Case{Sweep: "auth", Mode: mode, Produces: k.produces, Where: "op", Responses: []string{"200"}}
			for _, via := range []string{"untyped", "typed"} {
				c.Via = via
				for _, cr := range creds {
					c.Auth = &Auth{Ctor: k.ctor, Realm: k.realm, Creds: cr}
					for _, acc := range authAccepts {
						c.NoAccept, c.Accept = acc == nil, acc
						for _, sh := range authShapes {
							c.Method, c.Body, c.Target = sh.Method, sh.Body, sh.Target
							for _, oc := range authOutcomes {
								c.Outcome = oc
								st.run(r, e, &c)
							}
						}
					}
				}
			}
			done(st, 200000+i)
		}
	})

	for _, k := range sortedKeys(total) {
		r.Outcome(k, total[k])
	}
	// up to 12 samples, one per situation, rotating with the seed
	labels := make([]string, 0, len(samples))
	for k := range samples {
		labels = append(labels, k)
	}
	sort.Strings(labels)
	picked := map[int]bool{}
	for i := 0; i < len(labels) && len(picked) < 12; i++ {
		off := int(r.Seed % int64(len(labels)))
		if off < 0 {
			off += len(labels)
		}
		step := len(labels)/12 + 1
		k := (off + i*step) % len(labels)
		if !picked[k] {
			picked[k] = true
			r.Sample(samples[labels[k]].v)
		}
	}
	r.Set("environments_built", envs)
	r.Assume(
		"the reference negotiation (model.go: bestOffers/allowedTypes) is the definition of 'the negotiated media type': C07's rule up to the tie-break, the tie-break by offer order only where the harness owns the order (typed entry point)",
		"recording producers never fail; Accept headers are well-formed, parameter-free and use q in tenths (C07 owns the rest); produces entries are lower case",
		"typed entry point = the call sequence of a go-swagger generated handler (RouteInfo, Authorize, BindValidRequest, Respond) written in the harness",
	)
	r.Finish("every element of the stated products (sweeps main, deep-accept [thorough], auth) is served once by the real Context (APIHandler, or the typed call sequence ending in Context.Respond) and judged by the reference; one evaluation = one request; non-trivial = at least one MUST clause of the property applied to the case, i.e. its situation label does not start with 'may/' (cases are distinct by construction: the enumerator never repeats a (configuration, request, outcome, entry point) tuple)", true)
}

func countAscending(ls [][]int) int {
	n := 0
	for _, l := range ls {
		if ascending(l) {
			n++
		}
	}
	return n
}

func renderAll(as [][]Range) []string {
	out := make([]string, len(as))
	for i, a := range as {
		if a == nil {
			out[i] = "(absent)"
		} else {
			out[i] = renderAccept(a)
		}
	}
	return out
}
