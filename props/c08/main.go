// C08 - responses carry the declared status, the negotiated type and that type's
// encoding; errors reach the API's error responder; failed basic auth is challenged.
//
// Small-scope exhaustive enumeration (E1) on the real middleware.Context: every element
// of  API configurations (default-producer mode x produces list x where it is declared
// x declared responses) x requests (method, body, Accept) x handler outcomes x entry
// point  is served by the real code with recording producers / error responder /
// Responder / ResponseWriter and judged by the reference in model.go.
package main

import (
	"fmt"
	"runtime/debug"
	"sort"
	"strings"
	"sync"

	"github.com/go-openapi/loads"
	"github.com/go-openapi/runtime/security"

	"verif/engine/enum"
	"verif/engine/report"
)

// ---- alphabets ----

var producesAlphabet = []string{
	mtJSON,
	mtText,
	"text/plain; charset=utf-8",
	mtXML,
	"application/json; charset=utf-8",
	mtUnreg,
}

var modes = []string{"json", "text", "none", "json-unreg"}

var responseSets = [][]string{
	{"200"}, {"201"}, {"204"}, {"default"}, {"200", "201"}, {"202", "404", "default"},
}

// Accept headers of the main sweep, as abstract lists of ranges (nil entry = header absent).
var acceptsMain = [][]Range{
	nil, // absent
	{{"*/*", 10}},
	{{mtJSON, 10}},
	{{mtText, 10}},
	{{mtXML, 10}},
	{{"text/*", 10}},
	{{"application/*", 10}},
	{{"image/png", 10}}, // admits nothing
	{{mtText, 5}, {mtJSON, 10}},
	{{mtJSON, 5}, {mtText, 10}},
	{{mtText, 10}, {mtJSON, 10}},
	{{mtJSON, 10}, {mtText, 10}},
	{{"*/*", 1}, {mtXML, 9}},
	{{"text/*", 5}, {mtJSON, 5}},
	{{mtJSON, 0}, {"*/*", 10}},
	{{mtUnreg, 10}},
}

// acceptsDeep: absent, every single range and every ordered pair of ranges over 7 media
// ranges x q in {1, 0.5, 0}.
func acceptsDeep() [][]Range {
	var atoms []Range
	for _, t := range []string{"*/*", mtJSON, mtText, mtXML, "text/*", "application/*", "image/png"} {
		for _, q := range []int{10, 5, 0} {
			atoms = append(atoms, Range{t, q})
		}
	}
	out := [][]Range{nil}
	for _, a := range atoms {
		out = append(out, []Range{a})
	}
	for _, a := range atoms {
		for _, b := range atoms {
			out = append(out, []Range{a, b})
		}
	}
	return out
}

type shape struct {
	Method, Body, Target string
}

var opShapes = []shape{
	{"GET", "", "op"}, {"HEAD", "", "op"}, {"DELETE", "", "op"}, {"POST", "", "op"}, {"POST", "json", "op"},
}

// requests that an earlier stage refuses (besides 406, which the Accept axis produces)
var stageShapes = []shape{
	{"POST", "csv", "op"},          // 415
	{"GET", "", "missing-param"},   // 422
	{"HEAD", "", "missing-param"},  // 422
	{"GET", "", "unknown-path"},    // 404
	{"HEAD", "", "unknown-path"},   // 404
	{"PATCH", "", "other-method"},  // 405
	{"DELETE", "", "unknown-path"}, // 404
}

// lists: every ordered list without repetition of 0..max entries of the alphabet.
func lists(n, max int) [][]int {
	out := [][]int{{}}
	var rec func(cur []int)
	rec = func(cur []int) {
		if len(cur) > 0 {
			out = append(out, append([]int(nil), cur...))
		}
		if len(cur) == max {
			return
		}
		for i := 0; i < n; i++ {
			dup := false
			for _, k := range cur {
				if k == i {
					dup = true
				}
			}
			if !dup {
				rec(append(cur, i))
			}
		}
	}
	rec(nil)
	return out
}

func ascending(l []int) bool {
	for i := 1; i < len(l); i++ {
		if l[i] < l[i-1] {
			return false
		}
	}
	return true
}

func configOf(c *Case) Config {
	cfg := Config{Mode: c.Mode, Produces: c.Produces, Where: c.Where, Responses: [][]string{c.Responses}, Hostile: c.Hostile}
	if c.Auth != nil {
		cfg.AuthCtor, cfg.AuthRealm, cfg.AuthAlts = c.Auth.Ctor, c.Auth.Realm, c.Auth.Alts
	}
	return cfg
}

// check decides one case from scratch (fresh API); it is what --replay runs.
func check(c Case) (class, what, label, observed string) {
	e := buildEnv(configOf(&c))
	o := e.serve(&c)
	class, what, label = judge(e, &c, o)
	return class, what, label, o.summary()
}

// shardStats is the per-environment batch of counters.
type shardStats struct {
	evals, nontrivial int64
	outcomes          map[string]int64
	firsts            map[string]any // first case of every situation seen in this shard
}

func (s *shardStats) run(r *report.R, e *env, c *Case) {
	o := e.serve(c)
	class, what, label := judge(e, c, o)
	s.evals++
	if class != "" {
		cc := *c
		cc.Produces = append([]string(nil), c.Produces...)
		cc.Responses = append([]string(nil), c.Responses...)
		cc.Accept = append([]Range(nil), c.Accept...)
		if c.Auth != nil {
			a := *c.Auth
			a.Alts = append([]string(nil), a.Alts...)
			a.States = append([]string(nil), a.States...)
			cc.Auth = &a
		}
		r.Fail(class, what, cc)
		s.nontrivial++
		s.outcomes["deviation/"+class]++
		return
	}
	s.outcomes[label]++
	if len(label) < 4 || label[:4] != "may/" {
		s.nontrivial++
	}
	if _, seen := s.firsts[label]; !seen {
		if s.firsts == nil {
			s.firsts = map[string]any{}
		}
		s.firsts[label] = map[string]any{"case": *c, "observed": o.summary(), "situation": label}
	}
}

// samples: one real case per situation label, taken from the shard of lowest rank (a fixed
// pseudo-random order of the shards rotated by VERIF_SEED), so that the choice does not
// depend on scheduling and the samples come from different configurations.
var samples = map[string]sampleOf{}
var sampleSeed uint32

func rank(shard int) uint32 { return (uint32(shard) + sampleSeed + 7) * 2654435761 }

type sampleOf struct {
	shard int
	v     any
}

func (s *shardStats) flush(r *report.R, mu *sync.Mutex, total map[string]int64, shard int) {
	r.Eval(s.evals)
	r.Nontrivial(s.nontrivial)
	mu.Lock()
	for k, v := range s.outcomes {
		total[k] += v
	}
	for k, v := range s.firsts {
		if old, ok := samples[k]; !ok || rank(shard) < rank(old.shard) {
			samples[k] = sampleOf{shard, v}
		}
	}
	mu.Unlock()
}

func main() {
	r := report.Start("C08", "exploration")
	// the live heap is a few API descriptions per worker; the front end's 2000% setting lets
	// the heap grow to gigabytes on a machine that is shared, for no measurable gain here
	debug.SetGCPercent(600)
	sampleSeed = uint32(r.Seed)
	if r.Replay != "" {
		var c Case
		r.LoadReplay(&c)
		var class, what, label, observed string
		if name, ok := strings.CutPrefix(c.Sweep, "default-realm:"); ok {
			security.DefaultRealmName = name
		}
		if c.Sweep == "seq" {
			class, what, label, observed = checkSeq(c)
		} else {
			class, what, label, observed = check(c)
		}
		fmt.Printf("replay %+v\n  observed: %s\n  situation: %s\n  class=%q %s\n", c, observed, label, class, what)
		if class != "" {
			r.Fail(class, what, c)
		}
		r.Eval(1)
		r.Nontrivial(1)
		r.Sample(c)
		r.Finish("replay of one case", false)
	}

	total := map[string]int64{}
	var mu sync.Mutex
	var envs int64
	done := func(st *shardStats, shard int) {
		st.flush(r, &mu, total, shard)
		mu.Lock()
		envs++
		mu.Unlock()
	}
	named := func(l []int) []string {
		out := make([]string, len(l))
		for j, x := range l {
			out[j] = producesAlphabet[x]
		}
		return out
	}

	defaultRealmSweep(r, done)

	// ---- sweep "main": full product ----
	// A shard is one API description (produces list x where it is declared); the four
	// default-producer modes share the parsed document (it does not depend on the mode).
	type docKey struct {
		where string
		list  []int
	}
	maxOp, maxGlobal := 2, 1
	if r.Thorough() {
		maxOp, maxGlobal = 3, 3
	}
	// quick leaves out two error classes and two Accept headers that thorough has
	outcomes, accepts := allOutcomes, acceptsMain
	if !r.Thorough() {
		outcomes = nil
		for _, o := range allOutcomes {
			if o != "err-405" && o != "err-custom" {
				outcomes = append(outcomes, o)
			}
		}
		accepts = nil
		for i, a := range acceptsMain {
			if i != 11 && i != 15 { // "application/json, text/plain" (mirror of #10) and "application/x-unreg"
				accepts = append(accepts, a)
			}
		}
	}
	var keysMain []docKey
	for _, l := range lists(len(producesAlphabet), maxOp) {
		keysMain = append(keysMain, docKey{"op", l})
	}
	for _, l := range lists(len(producesAlphabet), maxGlobal) {
		keysMain = append(keysMain, docKey{"global", l})
	}
	lsOp, lsGlobal := lists(len(producesAlphabet), maxOp), lists(len(producesAlphabet), maxGlobal)
	r.Set("axes_main", map[string]any{
		"default_producer_modes": modes,
		"produces_alphabet":      producesAlphabet,
		"produces_lists": fmt.Sprintf("every ordered list without repetition of 0..%d entries declared on the operation (%d lists) and of 0..%d entries declared globally (%d lists); typed entry point: all of them (the order is the produces argument of Respond); untyped entry point: the ascending ones (%d and %d), because the order of a declared list is lost in go-openapi/analysis",
			maxOp, len(lsOp), maxGlobal, len(lsGlobal), countAscending(lsOp), countAscending(lsGlobal)),
		"declared_at":          []string{"op", "global"},
		"response_sets":        responseSets,
		"request_shapes":       opShapes,
		"stage_failure_shapes": stageShapes,
		"accept_headers":       renderAll(accepts),
		"handler_outcomes":     outcomes,
		"entry_points":         []string{"untyped", "typed"},
	})
	enum.Parallel(len(keysMain), r.OutOfTime, func(i int) {
		k := keysMain[i]
		produces := named(k.list)
		doc, regs := loadDoc(Config{Produces: produces, Where: k.where, Responses: responseSets})
		vias := []string{"typed"}
		if ascending(k.list) {
			vias = []string{"untyped", "typed"}
		}
		for _, mode := range modes {
			e := buildEnvWith(Config{Mode: mode, Produces: produces, Where: k.where, Responses: responseSets}, doc, regs)
			st := &shardStats{outcomes: map[string]int64{}}
			c := Case{Sweep: "main", Mode: mode, Produces: produces, Where: k.where}
			for _, via := range vias {
				c.Via = via
				for _, acc := range accepts {
					c.NoAccept, c.Accept = acc == nil, acc
					for _, rs := range responseSets {
						c.Responses = rs
						for _, sh := range opShapes {
							c.Method, c.Body, c.Target = sh.Method, sh.Body, sh.Target
							for _, oc := range outcomes {
								c.Outcome = oc
								st.run(r, e, &c)
							}
						}
					}
					c.Responses = responseSets[0]
					c.Outcome = "string"
					for _, sh := range stageShapes {
						if via == "typed" && (sh.Target == "unknown-path" || sh.Target == "other-method") {
							continue // not routed: the typed entry point is never reached
						}
						c.Method, c.Body, c.Target = sh.Method, sh.Body, sh.Target
						st.run(r, e, &c)
					}
				}
			}
			done(st, i)
		}
	})

	// ---- sweep "deep-accept" (thorough): every single range and ordered pair of ranges ----
	if r.Thorough() {
		deep := acceptsDeep()
		ls2 := lists(len(producesAlphabet), 2)
		deepResponses := [][]string{{"200"}, {"204"}}
		deepOutcomes := []string{"string", "responder", "mw-error", "err-api"}
		r.Set("axes_deep_accept", map[string]any{
			"accept_headers":   fmt.Sprintf("absent + every single range + every ordered pair of ranges over 7 media ranges x q in {1, 0.5, 0}: %d headers", len(deep)),
			"produces_lists":   fmt.Sprintf("every ordered list of 0..2 entries, declared on the operation: %d", len(ls2)),
			"modes":            modes,
			"response_sets":    deepResponses,
			"methods":          []string{"GET", "HEAD"},
			"handler_outcomes": deepOutcomes,
			"entry_points":     []string{"untyped (ascending lists)", "typed"},
		})
		enum.Parallel(len(ls2), r.OutOfTime, func(i int) {
			produces := named(ls2[i])
			doc, regs := loadDoc(Config{Produces: produces, Where: "op", Responses: deepResponses})
			vias := []string{"typed"}
			if ascending(ls2[i]) {
				vias = []string{"untyped", "typed"}
			}
			for _, mode := range modes {
				e := buildEnvWith(Config{Mode: mode, Produces: produces, Where: "op", Responses: deepResponses}, doc, regs)
				st := &shardStats{outcomes: map[string]int64{}}
				c := Case{Sweep: "deep-accept", Mode: mode, Produces: produces, Where: "op", Target: "op"}
				for _, via := range vias {
					c.Via = via
					for _, acc := range deep {
						c.NoAccept, c.Accept = acc == nil, acc
						for _, rs := range deepResponses {
							c.Responses = rs
							for _, m := range []string{"GET", "HEAD"} {
								c.Method = m
								for _, oc := range deepOutcomes {
									c.Outcome = oc
									st.run(r, e, &c)
								}
							}
						}
					}
				}
				done(st, 100000+i)
			}
		})
	}

	// ---- sweep "auth": basic-auth protected operations ----
	type authKey struct {
		ctor, realm string
		produces    []string
	}
	realms := []string{"", "API", "custom", "my realm", `q"uote`, `back\slash`, "r\u00e9alm", "a,b"}
	var keysAuth []authKey
	authLists := [][]string{{mtJSON}, {mtText}, {"text/plain; charset=utf-8"}, {mtText, mtXML}}
	authModes := []string{"json", "none"}
	if r.Thorough() {
		authModes = modes
	}
	ctors := []string{"BasicAuth", "BasicAuthCtx", "BasicAuthRealm", "BasicAuthRealmCtx"}
	for _, ctor := range ctors {
		rl := realms
		if ctor == "BasicAuth" || ctor == "BasicAuthCtx" {
			rl = []string{""}
		}
		for _, realm := range rl {
			for _, p := range authLists {
				keysAuth = append(keysAuth, authKey{ctor, realm, p})
			}
		}
	}
	creds := []string{"none", "wrong", "malformed", "other-scheme", "right", "right-nil-principal"}
	authAccepts := [][]Range{nil, {{mtText, 10}}, {{mtJSON, 10}}, {{"image/png", 10}}, {{"*/*", 10}}}
	authOutcomes := []string{"string", "responder", "err-api"}
	authShapes := []shape{{"GET", "", "op"}, {"HEAD", "", "op"}, {"POST", "", "op"}, {"POST", "json", "op"}, {"GET", "", "missing-param"}}
	r.Set("axes_auth", map[string]any{
		"constructors": ctors,
		"realms":       realms,
		"credentials":  creds,
		"modes":        authModes,
		"produces":     authLists,
		"accept":       renderAll(authAccepts),
		"outcomes":     authOutcomes,
		"shapes":       authShapes,
		"entry_points": []string{"untyped", "typed", "routable"},
	})
	authResponses := [][]string{{"200"}}
	enum.Parallel(len(keysAuth), r.OutOfTime, func(i int) {
		k := keysAuth[i]
		doc, regs := loadDoc(Config{Produces: k.produces, Where: "op", Responses: authResponses, AuthCtor: k.ctor})
		for _, mode := range authModes {
			e := buildEnvWith(Config{Mode: mode, Produces: k.produces, Where: "op", Responses: authResponses, AuthCtor: k.ctor, AuthRealm: k.realm}, doc, regs)
			st := &shardStats{outcomes: map[string]int64{}}
			c := Case{Sweep: "auth", Mode: mode, Produces: k.produces, Where: "op", Responses: []string{"200"}}
			for _, via := range []string{"untyped", "typed", "routable"} {
				c.Via = via
				for _, cr := range creds {
					c.Auth = &Auth{Ctor: k.ctor, Realm: k.realm, Creds: cr}
					for _, acc := range authAccepts {
						c.NoAccept, c.Accept = acc == nil, acc
						for _, sh := range authShapes {
							c.Method, c.Body, c.Target = sh.Method, sh.Body, sh.Target
							for _, oc := range authOutcomes {
								c.Outcome = oc
								st.run(r, e, &c)
							}
						}
					}
				}
			}
			done(st, 200000+i)
		}
	})

	altSweep(r, done)
	surfaceSweep(r, done, outcomes, accepts)
	edgeSweep(r, done)
	seqSweep(r, done)
	orderSweep(r, done, named)
	hostileSweep(r, done, named, accepts)

	for _, k := range sortedKeys(total) {
		r.Outcome(k, total[k])
	}
	// up to 12 samples, one per situation, rotating with the seed
	labels := make([]string, 0, len(samples))
	for k := range samples {
		labels = append(labels, k)
	}
	sort.Strings(labels)
	picked := map[int]bool{}
	for i := 0; i < len(labels) && len(picked) < 12; i++ {
		off := int(r.Seed % int64(len(labels)))
		if off < 0 {
			off += len(labels)
		}
		step := len(labels)/12 + 1
		k := (off + i*step) % len(labels)
		if !picked[k] {
			picked[k] = true
			r.Sample(samples[labels[k]].v)
		}
	}
	r.Set("environments_built", envs)
	r.Assume(
		"the reference negotiation (model.go: bestOffers/allowedTypes) is the definition of 'the negotiated media type': C07's rule up to the tie-break, the tie-break by offer order only where the harness owns the order (typed entry point)",
		"recording producers never fail; Accept headers are well-formed, parameter-free and use q in tenths (C07 owns the rest); produces entries are lower case",
		"typed entry point = the call sequence of a go-swagger generated handler (RouteInfo, Authorize, BindValidRequest, Respond) written in the harness",
	)
	r.Finish("every element of the stated products (sweeps main, deep-accept [thorough], auth, auth-alts, surface, default-realm, edge, order3, hostile) is served once by the real Context (APIHandler of the untyped API; the typed call sequence ending in Context.Respond; sweep surface: the same call sequence behind a hand-written RoutableAPI served by NewRoutableContext, Context.Respond called directly without a matched route, Context.NotFound) and judged by the reference; sweep seq: every ordered pair (thorough: also every ordered triple over a smaller alphabet) of steps (operation x handler outcome x Accept x entry point) over a description whose operations have no / a duplicated / a distinct operationId and declare different success codes and produces lists is served by ONE fresh Context, plus one walk per description that passes through every ordered pair on a single Context; every step is judged by the reference AND must give exactly the observation (status, headers, body, producer / Responder / error-responder calls) the same step gives as the first request of a fresh instance; sweep order3: every ordered list of exactly 3 distinct produces entries (the API default first, in the MIDDLE, last or absent) is the produces argument of Context.Respond (typed call sequence, and direct calls without a matched route); sweep hostile: a hostile caller asks API.ProducersFor for every non-empty subset of the registered media types and overwrites every map it is given and every slice it passed in (also the produces argument of Respond, once Respond has returned) - between the registrations and NewContext or right after NewContext, and again after every request - and every response must still be written by the producer REGISTERED for the negotiated type; one evaluation = one request; non-trivial = at least one MUST clause of the property applied to the case (its situation label does not start with 'may/') or, in sweep seq, the request was not the first one of its Context (cases are distinct by construction: the enumerator never repeats a (configuration, request, outcome, entry point) tuple nor a sequence)", true)
}

func countAscending(ls [][]int) int {
	n := 0
	for _, l := range ls {
		if ascending(l) {
			n++
		}
	}
	return n
}

func renderAll(as [][]Range) []string {
	out := make([]string, len(as))
	for i, a := range as {
		if a == nil {
			out[i] = "(absent)"
		} else {
			out[i] = renderAccept(a)
		}
	}
	return out
}

// ---- sweep "seq": sequences of requests on ONE Context ----

// seqEnv is a fresh instance (API, Context, router, handler) of the sequence description.
func seqEnv(doc *loads.Document, regs []opReg, mode string) *env {
	return buildEnvWith(Config{Mode: mode, NoDocs: true}, doc, regs)
}

// serveSeq serves the steps one after the other on e. base(i) is the signature step i has
// as the first request of a fresh instance. It returns at the first step that the
// reference rejects or whose observation differs from the fresh one.
func serveSeq(e *env, mode, ids string, steps []Step, base func(i int) string, st *shardStats) (k int, class, what, label, observed string) {
	for i, s := range steps {
		c := stepCase(mode, ids, s)
		o := e.serve(&c)
		cl, wh, lb := judge(e, &c, o)
		sig := o.signature()
		if st != nil {
			st.evals++
		}
		fresh := base(i)
		switch {
		case cl != "" && sig != fresh:
			return i, cl + "/history-dependent", fmt.Sprintf("step %d of the sequence: %s; as the first request of a fresh instance the same step gives: %s", i+1, wh, fresh), "", o.summary()
		case cl != "":
			return i, cl, fmt.Sprintf("step %d of the sequence: %s", i+1, wh), "", o.summary()
		case sig != fresh:
			return i, "history-dependent-response", fmt.Sprintf("step %d of the sequence (%s %s, outcome %s, %s) depends on the requests served before it by the same Context: observed %s; as the first request of a fresh instance: %s", i+1, c.Method, c.Path, c.Outcome, c.Via, sig, fresh), "", o.summary()
		}
		label, observed = lb, o.summary()
		if st != nil {
			key := "seq/" + lb
			if i > 0 {
				key = "seq-after-history/" + lb
			}
			st.outcomes[key]++
			if i > 0 || len(lb) < 4 || lb[:4] != "may/" {
				st.nontrivial++
			}
			if _, seen := st.firsts[key]; !seen && i > 0 {
				if st.firsts == nil {
					st.firsts = map[string]any{}
				}
				st.firsts[key] = map[string]any{"case": Case{Sweep: "seq", Mode: mode, IDs: ids, Steps: append([]Step(nil), steps[:i+1]...)}, "observed": observed, "situation": key}
			}
		}
	}
	return -1, "", "", label, observed
}

// checkSeq replays one sequence from scratch: fresh baselines, then the sequence on one Context.
func checkSeq(c Case) (class, what, label, observed string) {
	doc, regs := loadSeqDoc(c.IDs)
	base := func(i int) string {
		e := seqEnv(doc, regs, c.Mode)
		sc := stepCase(c.Mode, c.IDs, c.Steps[i])
		return e.serve(&sc).signature()
	}
	_, class, what, label, observed = serveSeq(seqEnv(doc, regs, c.Mode), c.Mode, c.IDs, c.Steps, base, nil)
	return class, what, label, observed
}

// allPairsWalk returns a sequence over 0..n-1 in which every ordered pair (a, b), a == b
// included, occurs as two consecutive elements: an Eulerian circuit of the complete
// directed graph with loops (Hierholzer), n*n+1 elements.
func allPairsWalk(n int) []int {
	next := make([]int, n) // next unused successor of every node
	var stack, out []int
	stack = append(stack, 0)
	for len(stack) > 0 {
		v := stack[len(stack)-1]
		if next[v] < n {
			w := next[v]
			next[v]++
			stack = append(stack, w)
		} else {
			out = append(out, v)
			stack = stack[:len(stack)-1]
		}
	}
	for i, j := 0, len(out)-1; i < j; i, j = i+1, j-1 {
		out[i], out[j] = out[j], out[i]
	}
	return out
}

func seqSweep(r *report.R, done func(*shardStats, int)) {
	absent := []Range(nil)
	nothing := []Range{{"image/png", 10}}
	mk := func(outcomes []string, accepts [][]Range) []Step {
		var out []Step
		for op := range seqOps {
			for _, oc := range outcomes {
				for _, a := range accepts {
					for _, via := range []string{"untyped", "typed"} {
						out = append(out, Step{Op: op, Outcome: oc, NoAccept: a == nil, Accept: a, Via: via})
					}
				}
			}
		}
		return out
	}
	// the second Accept header moves every operation to the API default type (or to 406
	// where there is none), so consecutive steps also collide on the negotiated format
	jsonOnly := []Range{{mtJSON, 10}}
	pairAlpha := mk([]string{"string", "responder", "err-api"}, [][]Range{absent})
	walkAlpha := mk([]string{"string", "responder", "err-api"}, [][]Range{absent, jsonOnly})
	tripleAlpha := []Step(nil)
	seqModes := []string{"json", "none"}
	if r.Thorough() {
		all5 := []string{"string", "nil", "responder", "mw-error", "err-api"}
		pairAlpha = mk(all5, [][]Range{absent, jsonOnly})
		walkAlpha = mk(all5, [][]Range{absent, jsonOnly, nothing})
		tripleAlpha = mk([]string{"string", "err-api"}, [][]Range{absent})
		seqModes = modes
	}
	alphas := [][]Step{pairAlpha, tripleAlpha, walkAlpha}
	r.Set("axes_seq", map[string]any{
		"operations":       seqOps,
		"operation_ids":    idVariants,
		"modes":            seqModes,
		"pair_alphabet":    fmt.Sprintf("%d steps = 5 operations x outcomes x Accept x {untyped, typed}; all %d ordered pairs, each on one fresh Context", len(pairAlpha), len(pairAlpha)*len(pairAlpha)),
		"triple_alphabet":  fmt.Sprintf("%d steps; all %d ordered triples (thorough only, modes json and none)", len(tripleAlpha), len(tripleAlpha)*len(tripleAlpha)*len(tripleAlpha)),
		"walk":             fmt.Sprintf("one walk of %d requests per (ids, mode) on a single Context passing through every ordered pair of a %d-step alphabet (the pair alphabet's outcomes with more Accept headers)", len(walkAlpha)*len(walkAlpha)+1, len(walkAlpha)),
		"steps_walk":       walkAlpha,
		"steps_pairs":      pairAlpha,
		"differential":     "every step must give the observation it gives as the first request of a fresh instance",
		"offer_order_note": "every operation declares at most one media type besides the API default, so responses do not depend on the map order in which go-openapi/analysis returns a produces list",
	})

	type cfgKey struct{ ids, mode string }
	var cfgs []cfgKey
	for _, ids := range idVariants {
		for _, m := range seqModes {
			cfgs = append(cfgs, cfgKey{ids, m})
		}
	}
	docs := map[string]*loads.Document{}
	regsOf := map[string][]opReg{}
	for _, ids := range idVariants {
		docs[ids], regsOf[ids] = loadSeqDoc(ids)
	}
	// baselines: every step of both alphabets as the first request of a fresh instance.
	// The documents are only read from here on, so the workers share them.
	type baseKey struct {
		cfg, alpha, i int // alpha: 0 pairs, 1 triples, 2 walk
	}
	baseline := map[baseKey]string{}
	var bmu sync.Mutex
	enum.Parallel(len(cfgs), nil, func(ci int) {
		k := cfgs[ci]
		st := &shardStats{outcomes: map[string]int64{}}
		for ai, steps := range alphas {
			for i, s := range steps {
				e := seqEnv(docs[k.ids], regsOf[k.ids], k.mode)
				c := stepCase(k.mode, k.ids, s)
				o := e.serve(&c)
				sig := o.signature()
				st.evals++
				if cl, wh, lb := judge(e, &c, o); cl != "" {
					r.Fail(cl, "first request of a fresh instance: "+wh, Case{Sweep: "seq", Mode: k.mode, IDs: k.ids, Steps: []Step{s}})
				} else {
					st.outcomes["seq/"+lb]++
					if len(lb) < 4 || lb[:4] != "may/" {
						st.nontrivial++
					}
				}
				bmu.Lock()
				baseline[baseKey{ci, ai, i}] = sig
				bmu.Unlock()
			}
		}
		done(st, 300000+ci)
	})

	fail := func(k cfgKey, steps []Step, at int, class, what string) {
		r.Fail(class, what, Case{Sweep: "seq", Mode: k.mode, IDs: k.ids, Steps: append([]Step(nil), steps[:at+1]...)})
	}

	// pairs: shard = (configuration, first step)
	n := len(pairAlpha)
	enum.Parallel(len(cfgs)*n, r.OutOfTime, func(x int) {
		ci, a := x/n, x%n
		k := cfgs[ci]
		st := &shardStats{outcomes: map[string]int64{}}
		for b := 0; b < n; b++ {
			steps := []Step{pairAlpha[a], pairAlpha[b]}
			idx := []int{a, b}
			e := seqEnv(docs[k.ids], regsOf[k.ids], k.mode)
			at, class, what, _, _ := serveSeq(e, k.mode, k.ids, steps, func(i int) string { return baseline[baseKey{ci, 0, idx[i]}] }, st)
			if class != "" {
				fail(k, steps, at, class, what)
				st.nontrivial++
				st.outcomes["deviation/"+class]++
			}
		}
		done(st, 310000+x)
	})

	// triples (thorough): shard = (configuration, first step); modes json and none
	if m := len(tripleAlpha); m > 0 {
		enum.Parallel(len(cfgs)*m, r.OutOfTime, func(x int) {
			ci, a := x/m, x%m
			k := cfgs[ci]
			if k.mode != "json" && k.mode != "none" {
				return
			}
			st := &shardStats{outcomes: map[string]int64{}}
			for b := 0; b < m; b++ {
				for c3 := 0; c3 < m; c3++ {
					steps := []Step{tripleAlpha[a], tripleAlpha[b], tripleAlpha[c3]}
					idx := []int{a, b, c3}
					e := seqEnv(docs[k.ids], regsOf[k.ids], k.mode)
					at, class, what, _, _ := serveSeq(e, k.mode, k.ids, steps, func(i int) string { return baseline[baseKey{ci, 1, idx[i]}] }, st)
					if class != "" {
						fail(k, steps, at, class, what)
						st.nontrivial++
						st.outcomes["deviation/"+class]++
					}
				}
			}
			done(st, 400000+x)
		})
	}

	// walks: one Context per configuration serves a sequence that contains every ordered pair
	walk := allPairsWalk(len(walkAlpha))
	enum.Parallel(len(cfgs), r.OutOfTime, func(ci int) {
		k := cfgs[ci]
		st := &shardStats{outcomes: map[string]int64{}}
		steps := make([]Step, len(walk))
		for i, w := range walk {
			steps[i] = walkAlpha[w]
		}
		e := seqEnv(docs[k.ids], regsOf[k.ids], k.mode)
		at, class, what, _, _ := serveSeq(e, k.mode, k.ids, steps, func(i int) string { return baseline[baseKey{ci, 2, walk[i]}] }, st)
		if class != "" {
			// the whole prefix is the replayable case (the pair sweep reports the short ones)
			fail(k, steps, at, class+"/long-history", what)
			st.nontrivial++
			st.outcomes["deviation/"+class+"/long-history"]++
		}
		done(st, 500000+ci)
	})
}

// ---- sweep "order3": where the API default stands in an explicitly ordered produces list ----
//
// Lists of one and two entries (sweep main, quick) have no MIDDLE position. Here every
// ordered list of exactly three distinct entries is handed to Context.Respond by the entry
// points whose list order the harness owns (a list declared in the description loses its
// order in go-openapi/analysis): the reference offers the API default last wherever it is
// listed, so on an Accept tie every other listed type that has a producer wins over it.
func orderSweep(r *report.R, done func(*shardStats, int), named func([]int) []string) {
	var ls [][]int
	for _, l := range lists(len(producesAlphabet), 3) {
		if len(l) == 3 {
			ls = append(ls, l)
		}
	}
	entries := []struct{ via, direct string }{{"typed", ""}, {"direct", "nil-route"}, {"direct", "empty-route"}}
	outcomes := []string{"string", "responder", "err-api"}
	resp := [][]string{{"200"}}
	r.Set("axes_order3", map[string]any{
		"produces_lists":   fmt.Sprintf("every ordered list of exactly 3 distinct entries of the produces alphabet: %d (the API default first / in the middle / last / absent)", len(ls)),
		"modes":            modes,
		"accept_headers":   renderAll(acceptsMain),
		"handler_outcomes": outcomes,
		"entry_points":     []string{"typed", "direct nil-route", "direct empty-route"},
		"method":           "GET",
		"responses":        resp,
	})
	enum.Parallel(len(ls), r.OutOfTime, func(i int) {
		produces := named(ls[i])
		doc, regs := loadDoc(Config{Produces: produces, Where: "op", Responses: resp})
		for _, mode := range modes {
			e := buildEnvWith(Config{Mode: mode, Produces: produces, Where: "op", Responses: resp, NoDocs: true}, doc, regs)
			st := &shardStats{outcomes: map[string]int64{}}
			c := Case{Sweep: "order3", Mode: mode, Produces: produces, Where: "op", Responses: resp[0], Target: "op", Method: "GET"}
			for _, en := range entries {
				c.Via, c.Direct = en.via, en.direct
				for _, acc := range acceptsMain {
					c.NoAccept, c.Accept = acc == nil, acc
					for _, oc := range outcomes {
						c.Outcome = oc
						st.run(r, e, &c)
					}
				}
			}
			done(st, 700000+i)
		}
	})
}

// ---- sweep "hostile": the caller treats what the API hands out as its own ----
//
// See env.hostile. The event happens between the registrations and NewContext (so the
// routes are built afterwards) or right after NewContext, and again after every request;
// all requests of a shard are served by ONE Context. The oracle is the ordinary reference:
// the body is written by the producer registered for the negotiated type (identity), so a
// map of the API that the caller could reach shows as a foreign producer or as none.
func hostileSweep(r *report.R, done func(*shardStats, int), named func([]int) []string, accepts [][]Range) {
	ls := lists(len(producesAlphabet), 2)
	when := []string{"before-context", "after-context"}
	resp := [][]string{{"200"}, {"204"}}
	outcomes := []string{"string", "nil", "responder", "err-api"}
	methods := []string{"GET", "HEAD"}
	entries := []struct{ via, direct string }{{"untyped", ""}, {"typed", ""}, {"direct", "nil-route"}}
	r.Set("axes_hostile", map[string]any{
		"event":            "API.ProducersFor asked for every non-empty subset of the registered media types (3 or 7 subsets); every entry of every returned map replaced by a foreign producer, a foreign key added, the argument slice overwritten; the produces slice handed to Respond overwritten after Respond returned",
		"event_at":         when,
		"and":              "after every request (one Context per (list, mode, event_at))",
		"produces_lists":   fmt.Sprintf("every ordered list of 0..2 entries declared on the operation: %d (untyped entry point: the ascending ones)", len(ls)),
		"modes":            modes,
		"accept_headers":   renderAll(accepts),
		"handler_outcomes": outcomes,
		"methods":          methods,
		"responses":        resp,
		"entry_points":     []string{"untyped", "typed", "direct nil-route"},
	})
	enum.Parallel(len(ls), r.OutOfTime, func(i int) {
		produces := named(ls[i])
		doc, regs := loadDoc(Config{Produces: produces, Where: "op", Responses: resp})
		for _, mode := range modes {
			for _, w := range when {
				e := buildEnvWith(Config{Mode: mode, Produces: produces, Where: "op", Responses: resp, NoDocs: true, Hostile: w}, doc, regs)
				st := &shardStats{outcomes: map[string]int64{}}
				c := Case{Sweep: "hostile", Mode: mode, Produces: produces, Where: "op", Target: "op", Hostile: w}
				for _, en := range entries {
					if en.via == "untyped" && !ascending(ls[i]) {
						continue
					}
					c.Via, c.Direct = en.via, en.direct
					for _, acc := range accepts {
						c.NoAccept, c.Accept = acc == nil, acc
						for _, rs := range resp {
							c.Responses = rs
							for _, m := range methods {
								c.Method = m
								for _, oc := range outcomes {
									c.Outcome = oc
									st.run(r, e, &c)
								}
							}
						}
					}
				}
				done(st, 710000+i)
			}
		}
	})
}

// ---- sweep "auth-alts": several security alternatives (OR), none / some failing ----

func altSweep(r *report.R, done func(*shardStats, int)) {
	schemes := []string{"basic", "key1", "key2"}
	var altLists [][]string
	for _, l := range lists(len(schemes), 3) {
		if len(l) >= 2 {
			al := make([]string, len(l))
			for i, x := range l {
				al[i] = schemes[x]
			}
			altLists = append(altLists, al)
		}
	}
	states := []string{"absent", "fail", "ok"}
	ctors := []string{"BasicAuthRealm", "BasicAuthRealmCtx"}
	altModes := []string{"json"}
	if r.Thorough() {
		altModes = []string{"json", "none"}
	}
	accepts := [][]Range{nil, {{mtText, 10}}, {{"image/png", 10}}}
	shapes := []shape{{"GET", "", "op"}, {"HEAD", "", "op"}, {"POST", "json", "op"}}
	outcomes := []string{"string", "err-api"}
	r.Set("axes_auth_alts", map[string]any{
		"schemes":            "basic (realm 'custom'; refusal = the authenticate function's 401 error), key1 (apiKey header X-Key1; refusal = its own 403 error), key2 (X-Key2; refusal = its own 429 error)",
		"alternative_lists":  fmt.Sprintf("every ordered list of 2..3 distinct single-scheme alternatives: %d", len(altLists)),
		"per_alternative":    states,
		"basic_constructors": ctors,
		"modes":              altModes,
		"accept":             renderAll(accepts),
		"shapes":             shapes,
		"outcomes":           outcomes,
		"entry_points":       []string{"untyped", "typed", "routable"},
		"oracle":             "handler did not run: error responder invoked once; when some alternative returned an error, with one of those errors (identity); Basic challenge naming the realm when the basic alternative rejected credentials",
	})
	type key struct {
		ctor string
		alts []string
	}
	var ks []key
	for _, ct := range ctors {
		for _, al := range altLists {
			ks = append(ks, key{ct, al})
		}
	}
	produces := []string{mtText}
	resp := [][]string{{"200"}}
	enum.Parallel(len(ks), r.OutOfTime, func(i int) {
		k := ks[i]
		doc, regs := loadDoc(Config{Produces: produces, Where: "op", Responses: resp, AuthCtor: k.ctor, AuthAlts: k.alts})
		for _, mode := range altModes {
			e := buildEnvWith(Config{Mode: mode, Produces: produces, Where: "op", Responses: resp, AuthCtor: k.ctor, AuthRealm: "custom", AuthAlts: k.alts}, doc, regs)
			st := &shardStats{outcomes: map[string]int64{}}
			c := Case{Sweep: "auth-alts", Mode: mode, Produces: produces, Where: "op", Responses: []string{"200"}}
			sizes := make([]int, len(k.alts))
			for j := range sizes {
				sizes[j] = len(states)
			}
			enum.Product(sizes, func(idx []int) {
				ss := make([]string, len(idx))
				for j, x := range idx {
					ss[j] = states[x]
				}
				c.Auth = &Auth{Ctor: k.ctor, Realm: "custom", Alts: k.alts, States: ss}
				for _, via := range []string{"untyped", "typed", "routable"} {
					c.Via = via
					for _, acc := range accepts {
						c.NoAccept, c.Accept = acc == nil, acc
						for _, sh := range shapes {
							c.Method, c.Body, c.Target = sh.Method, sh.Body, sh.Target
							for _, oc := range outcomes {
								c.Outcome = oc
								st.run(r, e, &c)
							}
						}
					}
				}
			})
			done(st, 250000+i)
		}
	})
}

// ---- sweep "surface": the other exported ways to the same behaviour ----
//
//	direct    Context.Respond(rw, r, produces, route, data) called without a matched route:
//	          route nil, route without Operation, and nil route on a request whose context
//	          carries the format Context.ResponseFormat negotiated (the cached-format path)
//	notfound  Context.NotFound
//	routable  the description served by middleware.NewRoutableContext over a hand-written
//	          RoutableAPI (HandlerFor / ServeErrorFor / ProducersFor ... as generated servers
//	          implement them), operation handlers running the typed call sequence
//
// All judged by the same reference; without an operation there is no declared success
// status, so the status of a direct call is MAY.
func surfaceSweep(r *report.R, done func(*shardStats, int), outcomes []string, accepts [][]Range) {
	ls := lists(len(producesAlphabet), 2)
	directs := []string{"nil-route", "empty-route", "nil-route+cached-format"}
	directMethods := []string{"GET", "HEAD", "POST"}
	r.Set("axes_surface", map[string]any{
		"produces_lists":      fmt.Sprintf("every ordered list of 0..2 entries (%d) for direct and notfound; the %d lists of 0..1 entries for routable", len(ls), 1+len(producesAlphabet)),
		"modes":               modes,
		"direct_variants":     directs,
		"direct_methods":      directMethods,
		"accept_headers":      renderAll(accepts),
		"handler_outcomes":    outcomes,
		"routable_responses":  responseSets,
		"routable_shapes":     opShapes,
		"routable_stage_fail": stageShapes,
	})
	enum.Parallel(len(ls), r.OutOfTime, func(i int) {
		produces := make([]string, len(ls[i]))
		for j, x := range ls[i] {
			produces[j] = producesAlphabet[x]
		}
		doc, regs := loadDoc(Config{Produces: produces, Where: "op", Responses: responseSets})
		for _, mode := range modes {
			e := buildEnvWith(Config{Mode: mode, Produces: produces, Where: "op", Responses: responseSets, NoDocs: true}, doc, regs)
			st := &shardStats{outcomes: map[string]int64{}}
			c := Case{Sweep: "surface", Mode: mode, Produces: produces, Where: "op", Responses: responseSets[0], Target: "op"}
			for _, acc := range accepts {
				c.NoAccept, c.Accept = acc == nil, acc
				c.Via = "direct"
				for _, d := range directs {
					c.Direct = d
					for _, m := range directMethods {
						c.Method = m
						for _, oc := range outcomes {
							c.Outcome = oc
							st.run(r, e, &c)
						}
					}
				}
				c.Direct, c.Via, c.Outcome = "", "notfound", "string"
				for _, m := range []string{"GET", "HEAD"} {
					c.Method = m
					st.run(r, e, &c)
				}
				if len(produces) <= 1 {
					c.Via = "routable"
					for _, rs := range responseSets {
						c.Responses = rs
						for _, sh := range opShapes {
							c.Method, c.Body, c.Target = sh.Method, sh.Body, sh.Target
							for _, oc := range outcomes {
								c.Outcome = oc
								st.run(r, e, &c)
							}
						}
					}
					c.Responses, c.Outcome = responseSets[0], "string"
					for _, sh := range stageShapes {
						c.Method, c.Body, c.Target = sh.Method, sh.Body, sh.Target
						st.run(r, e, &c)
					}
					c.Body, c.Target = "", "op"
				}
			}
			done(st, 260000+i)
		}
	})
}

// ---- sweep "default-realm": the package variable security.DefaultRealmName ----
//
// Runs alone, before every other sweep (the variable is process wide): with the variable
// set to another name, authenticators built without a realm of their own must challenge
// with that name. The requests are served while the variable still has the value the
// authenticators were built under, so the oracle does not depend on when it is read.
func defaultRealmSweep(r *report.R, done func(*shardStats, int)) {
	names := []string{"Other realm", `quo"ted`}
	r.Set("axes_default_realm", map[string]any{
		"DefaultRealmName": names,
		"constructors":     []string{"BasicAuth", "BasicAuthCtx", `BasicAuthRealm("")`, `BasicAuthRealmCtx("")`},
		"credentials":      []string{"none", "wrong", "right"},
		"entry_points":     []string{"untyped", "typed", "routable"},
	})
	old := security.DefaultRealmName
	defer func() { security.DefaultRealmName = old }()
	produces := []string{mtText}
	resp := [][]string{{"200"}}
	st := &shardStats{outcomes: map[string]int64{}}
	for _, name := range names {
		security.DefaultRealmName = name
		for _, ctor := range []string{"BasicAuth", "BasicAuthCtx", "BasicAuthRealm", "BasicAuthRealmCtx"} {
			e := buildEnv(Config{Mode: "json", Produces: produces, Where: "op", Responses: resp, AuthCtor: ctor})
			c := Case{Sweep: "default-realm:" + name, Mode: "json", Produces: produces, Where: "op", Responses: resp[0], Target: "op", NoAccept: true, Outcome: "string"}
			for _, via := range []string{"untyped", "typed", "routable"} {
				c.Via = via
				for _, cr := range []string{"none", "wrong", "right"} {
					c.Auth = &Auth{Ctor: ctor, Creds: cr}
					for _, m := range []string{"GET", "HEAD"} {
						c.Method = m
						st.run(r, e, &c)
					}
				}
			}
		}
	}
	done(st, 240000)
}

// ---- sweep "edge": rare but legal values of every axis, crossed with reduced other axes ----

const mtVnd = "application/vnd.api+json" // a registered type whose name has '.', '-' and '+'

// edgeProduces: spellings and shapes of produces entries the ordinary alphabet lacks.
var edgeProduces = []string{
	"text/plain;charset=utf-8",                 // compact: no optional space after ';'
	"text/plain;\tcharset=utf-8",               // TAB as the optional whitespace
	"text/plain; charset=utf-8; format=flowed", // several parameters
	"text/plain; Charset=UTF-8",                // parameter name and value in another case
	`text/plain; x="a;b=c"`,                    // quoted parameter value containing ';' and '='
	"text/plain;",                              // empty parameter list
	"text/plain ; charset=utf-8",               // optional whitespace BEFORE the ';' (RFC 7231 3.1.1.1: OWS ";" OWS)
	"text/plain\t;charset=utf-8",               // the same with TAB
	mtVnd,                                      // name with '.', '-', '+'
	mtVnd + ";charset=utf-8",
	"text/plain2", // a name that has a registered name as prefix (no producer of its own)
	"text/pla",    // a name that is a prefix of a registered name (no producer of its own)
}

func edgeSweep(r *report.R, done func(*shardStats, int)) {
	plain := func(t string) []Range { return []Range{{t, 10}} }
	edgeAccepts := [][]Range{nil, plain("*/*"), plain(mtText), plain("text/*"), plain(mtVnd), plain("application/*"), plain("text/plain2"), plain("image/png"),
		{{mtText, 5}, {mtVnd, 10}}, {{"text/*", 5}, {mtJSON, 5}}}
	styles := []string{"compact", "spaced", "tab", "q3"}
	edgeOutcomes := []string{"empty-string", "zero", "nil-slice", "empty-slice", "nil-pointer", "err-typed-nil"}
	edgeResponses := [][]string{{"200"}, {"204"}, {"299"}, {"200", "204"}, {"226", "299"}}
	edgeMethods := []string{"GET", "HEAD", "POST", "PUT", "PATCH", "DELETE", "OPTIONS"}
	long := strings.Repeat("r", 300)
	edgeRealms := []string{" ", "%s", "100%", "%%", "{x}", "a;b=c", "a=b&c", "tab\there", "line\nbreak", "cr\rlf\n", "nul\x00", "del\x7f", "\xff\xfe", "\U0001F600", "a\u2028b", "\ufeffbom", "\U0001F600\"\\", long}
	edgeCreds := []string{"wrong-lowercase-scheme", "wrong-uppercase-scheme", "wrong-empty-user", "wrong-colon-in-password", "wrong-non-ascii"}
	vias := []string{"untyped", "typed", "routable"}
	r.Set("axes_edge", map[string]any{
		"produces_spellings": edgeProduces,
		"produces_lists":     "for every edge entry e: [e], [e, json], [json, e], [e, text/plain], [text/plain, e], [xml, e]",
		"accept":             renderAll(edgeAccepts),
		"accept_spellings":   styles,
		"handler_values":     edgeOutcomes,
		"response_sets":      edgeResponses,
		"methods":            edgeMethods,
		"realms":             fmt.Sprintf("%q", edgeRealms),
		"credentials":        edgeCreds,
		"entry_points":       append(append([]string(nil), vias...), "direct"),
	})

	// (1) produces spellings
	type pk struct{ list []string }
	var pks []pk
	for _, e := range edgeProduces {
		pks = append(pks, pk{[]string{e}}, pk{[]string{e, mtJSON}}, pk{[]string{mtJSON, e}}, pk{[]string{e, mtText}}, pk{[]string{mtText, e}}, pk{[]string{mtXML, e}})
	}
	resp200 := [][]string{{"200"}}
	enum.Parallel(len(pks), r.OutOfTime, func(i int) {
		produces := pks[i].list
		doc, regs := loadDoc(Config{Produces: produces, Where: "op", Responses: resp200})
		for _, mode := range modes {
			e := buildEnvWith(Config{Mode: mode, Produces: produces, Where: "op", Responses: resp200, Extra: []string{mtVnd}, NoDocs: true}, doc, regs)
			st := &shardStats{outcomes: map[string]int64{}}
			c := Case{Sweep: "edge", Mode: mode, Produces: produces, Where: "op", Responses: resp200[0], Target: "op"}
			for _, acc := range edgeAccepts {
				c.NoAccept, c.Accept = acc == nil, acc
				for _, m := range []string{"GET", "HEAD"} {
					c.Method = m
					for _, oc := range []string{"string", "responder", "mw-error", "err-api"} {
						c.Outcome = oc
						for _, via := range vias {
							c.Via, c.Direct = via, ""
							st.run(r, e, &c)
						}
						c.Via, c.Direct = "direct", "nil-route"
						st.run(r, e, &c)
					}
				}
			}
			done(st, 600000+i)
		}
	})

	// (2) Accept spellings, (3) handler values, response sets and methods: one description each
	lists2 := [][]string{{mtText, mtXML}, {"text/plain; charset=utf-8"}, {mtText, mtJSON}}
	enum.Parallel(len(lists2), r.OutOfTime, func(i int) {
		produces := lists2[i]
		doc, regs := loadDoc(Config{Produces: produces, Where: "op", Responses: edgeResponses, Methods: edgeMethods})
		for _, mode := range []string{"json", "none"} {
			e := buildEnvWith(Config{Mode: mode, Produces: produces, Where: "op", Responses: edgeResponses, Methods: edgeMethods, NoDocs: true}, doc, regs)
			st := &shardStats{outcomes: map[string]int64{}}
			c := Case{Sweep: "edge", Mode: mode, Produces: produces, Where: "op", Responses: edgeResponses[0], Target: "op", Method: "GET"}
			for _, style := range styles {
				c.AcceptStyle = style
				for _, acc := range acceptsMain {
					if acc == nil {
						continue
					}
					c.NoAccept, c.Accept = false, acc
					for _, oc := range []string{"string", "err-api"} {
						c.Outcome = oc
						for _, via := range vias {
							c.Via = via
							st.run(r, e, &c)
						}
					}
				}
			}
			c.AcceptStyle = ""
			for _, acc := range [][]Range{nil, plain(mtText)} {
				c.NoAccept, c.Accept = acc == nil, acc
				for _, rs := range edgeResponses {
					c.Responses = rs
					for _, m := range edgeMethods {
						c.Method = m
						c.Body = ""
						if m == "PUT" || m == "PATCH" {
							c.Body = "json"
						}
						for _, oc := range append([]string{"string", "nil", "responder"}, edgeOutcomes...) {
							c.Outcome = oc
							for _, via := range vias {
								c.Via = via
								st.run(r, e, &c)
							}
						}
					}
				}
			}
			done(st, 610000+i)
		}
	})

	// (4) realms and credentials
	type rk struct{ ctor, realm string }
	var rks []rk
	for _, ct := range []string{"BasicAuthRealm", "BasicAuthRealmCtx"} {
		for _, rl := range edgeRealms {
			rks = append(rks, rk{ct, rl})
		}
		rks = append(rks, rk{ct, "custom"})
	}
	producesA := []string{mtText}
	enum.Parallel(len(rks), r.OutOfTime, func(i int) {
		k := rks[i]
		e := buildEnv(Config{Mode: "json", Produces: producesA, Where: "op", Responses: resp200, AuthCtor: k.ctor, AuthRealm: k.realm, NoDocs: true})
		st := &shardStats{outcomes: map[string]int64{}}
		c := Case{Sweep: "edge", Mode: "json", Produces: producesA, Where: "op", Responses: resp200[0], Target: "op", NoAccept: true, Outcome: "string"}
		creds := []string{"none", "wrong"}
		if k.realm == "custom" {
			creds = edgeCreds
		}
		for _, cr := range creds {
			c.Auth = &Auth{Ctor: k.ctor, Realm: k.realm, Creds: cr}
			for _, m := range []string{"GET", "HEAD"} {
				c.Method = m
				for _, via := range vias {
					c.Via = via
					st.run(r, e, &c)
				}
			}
		}
		done(st, 620000+i)
	})
}
