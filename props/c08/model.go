package main

// The reference: what the text of C08 forces (MUST), written without looking at how
// Context.Respond is organised. Everything the text leaves open is MAY and only
// labelled, never reported.
//
//	"When a handler returns a result for an operation, the response status is the
//	operation's declared success status, the Content-Type header is the negotiated media
//	type, and the body is exactly what the producer registered for that media type
//	(parameters ignored) writes for the result; no body is written for HEAD requests or
//	204 responses, and a result that knows how to write itself is handed that same
//	producer. When the handler or an earlier stage returns an error, the API's error
//	responder is invoked with it (JSON content type if nothing was negotiated), and a
//	failed basic-auth attempt carries a WWW-Authenticate challenge naming the configured
//	realm."

import (
	"fmt"
	"net/http"
	"reflect"
	"sort"
	"strconv"
	"strings"

	"github.com/go-openapi/errors"
)

// Case is one element of the explored space; it is also the replay format.
type Case struct {
	Sweep     string   `json:"sweep"`
	Mode      string   `json:"mode"`
	Produces  []string `json:"produces"`
	Where     string   `json:"where"`
	Responses []string `json:"responses"`
	Target    string   `json:"target"` // op | missing-param | unknown-path | other-method
	Method    string   `json:"method"`
	Body      string   `json:"body"` // "" | json | csv
	NoAccept  bool     `json:"no_accept"`
	Accept    []Range  `json:"accept"`
	Outcome   string   `json:"outcome"`
	Via       string   `json:"via"` // untyped (APIHandler) | typed (RouteInfo/Authorize/BindValidRequest/Respond)
	Auth      *Auth    `json:"auth,omitempty"`
	// sequence sweep: the description variant, and the requests served one after the
	// other by ONE Context (the fields above then describe nothing; each step is
	// expanded into a Case of its own by stepCase)
	IDs   string `json:"ids,omitempty"`
	Steps []Step `json:"steps,omitempty"`
	Path  string `json:"path,omitempty"` // explicit request path (set by stepCase)
	// entry point "direct": how Context.Respond is called without a matched route:
	// nil-route | empty-route (a MatchedRoute without Operation), optionally "+cached-format"
	Direct string `json:"direct,omitempty"`
	// how the abstract Accept header is spelled (see renderAcceptStyle); "" = the usual way
	AcceptStyle string `json:"accept_style,omitempty"`
	// hostile caller (sweep "hostile"): when the caller scribbles over every map
	// API.ProducersFor hands out and every slice it passed in: before-context (between the
	// registrations and NewContext, and after every request) | after-context (after
	// NewContext and after every request)
	Hostile string `json:"hostile,omitempty"`
}

// Step is one request of a sequence: an operation of seqOps, what its handler returns,
// the Accept header and the entry point.
type Step struct {
	Op       int     `json:"op"`
	Outcome  string  `json:"outcome"`
	NoAccept bool    `json:"no_accept"`
	Accept   []Range `json:"accept"`
	Via      string  `json:"via"`
}

// stepCase expands a step into the Case the reference judges.
func stepCase(mode, ids string, s Step) Case {
	o := seqOps[s.Op]
	return Case{Sweep: "seq-step", Mode: mode, IDs: ids, Produces: o.Produces, Where: "op", Responses: o.Codes,
		Target: "op", Method: o.Method, Path: o.ReqPath, NoAccept: s.NoAccept, Accept: s.Accept, Outcome: s.Outcome, Via: s.Via}
}

// mediaPart: a media type with its parameters ignored.
func mediaPart(s string) string {
	if i := strings.IndexByte(s, ';'); i >= 0 {
		s = s[:i]
	}
	return strings.ToLower(strings.TrimSpace(s))
}

// specificity of a media range for an offer: 2 exact, 1 type/*, 0 */*, -1 no match.
func specificity(rng, offer string) int {
	switch {
	case rng == "*/*":
		return 0
	case strings.HasSuffix(rng, "/*"):
		if strings.HasPrefix(offer, rng[:len(rng)-1]) {
			return 1
		}
		return -1
	case rng == offer:
		return 2
	}
	return -1
}

// bestOffers is the negotiation of C07 up to the tie-break by offer order: the indices
// of all offers matched by an acceptable range of highest quality and, among those,
// highest specificity. No Accept header: every offer ties (the first one wins).
func bestOffers(offers []string, noAccept bool, acc []Range) []int {
	var out []int
	if noAccept {
		for i := range offers {
			out = append(out, i)
		}
		return out
	}
	bq, bs := 0, -1
	for i, o := range offers {
		m := mediaPart(o)
		oq, os := 0, -1
		for _, r := range acc {
			if r.Q <= 0 {
				continue
			}
			if s := specificity(r.T, m); s >= 0 && (r.Q > oq || (r.Q == oq && s > os)) {
				oq, os = r.Q, s
			}
		}
		if os < 0 {
			continue
		}
		switch {
		case oq > bq || (oq == bq && os > bs):
			bq, bs = oq, os
			out = []int{i}
		case oq == bq && os == bs:
			out = append(out, i)
		}
	}
	return out
}

// allowedTypes: the media types (parameters ignored) the text allows as "the negotiated
// media type" for this case. The offers are "the produces list plus the API's default
// type, last" (C07). Where the order of the offers is owned by the harness (typed entry
// point: it is the produces argument of Respond) the tie is broken by offer order, the
// default either staying where the list has it or moving last - the text allows both
// readings. Through the untyped API the order of the produces list is lost inside
// go-openapi/analysis (map iteration), so every tied offer is allowed.
func allowedTypes(c *Case, def string) (allowed map[string]bool, offers []string) {
	offers = typedProduces(c.Produces, def)
	if c.Via == "notfound" {
		// Context.NotFound offers the API default type only
		offers = nil
		if def != "" {
			offers = []string{def}
		}
	}
	ties := bestOffers(offers, c.NoAccept, c.Accept)
	allowed = map[string]bool{}
	if len(ties) == 0 {
		return allowed, offers
	}
	noRoute := c.Target == "unknown-path" || c.Target == "other-method"
	if c.Via == "untyped" || c.Via == "notfound" || noRoute {
		for _, i := range ties {
			allowed[mediaPart(offers[i])] = true
		}
		return allowed, offers
	}
	// reading A: list order, default appended when absent
	allowed[mediaPart(offers[ties[0]])] = true
	// reading B: default moved last
	first := -1
	for _, i := range ties {
		if !strings.EqualFold(offers[i], def) {
			first = i
			break
		}
	}
	if first < 0 {
		first = ties[0]
	}
	allowed[mediaPart(offers[first])] = true
	return allowed, offers
}

func successCodes(responses []string) map[int]bool {
	out := map[int]bool{}
	for _, r := range responses {
		if n, err := strconv.Atoi(r); err == nil && n >= 200 && n < 300 {
			out[n] = true
		}
	}
	return out
}

func same(a, b interface{}) (eq bool) {
	defer func() {
		if recover() != nil {
			eq = false
		}
	}()
	ta, tb := reflect.TypeOf(a), reflect.TypeOf(b)
	if ta != tb {
		return false
	}
	if ta != nil && !ta.Comparable() {
		// slices and maps: same type, same nil-ness, same contents
		va, vb := reflect.ValueOf(a), reflect.ValueOf(b)
		return va.IsNil() == vb.IsNil() && reflect.DeepEqual(a, b)
	}
	return a == b
}

func keys(m map[string]bool) []string {
	out := make([]string, 0, len(m))
	for k := range m {
		out = append(out, k)
	}
	sort.Strings(out)
	return out
}

func (o *obs) summary() string {
	var b strings.Builder
	if o.panicked != "" {
		fmt.Fprintf(&b, "panic(%s) ", o.panicked)
	}
	if o.w.committed {
		fmt.Fprintf(&b, "status=%d content-type=%q www-authenticate=%q body=%q", o.w.status, o.w.snap.Get("Content-Type"), o.w.snap.Values("WWW-Authenticate"), o.w.body.String())
	} else {
		fmt.Fprintf(&b, "nothing written (content-type header %q)", o.w.h.Get("Content-Type"))
	}
	fmt.Fprintf(&b, " handler-runs=%d", o.handlerRuns)
	for _, pc := range o.prodCalls {
		fmt.Fprintf(&b, " produce[%s](%#v)", pc.p.tag, pc.data)
	}
	for _, rc := range o.respCalls {
		tag := "nil"
		if p, ok := rc.p.(*recProducer); ok && p != nil {
			tag = p.tag
		} else if rc.p != nil {
			tag = fmt.Sprintf("%T", rc.p)
		}
		fmt.Fprintf(&b, " responder-handed[%s]", tag)
	}
	for _, ec := range o.errCalls {
		fmt.Fprintf(&b, " error-responder(%v; content-type=%q)", ec.err, ec.ct)
	}
	return b.String()
}

// challengeNames: does some WWW-Authenticate value carry a Basic challenge whose realm
// is the configured one? basic=true when there is a Basic challenge at all.
func challengeNames(values []string, realm string) (ok, basic bool) {
	for _, v := range values {
		v = strings.TrimSpace(v)
		if len(v) < 5 || !strings.EqualFold(v[:5], "basic") {
			continue
		}
		rest := v[5:]
		if rest != "" && rest[0] != ' ' && rest[0] != '\t' {
			continue
		}
		basic = true
		i := strings.Index(strings.ToLower(rest), "realm=")
		if i < 0 {
			continue
		}
		after := rest[i+len("realm="):]
		if strings.HasPrefix(after, `"`) {
			var buf []byte
			j, closed := 1, false
			for j < len(after) {
				ch := after[j]
				if ch == '\\' && j+1 < len(after) {
					buf = append(buf, after[j+1])
					j += 2
					continue
				}
				if ch == '"' {
					closed = true
					break
				}
				buf = append(buf, ch)
				j++
			}
			if closed {
				if string(buf) == realm {
					return true, true
				}
				if u, err := strconv.Unquote(after[:j+1]); err == nil && u == realm {
					return true, true
				}
			}
			continue
		}
		tok := after
		if k := strings.IndexAny(tok, ", \t"); k >= 0 {
			tok = tok[:k]
		}
		if tok == realm && realm != "" {
			return true, true
		}
	}
	return false, basic
}

// spaceBeforeSemicolon: the media type is followed by optional whitespace and then ';'.
func spaceBeforeSemicolon(ct string) bool {
	i := strings.IndexByte(ct, ';')
	return i > 0 && (ct[i-1] == ' ' || ct[i-1] == '\t')
}

// firstCode: the status an error stands for (a composite error: that of its first member).
func firstCode(err error) int32 {
	for depth := 0; depth < 4; depth++ {
		ce, ok := err.(*errors.CompositeError)
		if !ok || ce == nil || len(ce.Errors) == 0 {
			break
		}
		err = ce.Errors[0]
	}
	if c, ok := err.(interface{ Code() int32 }); ok && c != nil {
		return c.Code()
	}
	return 0
}

func isResult(outcome string) bool {
	switch outcome {
	case "string", "struct", "nil", "empty-string", "zero", "nil-slice", "empty-slice", "nil-pointer":
		return true
	}
	return false
}

// judge compares the observation with the reference. class == "" means every MUST
// holds; label names the situation (for the coverage evidence); labels starting with
// "may/" mark cases in which the text forces nothing.
func judge(e *env, c *Case, o *obs) (class, what, label string) {
	def := e.mode.defaultType
	allowed, offers := allowedTypes(c, def)
	nothing := len(allowed) == 0
	fail := func(cl, exp string) (string, string, string) {
		// known defect class of the pinned tree: the negotiated offer is spelled with optional
		// whitespace before the ';' of its parameters; normalizeOffer keeps that whitespace in
		// the media type, so no table keyed by media type has the entry. Only the symptoms
		// of a missed producer lookup get the suffix.
		liveRaw := o.w.h.Get("Content-Type")
		if spaceBeforeSemicolon(liveRaw) {
			switch cl {
			case "wrong-producer/offer-with-parameters-falls-back-to-default", "panic/offer-with-parameters-no-default-producer", "responder-wrong-producer":
				cl += "/space-before-semicolon"
			case "panic":
				if strings.Contains(o.panicked, "can't find a producer") && len(o.prodCalls) == 0 && len(o.respCalls) == 0 && (c.Method != http.MethodHead || !isResult(c.Outcome)) {
					cl += "/space-before-semicolon"
				}
			}
		} else if liveRaw == "" && cl == "wrong-content-type" {
			// the same whitespace keeps the offer from matching the Accept header: nothing is
			// negotiated although the entry's media type is acceptable
			for _, of := range offers {
				if spaceBeforeSemicolon(of) && allowed[mediaPart(of)] {
					cl = "wrong-content-type/space-before-semicolon"
				}
			}
		}
		return cl, fmt.Sprintf("expected %s; observed %s [offers %q, negotiable %q]", exp, o.summary(), offers, keys(allowed)), ""
	}

	// ---------- error clause ----------
	var wantAny []error // multi-alternative security: the error must be one of these, when there are any
	errorClause := func(label string, want error, challenge string) (string, string, string) {
		if o.panicked != "" {
			return fail("panic", "the error responder to be invoked")
		}
		switch {
		case len(o.errCalls) == 0:
			return fail("error-responder-not-invoked", "the API's error responder to be invoked with the error")
		case len(o.errCalls) > 1:
			return fail("error-responder-invoked-twice", "the API's error responder to be invoked once")
		}
		ec := o.errCalls[0]
		if ec.err == nil {
			return fail("error-responder-nil-error", "the API's error responder to be invoked with the error")
		}
		if want != nil && !same(want, ec.err) {
			return fail("error-responder-wrong-error", fmt.Sprintf("the error responder to be invoked with the returned error (%v)", want))
		}
		if len(wantAny) > 0 {
			found := false
			for _, w := range wantAny {
				found = found || same(w, ec.err)
			}
			if !found {
				return fail("error-responder-wrong-error/not-an-authenticator-error", fmt.Sprintf("the error responder to be invoked with an error a security alternative returned (one of %v), not with one no alternative produced", wantAny))
			}
			label += "/authenticator-error"
		}
		m := mediaPart(ec.ct)
		if nothing {
			if m != mtJSON {
				return fail("error-content-type/nothing-negotiated", "Content-Type application/json for an error when nothing was negotiated")
			}
			label += "/json-fallback"
		} else if !allowed[m] && m != mtJSON {
			return fail("error-content-type", "the negotiated (or JSON) Content-Type for an error")
		}
		if challenge != "" {
			ok, basic := challengeNames(ec.www, e.realm)
			switch {
			case ok:
				label += "/challenge"
			case basic:
				return fail("challenge-wrong-realm", fmt.Sprintf("WWW-Authenticate: Basic realm=%q", e.realm))
			default:
				return fail("no-challenge/"+challenge, fmt.Sprintf("WWW-Authenticate: Basic realm=%q", e.realm))
			}
		}
		return "", "", label
	}

	if o.handlerRuns == 0 {
		// an earlier stage answered: it must have been through the error responder
		label := "stage-error"
		var want error
		challenge := ""
		if len(o.errCalls) == 1 {
			label = fmt.Sprintf("stage-error-%d", firstCode(o.errCalls[0].err))
		}
		if o.stageErr != nil {
			want = o.stageErr
		}
		if c.Auth != nil && len(c.Auth.Alts) > 0 {
			// several alternatives, none admitted: "an earlier stage returns an error, the
			// error responder is invoked with it" - with the error of one of the alternatives
			// that failed (which one is C02's business), never with a fabricated one when
			// some alternative did return an error
			// (when some alternative carries acceptable credentials the request is admitted and
			// whatever refused it afterwards is another stage: only the general clause applies)
			admitted := false
			for _, st := range c.Auth.States {
				admitted = admitted || st == "ok"
			}
			label = "multi-alt/" + label
			if !admitted {
				wantAny = o.authErrs
				for i, a := range c.Auth.Alts {
					if a == "basic" && c.Auth.States[i] == "fail" {
						challenge = "rejected-credentials"
					}
				}
			} else {
				label = "multi-alt-admitted/" + label
			}
		} else if c.Auth != nil {
			switch c.Auth.Creds {
			case "wrong", "wrong-lowercase-scheme", "wrong-uppercase-scheme", "wrong-empty-user", "wrong-colon-in-password", "wrong-non-ascii":
				want = o.authErr
				challenge = "rejected-credentials"
			case "none", "malformed", "other-scheme":
				challenge = "no-basic-credentials"
			case "right-nil-principal":
				// accepted by the application's function, refused by the framework: the text
				// does not say whether this is a "failed basic-auth attempt"
				label = "may-challenge/nil-principal"
			}
		}
		return errorClause(label, want, challenge)
	}

	if o.retErr != nil {
		return errorClause("handler-error/"+c.Outcome, o.retErr, "")
	}

	// ---------- result clauses ----------
	if nothing {
		// nothing was negotiated and the handler ran all the same (typed entry point with a
		// request body, or no offers at all): the text forces nothing
		return "", "", "may/nothing-negotiated"
	}
	liveCT := mediaPart(o.w.h.Get("Content-Type"))
	defProd := e.reg[mediaPart(def)]
	if def == "" {
		defProd = nil
	}
	// noProducerFor: the media type is a negotiable one, no producer is registered for it and
	// the API has no registered default producer either. The text ("exactly what the producer
	// registered for that media type writes") presupposes a producer: how such a request
	// fails is open - the declared status line and then a panic, or an error answer through
	// the error responder - as long as nobody writes a body.
	noProducerFor := func(m string) bool { return allowed[m] && e.reg[m] == nil && defProd == nil }
	if c.Via == "direct" && !isResult(c.Outcome) {
		// a Responder is handed "the producer registered for the media type" of its route;
		// without a route (or with one that has no producers) the text forces nothing
		return "", "", "may/responder-without-route"
	}

	switch c.Outcome {
	case "responder", "responder-func":
		if o.panicked != "" {
			if len(o.respCalls) == 0 && allowed[liveCT] && e.reg[liveCT] == nil {
				return "", "", "may/unregistered-producer"
			}
			return fail("panic", "the Responder to be handed the producer of the negotiated type")
		}
		if len(o.errCalls) > 0 {
			if noProducerFor(liveCT) && len(o.respCalls) == 0 && len(o.prodCalls) == 0 {
				return "", "", "may/no-producer-error-answer"
			}
			return fail("result-treated-as-error", "the Responder to be invoked, not the error responder")
		}
		switch {
		case len(o.respCalls) == 0:
			return fail("responder-not-invoked", "the Responder to be invoked")
		case len(o.respCalls) > 1:
			return fail("responder-invoked-twice", "the Responder to be invoked once")
		}
		rc := o.respCalls[0]
		m := mediaPart(rc.ct)
		if !allowed[m] {
			return fail("responder-content-type", "Content-Type = the negotiated media type when the Responder is invoked")
		}
		p := e.reg[m]
		if p == nil {
			return "", "", "may/unregistered-producer"
		}
		if !same(rc.p, p) {
			return fail("responder-wrong-producer", fmt.Sprintf("the Responder to be handed the producer registered for %s", m))
		}
		return "", "", "responder/" + c.Outcome

	case "mw-error", "not-implemented":
		if o.panicked != "" {
			if len(o.prodCalls) == 0 && allowed[liveCT] && e.reg[liveCT] == nil {
				return "", "", "may/unregistered-producer"
			}
			return fail("panic", "middleware.Error to be handed the producer of the negotiated type")
		}
		if len(o.errCalls) > 0 {
			if noProducerFor(liveCT) && len(o.respCalls) == 0 && len(o.prodCalls) == 0 {
				return "", "", "may/no-producer-error-answer"
			}
			return fail("result-treated-as-error", "the Responder to be invoked, not the error responder")
		}
		if !o.w.committed {
			return fail("no-response", "a response written by the Responder")
		}
		m := mediaPart(o.w.snap.Get("Content-Type"))
		if !allowed[m] {
			return fail("responder-content-type", "Content-Type = the negotiated media type")
		}
		p := e.reg[m]
		if p == nil {
			return "", "", "may/unregistered-producer"
		}
		if len(o.prodCalls) == 0 {
			return fail("responder-producer-not-used", fmt.Sprintf("middleware.Error to write through the producer registered for %s", m))
		}
		for _, pc := range o.prodCalls {
			if pc.p != p {
				return fail("responder-wrong-producer", fmt.Sprintf("middleware.Error to be handed the producer registered for %s", m))
			}
		}
		return "", "", fmt.Sprintf("library-responder/%s/%d", c.Outcome, o.w.status)
	}

	if !isResult(c.Outcome) {
		panic("judge: unknown outcome " + c.Outcome)
	}
	codes := successCodes(c.Responses)
	anyStatus := c.Via == "direct" // no operation, so no declared success status: the status is MAY
	if len(codes) == 0 && !anyStatus {
		// only a default response is declared: there is no declared success status
		return "", "", "may/default-only"
	}
	only204 := len(codes) == 1 && codes[http.StatusNoContent]
	needsProducer := c.Method != http.MethodHead && !only204
	if !o.w.committed {
		if o.panicked != "" {
			if needsProducer && noProducerFor(liveCT) && len(o.prodCalls) == 0 {
				return "", "", "may/no-producer-panic"
			}
			return fail("panic", "a response with the declared success status")
		}
		return fail("no-response", "a response with the declared success status")
	}
	rawCT := o.w.snap.Get("Content-Type")
	m := mediaPart(rawCT)
	if !allowed[m] {
		return fail("wrong-content-type", "Content-Type = the negotiated media type")
	}
	if needsProducer && noProducerFor(m) {
		if len(o.prodCalls) > 0 || (o.w.status < 300 && o.w.body.Len() > 0) {
			return fail("body-without-registered-producer", "no body: no producer is registered for the negotiated type nor as default")
		}
		if len(o.errCalls) == 1 && o.errCalls[0].err != nil {
			return "", "", "may/no-producer-error-answer"
		}
	}
	if !anyStatus && !codes[o.w.status] {
		return fail("wrong-status", fmt.Sprintf("the declared success status %v", c.Responses))
	}
	if len(o.errCalls) > 0 {
		return fail("result-treated-as-error", "the result to be produced, not the error responder")
	}
	if c.Method == http.MethodHead || o.w.status == http.StatusNoContent {
		kind := "head"
		if o.w.status == http.StatusNoContent {
			kind = "204"
		}
		if o.w.body.Len() > 0 {
			return fail("body-on-"+kind, "no body")
		}
		if o.panicked != "" {
			return fail("panic", "a response without body")
		}
		return "", "", fmt.Sprintf("value/%d/no-body-%s", o.w.status, kind)
	}
	p := e.reg[m]
	if p == nil {
		return "", "", "may/unregistered-producer"
	}
	hasParams := strings.Contains(rawCT, ";")
	want := render(p.tag, o.retVal)
	if o.panicked != "" {
		if hasParams && defProd == nil && len(o.prodCalls) == 0 && strings.Contains(o.panicked, "can't find a producer") {
			// the negotiated offer carries parameters, its media type has a registered
			// producer, and the API has no (registered) default producer to fall back to
			return fail("panic/offer-with-parameters-no-default-producer", fmt.Sprintf("body %q", want))
		}
		return fail("panic", fmt.Sprintf("body %q", want))
	}
	if len(o.prodCalls) == 0 {
		return fail("producer-not-invoked", fmt.Sprintf("body %q", want))
	}
	if o.prodCalls[0].p != p {
		pc := o.prodCalls[0]
		if hasParams && defProd != nil && pc.p == defProd && len(o.prodCalls) == 1 && same(pc.data, o.retVal) && o.w.body.String() == render(defProd.tag, o.retVal) {
			// the only thing wrong: the API's default producer wrote the body of an offer that carries parameters
			return fail("wrong-producer/offer-with-parameters-falls-back-to-default", fmt.Sprintf("body %q", want))
		}
		return fail("wrong-producer", fmt.Sprintf("body %q", want))
	}
	if len(o.prodCalls) > 1 {
		return fail("producer-invoked-twice", fmt.Sprintf("body %q", want))
	}
	if !same(o.prodCalls[0].data, o.retVal) {
		return fail("wrong-data", fmt.Sprintf("body %q", want))
	}
	if o.w.body.String() != want {
		return fail("body-mismatch", fmt.Sprintf("body %q", want))
	}
	return "", "", fmt.Sprintf("value/%d/body", o.w.status)
}
