package main

import (
	"fmt"
	"io"
	"net/http"
	"strings"

	"github.com/go-openapi/runtime/client"

	"verif/engine/choice"
	"verif/engine/doubles"
)

// ---- E4: draining body of the keep-alive transport: Read(k)* Close histories ----

var drainOps = []string{"Read(0)", "Read(1)", "Read(2)", "Read(8)", "Close"}
var drainSizes = []int{0, 1, 2, 8, -1}

// DrainCase is the replayable form of one history + stream behaviour.
type DrainCase struct {
	Kind    string `json:"kind"` // "drain"
	Len     int    `json:"len"`
	Term    string `json:"term"` // "EOF" | "ERR"
	Ops     []int  `json:"ops"`
	Choices []int  `json:"choices"`
}

// drainData: "xyz" cut to length for the small bodies, a position-dependent pattern for the large ones.
func drainData(n int) []byte {
	if n <= 3 {
		return []byte("xyz")[:n]
	}
	b := make([]byte, n)
	for i := range b {
		b[i] = byte(i*7 + i>>8 + 3)
	}
	return b
}

type fixedRT struct{ body io.ReadCloser }

func (f fixedRT) RoundTrip(req *http.Request) (*http.Response, error) {
	return &http.Response{StatusCode: 200, Body: f.body, Header: http.Header{}, Request: req}, nil
}

// runDrain executes one history under one chooser and checks model A.5.
func runDrain(dc DrainCase, c *choice.Chooser) (class, what string, key string) {
	defer func() {
		if e := recover(); e != nil {
			if msg, ok := e.(string); ok && strings.HasPrefix(msg, "choice:") {
				panic(e) // the explorer's own hard error (replay divergence), not the code under test
			}
			class, what, key = "panic", fmt.Sprintf("the draining body panics: %v", e), ""
		}
	}()
	data := drainData(dc.Len)
	und := &doubles.Reader{Name: "underlying", Data: data, C: c, ZeroReads: 1}
	if dc.Term == "ERR" {
		und.Term = doubles.ErrInjected
	}
	rt := client.KeepAliveTransport(fixedRT{und})
	req, _ := http.NewRequest("GET", "http://example.test/", nil)
	resp, err := rt.RoundTrip(req)
	if err != nil {
		return "drain/roundtrip-error", err.Error(), ""
	}
	body := resp.Body
	seen := false // model: a Read returned the terminal condition
	pos := 0
	closed := false
	for i, op := range dc.Ops {
		at := fmt.Sprintf("op %d (%s)", i+1, drainOps[op])
		if drainSizes[op] >= 0 {
			if closed {
				continue // reads after close are not specified by the property
			}
			buf := make([]byte, drainSizes[op])
			before := und.Pos
			n, err := body.Read(buf)
			if n != und.Pos-before || string(buf[:n]) != string(data[before:before+n]) {
				return "drain/bytes-changed", fmt.Sprintf("%s returned %q, underlying delivered %q", at, buf[:n], data[before:und.Pos]), ""
			}
			pos += n
			if err != nil {
				seen = true
			}
			continue
		}
		// Close
		first := !closed
		closesBefore := und.Closes
		_ = body.Close()
		closed = true
		if first {
			if und.Closes != closesBefore+1 {
				return "drain/underlying-close-count", fmt.Sprintf("%s closed the underlying body %d times", at, und.Closes-closesBefore), ""
			}
			atEnd := und.SawTerm || und.Failed != nil
			if !seen && !atEnd {
				cl := "drain/closed-without-draining"
				// classifier for the known defect: the end was "seen" only through a read that returned no bytes and no error
				zero := false
				for _, o := range dc.Ops[:i] {
					if drainSizes[o] == 0 {
						zero = true
					}
				}
				for _, p := range c.Trace {
					if p.Site == "underlying.Read" {
						_ = p
					}
				}
				if zero || und.ZeroReads == 0 {
					cl += "/after-zero-byte-read"
				}
				return cl, fmt.Sprintf("%s: end of the body had not been seen (%d of %d bytes read) and the underlying body was closed at offset %d without being drained", at, pos, len(data), und.Pos), ""
			}
		}
	}
	key = fmt.Sprintf("len%d %s seen=%v closed=%v pos=%d", dc.Len, dc.Term, seen, closed, und.Pos)
	return "", "", key
}
