// C12 - client calls always terminate, release what they hold and surface
// faults. Parts: E3 (all schedules of caller / multipart writer goroutine /
// canceller, crossed with environment choices: transport behaviour, chunking,
// upload-source faults, response-body fault, reader behaviour), E4 (all
// Read/Close histories on the keep-alive draining body over every behaviour of
// the underlying stream), the effective-deadline value sweep, and the fault
// sweep over a real http.Transport on an in-memory connection (faults.go).
package main

import (
	"fmt"
	"io"
	"log"
	"os"
	goruntime "runtime"
	"strings"
	"sync"

	"verif/engine/choice"
	"verif/engine/enum"
	"verif/engine/report"
	"verif/engine/sched"
)

func main() {
	log.SetOutput(io.Discard)
	sched.WorkerMain(exploreE3)
	if len(os.Args) > 1 && os.Args[1] == "faultworker" {
		faultWorker(os.Args[2:])
		return
	}
	r := report.Start("C12", "fault_enumeration")
	if r.Replay != "" {
		var probe struct {
			Kind string `json:"kind"`
		}
		r.LoadReplay(&probe)
		cl, what := "", ""
		var cs any
		switch probe.Kind {
		case "drain":
			var dc DrainCase
			r.LoadReplay(&dc)
			cs = dc
			cl, what, _ = runDrain(dc, choice.Replay(dc.Choices))
		case "deadline":
			var dc DeadlineCase
			r.LoadReplay(&dc)
			cs = dc
			cl, what = checkDeadline(dc)
		case "fault":
			var fc FaultCase
			r.LoadReplay(&fc)
			cs = fc
			cl, what = replayFault(fc)
		default:
			var sc SchedCase
			r.LoadReplay(&sc)
			cs = sc
			cl, what = replayE3(sc)
		}
		fmt.Printf("replay %+v\n  class=%q\n  %s\n", cs, cl, what)
		if cl != "" {
			r.Fail(cl, what, cs)
		}
		r.Eval(1)
		r.Nontrivial(2)
		r.Sample(cs)
		r.Finish("replay of one case", false)
	}
	parts := os.Getenv("VERIF_PARTS")
	part := func(p string) bool { return parts == "" || strings.Contains(parts, p) }

	// ---- E4: drain/close histories ----
	if part("drain") {
		depth := 4
		if r.Thorough() {
			depth = 5
		}
		seqs := enum.Seqs(len(drainOps), 1, depth)
		var mu sync.Mutex
		states := map[string]bool{}
		type job struct {
			l    int
			term string
		}
		var jobs []job
		for l := 0; l <= 3; l++ {
			for _, t := range []string{"EOF", "ERR"} {
				jobs = append(jobs, job{l, t})
			}
		}
		enum.Parallel(len(jobs)*len(seqs), r.OutOfTime, func(i int) {
			j, ops := jobs[i/len(seqs)], seqs[i%len(seqs)]
			local := map[string]bool{}
			var n int64
			choice.Explore(-1, nil, func(c *choice.Chooser) {
				dc := DrainCase{"drain", j.l, j.term, ops, nil}
				cl, what, key := runDrain(dc, c)
				n++
				if cl != "" {
					dc.Choices = c.Choices()
					r.Fail(cl, what, dc)
				} else {
					local[key] = true
				}
			})
			r.Eval(n)
			mu.Lock()
			for k := range local {
				states[k] = true
			}
			mu.Unlock()
		})
		// large bodies: whatever is left must be drained, however much it is (internal windows and caps
		// of the drain are size boundaries); short histories, environment deviations bounded by 1 up to
		// 32 KiB and default answers only above
		bigSeqs := enum.Seqs(len(drainOps), 1, 2)
		bigLens := []int{4096, 32768, 32769, 65537, 262144, 262145, 1<<20 + 1, 10<<20 + 1}
		if !r.Thorough() {
			bigLens = []int{32769, 262145, 1<<20 + 1, 10<<20 + 1}
		}
		var bigJobs []job
		for _, l := range bigLens {
			for _, t := range []string{"EOF", "ERR"} {
				bigJobs = append(bigJobs, job{l, t})
			}
		}
		enum.Parallel(len(bigJobs)*len(bigSeqs), r.OutOfTime, func(i int) {
			j, ops := bigJobs[i/len(bigSeqs)], bigSeqs[i%len(bigSeqs)]
			bound := 0
			if j.l <= 32769 {
				bound = 1
			}
			local := map[string]bool{}
			var n int64
			choice.Explore(bound, nil, func(c *choice.Chooser) {
				dc := DrainCase{"drain", j.l, j.term, ops, nil}
				cl, what, key := runDrain(dc, c)
				n++
				if cl != "" {
					dc.Choices = c.Choices()
					r.Fail(cl, what, dc)
				} else {
					local[key] = true
				}
			})
			r.Eval(n)
			mu.Lock()
			for k := range local {
				states[k] = true
			}
			mu.Unlock()
		})
		r.Set("drain_large_bodies", map[string]any{"lengths": bigLens, "histories_per_length": 2 * len(bigSeqs)})
		r.Nontrivial(int64(len(states)))
		r.Outcome("drain:distinct-end-states", int64(len(states)))
		r.Set("drain_histories", len(jobs)*len(seqs))
		r.Set("drain_depth", depth)
		r.Sample(DrainCase{"drain", 3, "EOF", seqs[len(seqs)/2], nil})
	}

	// ---- deadline value sweep ----
	if part("deadline") {
		for _, t := range []int{-1, 0, 40, 3600000, -2000, -3600000} {
			for _, d := range []int{0, 40, 7200000} {
				for _, where := range []string{"operation", "transport", "both"} {
					if d == 0 && where != "operation" {
						continue
					}
					for _, def := range []int{0, 3600000, 5400000} {
						if def != 0 && t >= 0 && where != "operation" {
							continue // the package default only matters to calls that set no timeout; a few crossings suffice
						}
						dc := DeadlineCase{"deadline", t, d, where, def}
						cl, what := checkDeadline(dc)
						r.Eval(1)
						r.Nontrivial(1)
						if cl != "" {
							r.Fail(cl, what, dc)
						} else {
							r.Outcome("deadline:"+what, 1)
						}
					}
				}
			}
		}
	}

	// ---- E3: caller / writer goroutine / canceller schedules x environment choices ----
	bounds := map[string]int{}
	for _, sc := range e3Scenarios() {
		if r.OutOfTime() || !part("sched") {
			break
		}
		pb, db := 1, 1
		if r.Thorough() {
			pb, db = 2, 2
		}
		maxFree := 0
		if sc.Twin {
			// four threads blocking on pipes: the free scheduling choices are bounded as well
			maxFree = 1
			if r.Thorough() {
				maxFree = 2
			} else if sc.Reuse {
				continue // the faulty twin scenario is explored in the thorough tier only
			}
		}
		if sc.Twin {
			pb, db = 1, 1 // two callers and two writers: one preemption and one environment deviation
		}
		m, err := sched.RunShardedFree(sc.Name, pb, db, goruntime.NumCPU(), maxFree)
		if err != nil {
			fmt.Fprintln(os.Stderr, "internal error:", err)
			os.Exit(2)
		}
		sched.Merge(r, m)
		r.Nontrivial(m.Stats.Executions)
		bounds[fmt.Sprintf("%s@preemptions<=%d,deviations<=%d", sc.Name, pb, db)] = int(m.Stats.Executions)
		if m.Stats.Stopped {
			r.OutOfTime()
		}
	}
	r.Set("schedules_per_scenario", bounds)

	// ---- fault sweep over the real transport ----
	if part("fault") {
		faultSweep(r)
	}

	r.Assume("E3: scheduling points at every statement of client/{runtime,request,response,keepalive}.go, at every pipe/sync operation (including the writes mime/multipart performs on the pipe shim) and in the scripted transport; net/http's Client.Do runs atomically between them",
		"the scripted transport honours the RoundTripper contract (always closes the request body)",
		"deadlines are checked by value (context deadline read inside the transport), never by elapsed time")
	if parts != "" {
		r.Nontrivial(2)
		r.Finish("partial debugging run: "+parts, false)
	}
	r.Finish("E3: every schedule within the stated preemption bound x every combination of environment answers within the stated deviation bound (transport: read all/fail before/fail after one chunk/answer without reading/failing response body/stall until cancelled; chunk size; every upload-source read: short, fail, data+EOF; reader: all/nothing/one byte); E4: every Read(0|1|2|8)/Close history up to the stated depth x every behaviour of the underlying body (all chunkings, zero-length read, data+EOF, terminal error); deadline: request timeout x caller deadline x where the context is set; fault: see fault_* keys. non-trivial = executions (distinct by construction) plus distinct drain end states", true)
}
