package main

import (
	"context"
	"fmt"
	"io"
	"net/http"
	"strings"
	"time"

	"github.com/go-openapi/runtime"
	"github.com/go-openapi/runtime/client"
	"github.com/go-openapi/strfmt"
)

// ---- effective deadline: read the deadline VALUE off the request context (no duration oracle) ----

// DeadlineCase is the replayable form.
type DeadlineCase struct {
	Kind      string `json:"kind"`                 // "deadline"
	TimeoutMS int    `json:"timeout_ms"`           // -1: not set (client default), 0: explicit zero
	CallerMS  int    `json:"caller_ms"`            // 0: no caller deadline
	Where     string `json:"where"`                // "operation" | "transport" | "both"
	DefaultMS int    `json:"default_ms,omitempty"` // > 0: the application set the package variable client.DefaultTimeout to this before the call
}

type deadlineRT struct {
	at       time.Time
	deadline time.Time
	has      bool
}

func (d *deadlineRT) RoundTrip(req *http.Request) (*http.Response, error) {
	d.at = time.Now()
	d.deadline, d.has = req.Context().Deadline()
	return &http.Response{StatusCode: 200, Status: "200 OK", Header: http.Header{"Content-Type": []string{"text/plain"}}, Body: io.NopCloser(strings.NewReader("ok")), Request: req}, nil
}

func checkDeadline(dc DeadlineCase) (cl, what string) {
	defer func() {
		if e := recover(); e != nil {
			cl, what = "panic", fmt.Sprintf("Submit panics in the deadline sweep: %v", e)
		}
	}()
	if dc.DefaultMS > 0 {
		// the documented way to change the timeout of calls that do not set their own (sequential part of main)
		old := client.DefaultTimeout
		client.DefaultTimeout = time.Duration(dc.DefaultMS) * time.Millisecond
		defer func() { client.DefaultTimeout = old }()
	}
	rt := client.New("example.test", "/", []string{"http"})
	tr := &deadlineRT{}
	rt.Transport = tr
	var callerDeadline time.Time
	var opCtx context.Context
	var cancels []context.CancelFunc
	defer func() {
		for _, c := range cancels {
			c()
		}
	}()
	mk := func(ms int) context.Context {
		ctx, c := context.WithDeadline(context.Background(), callerDeadline.Add(time.Duration(ms)*time.Millisecond))
		cancels = append(cancels, c)
		return ctx
	}
	if dc.CallerMS > 0 {
		callerDeadline = time.Now().Add(time.Duration(dc.CallerMS) * time.Millisecond)
		switch dc.Where {
		case "operation":
			opCtx = mk(0)
		case "transport":
			rt.Context = mk(0)
		case "both":
			opCtx = mk(0)
			rt.Context = mk(-1000 * 3600) // the transport-wide context must lose to the operation's
		}
	}
	op := &runtime.ClientOperation{ID: "d", Method: "GET", PathPattern: "/", Schemes: []string{"http"}, Context: opCtx,
		Params: runtime.ClientRequestWriterFunc(func(req runtime.ClientRequest, _ strfmt.Registry) error {
			if dc.TimeoutMS >= 0 || dc.TimeoutMS < -1 {
				return req.SetTimeout(time.Duration(dc.TimeoutMS) * time.Millisecond)
			}
			return nil
		}),
		Reader: runtime.ClientResponseReaderFunc(func(runtime.ClientResponse, runtime.Consumer) (interface{}, error) { return nil, nil }),
	}
	t0 := time.Now()
	_, err := rt.Submit(op)
	if tr.at.IsZero() {
		// a caller deadline that has already passed may legitimately stop the call before the transport
		if err != nil && dc.CallerMS > 0 && time.Now().After(callerDeadline) {
			return "", "not sent: caller deadline already passed"
		}
		// ... and so may a negative request timeout: its deadline passed before the call started
		if err != nil && dc.TimeoutMS < -1 {
			return "", "not sent: negative request timeout"
		}
		return "deadline/not-sent", fmt.Sprintf("request never reached the transport: %v", err)
	}
	timeout := time.Duration(dc.TimeoutMS) * time.Millisecond
	if dc.TimeoutMS == -1 {
		timeout = client.DefaultTimeout
	}
	hasT, hasD := timeout != 0, dc.CallerMS > 0 // a negative timeout is a deadline in the past, not "no timeout"
	if !hasT && !hasD {
		if tr.has {
			return "deadline/unexpected-deadline", fmt.Sprintf("no timeout and no caller deadline, yet the request context expires at %v", tr.deadline)
		}
		return "", "no deadline"
	}
	if !tr.has {
		return "deadline/missing", fmt.Sprintf("request timeout %v, caller deadline set: %v, but the request context has no deadline", timeout, hasD)
	}
	// the effective deadline is min(caller's deadline, T+timeout) for some T in [t0, entry into the transport]
	if hasD && tr.deadline.After(callerDeadline) {
		return "deadline/later-than-caller-deadline", fmt.Sprintf("request context expires %v after the caller's deadline", tr.deadline.Sub(callerDeadline))
	}
	if hasT && tr.deadline.After(tr.at.Add(timeout)) {
		return "deadline/later-than-request-timeout", fmt.Sprintf("request context expires %v after (transport entry + request timeout %v)", tr.deadline.Sub(tr.at.Add(timeout)), timeout)
	}
	lower := t0.Add(timeout)
	if !hasT || (hasD && callerDeadline.Before(lower)) {
		lower = callerDeadline
	}
	if tr.deadline.Before(lower) {
		return "deadline/earlier-than-both", fmt.Sprintf("request context expires %v before the earlier of the caller's deadline and (start + request timeout)", lower.Sub(tr.deadline))
	}
	return "", "deadline ok"
}
