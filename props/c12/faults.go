package main

import (
	"bufio"
	"bytes"
	"context"
	"encoding/json"
	"fmt"
	"io"
	"net"
	"net/http"
	"os"
	"os/exec"
	"runtime"
	"strconv"
	"strings"
	"sync"
	"time"

	oart "github.com/go-openapi/runtime"
	"github.com/go-openapi/runtime/client"
	"github.com/go-openapi/strfmt"

	"verif/engine/choice"
	"verif/engine/report"
)

// ---- fault sweep over the REAL http.Transport on an in-memory connection ----
//
// Every fault placement is one execution: a fresh client.Runtime whose
// http.Transport dials one end of a net.Pipe, the other end being a scripted
// server. The fault dimension is enumerated exhaustively (deviation-bounded);
// the interleaving of net/http's own goroutines is the Go runtime's and is not
// explored (the E3 part covers the client's own goroutine exhaustively).

// FaultCase is the replayable form of one fault placement.
type FaultCase struct {
	Kind    string `json:"kind"` // "fault"
	Payload string `json:"payload"`
	Reuse   bool   `json:"reuse"`
	Choices []int  `json:"choices"`
}

var faultPayloads = []string{"none", "json", "reader", "urlencoded", "multipart-3", "multipart-600", "multipart-2files"}

const respText = "HTTP/1.1 200 OK\r\nContent-Type: text/plain\r\nContent-Length: 40\r\nX-Pad: 0123456789012345678\r\n\r\n0123456789012345678901234567890123456789"

type fsrc struct {
	name   string
	data   []byte
	c      *choice.Chooser
	mu     sync.Mutex
	pos    int
	closes int
	failed bool
}

func (f *fsrc) Name() string { return f.name }
func (f *fsrc) Close() error {
	f.mu.Lock()
	f.closes++
	first := f.closes == 1
	f.mu.Unlock()
	if first && f.c.Choose("source.Close:"+f.name, 2) == 1 {
		return errSource
	}
	return nil
}
func (f *fsrc) Read(p []byte) (int, error) {
	f.mu.Lock()
	defer f.mu.Unlock()
	if f.failed {
		return 0, errSource
	}
	if len(p) == 0 {
		return 0, nil
	}
	rem := f.data[f.pos:]
	if len(rem) == 0 {
		return 0, io.EOF
	}
	// upload sources are read by exactly one goroutine at a time, in a deterministic order of
	// calls, so the chooser is consulted deterministically
	switch f.c.Choose("source.Read:"+f.name, 3) {
	case 1:
		p[0] = rem[0]
		f.pos++
		return 1, nil
	case 2:
		f.failed = true
		return 0, errSource
	}
	k := copy(p, rem)
	f.pos += k
	return k, nil
}
func (f *fsrc) state() (closes int, failed bool) {
	f.mu.Lock()
	defer f.mu.Unlock()
	return f.closes, f.failed
}

type srvPlan struct {
	reqCut   int // >=0: close the connection after reading that many bytes of the request, no answer (-1: read it all)
	respCut  int // -1: whole response; else stop after that many bytes
	after    int // 0 close, 1 stall until the client goes away
	cancelAt int // -1 never; else cancel the caller's context when that many response bytes were written (0 = request fully read)
}

func (p srvPlan) String() string {
	return fmt.Sprintf("reqCut=%d respCut=%d after=%d cancelAt=%d", p.reqCut, p.respCut, p.after, p.cancelAt)
}

type faultOutcome struct {
	pre       int
	timeoutMS int
	plan      srvPlan
	err       error
	returned  bool
	leak      string
	unclosed  []string
	srcFailed bool
	complete  bool
	desc      string
	panicked  string
}

// runFault executes one fault placement. Choice points (in order): pre-send
// fault, request timeout, server plan, cancel point, then every read of every
// upload source.
func runFault(fc FaultCase, c *choice.Chooser) faultOutcome {
	var out faultOutcome
	out.pre = c.Choose("pre-send-fault", 4) // 0 none, 1 params error, 2 auth error, 3 unparsable base path
	tsel := c.Choose("request-timeout", 3)  // 0 client default (30s), 1 none (explicit 0), 2 40ms
	out.timeoutMS = []int{-1, 0, 40}[tsel]
	// server plan: 0 normal; 1..: cut the response after k bytes then close / stall; then: cut the request
	nResp := len(respText)
	reqCuts := []int{0, 1, 20, 60}
	planSel := c.Choose("server-plan", 1+2*nResp+len(reqCuts))
	plan := srvPlan{reqCut: -1, respCut: -1, cancelAt: -1}
	switch {
	case planSel == 0:
	case planSel <= 2*nResp:
		plan.respCut = (planSel - 1) / 2
		plan.after = (planSel - 1) % 2
	default:
		plan.reqCut = reqCuts[planSel-1-2*nResp]
	}
	cancelPoints := []int{0, 17, 60, nResp - 40, nResp - 20, nResp}
	csel := c.Choose("cancel-at", 1+len(cancelPoints))
	if csel > 0 {
		plan.cancelAt = cancelPoints[csel-1]
	}
	stalls := plan.respCut >= 0 && plan.after == 1
	if stalls && out.timeoutMS != 40 && (plan.cancelAt < 0 || plan.cancelAt > plan.respCut) {
		// a stalled server ends only through the caller's context: give this execution one
		// (the request timeout of 40 ms), otherwise it would simply sit out the 30 s default
		out.timeoutMS = 40
	}
	out.plan = plan

	var srcs []*fsrc
	mk := func(name string, n int) *fsrc {
		s := &fsrc{name: name, data: bytes.Repeat([]byte("u"), n), c: c}
		srcs = append(srcs, s)
		return s
	}
	ctx, cancel := context.WithCancel(context.Background())
	defer cancel()

	cli, srv := net.Pipe()
	var dials int
	var dmu sync.Mutex
	tr := &http.Transport{
		DialContext: func(context.Context, string, string) (net.Conn, error) {
			dmu.Lock()
			defer dmu.Unlock()
			dials++
			if dials > 1 {
				return nil, fmt.Errorf("second dial refused by the harness")
			}
			return cli, nil
		},
		DisableKeepAlives: !fc.Reuse,
	}
	srvDone := make(chan struct{})
	go func() {
		defer close(srvDone)
		defer srv.Close()
		serveScript(srv, plan, cancel)
	}()

	basePath := "/base"
	if out.pre == 3 {
		basePath = "/base%zz"
	}
	rt := client.New("example.test", basePath, []string{"http"})
	rt.Transport = tr
	if fc.Reuse {
		rt.EnableConnectionReuse()
	}
	consumes := "application/json"
	switch fc.Payload {
	case "reader":
		consumes = "application/octet-stream"
	case "urlencoded":
		consumes = "application/x-www-form-urlencoded"
	case "multipart-3", "multipart-600", "multipart-2files":
		consumes = "multipart/form-data"
	}
	op := &oart.ClientOperation{
		ID: "fault", Method: "POST", PathPattern: "/up", Schemes: []string{"http"}, Context: ctx,
		ProducesMediaTypes: []string{"text/plain"}, ConsumesMediaTypes: []string{consumes},
		Params: oart.ClientRequestWriterFunc(func(req oart.ClientRequest, _ strfmt.Registry) error {
			switch fc.Payload {
			case "json":
				_ = req.SetBodyParam(map[string]string{"k": "v"})
			case "reader":
				_ = req.SetBodyParam(mk("payload", 20))
			case "urlencoded":
				_ = req.SetFormParam("a", "1", "2")
			case "multipart-3":
				_ = req.SetFormParam("a", "1")
				_ = req.SetFileParam("file", mk("f3.txt", 3))
			case "multipart-600":
				_ = req.SetFileParam("file", mk("f600.bin", 600))
			case "multipart-2files":
				_ = req.SetFileParam("file", mk("fa.txt", 3), mk("fb.txt", 2))
			}
			if out.timeoutMS >= 0 {
				_ = req.SetTimeout(time.Duration(out.timeoutMS) * time.Millisecond)
			}
			if out.pre == 1 {
				return errParams
			}
			return nil
		}),
		Reader: oart.ClientResponseReaderFunc(func(resp oart.ClientResponse, cons oart.Consumer) (interface{}, error) {
			var s string
			if err := cons.Consume(resp.Body(), &s); err != nil {
				return nil, err
			}
			if len(s) != 40 {
				return nil, fmt.Errorf("short body: %d bytes", len(s))
			}
			return s, nil
		}),
	}
	if out.pre == 2 {
		op.AuthInfo = oart.ClientAuthInfoWriterFunc(func(oart.ClientRequest, strfmt.Registry) error { return errAuth })
	}

	done := make(chan struct{})
	go func() {
		defer close(done)
		defer func() {
			if e := recover(); e != nil {
				out.err = fmt.Errorf("PANIC in Submit: %v", e)
				out.panicked = fmt.Sprint(e)
			}
		}()
		_, out.err = rt.Submit(op)
	}()
	select {
	case <-done:
		out.returned = true
	case <-time.After(30 * time.Second): // horizon: a correct run takes milliseconds (stalls: 40 ms)
	}
	cancel()
	tr.CloseIdleConnections()
	cli.Close()
	srv.Close()
	if !out.returned {
		<-done // with everything torn down it must come back; otherwise the process hangs and the parent reports it
	}
	<-srvDone

	// settle: goroutines started by the call must be gone, upload sources closed
	deadline := time.Now().Add(settleHorizon)
	for {
		out.leak = clientGoroutines()
		out.unclosed = out.unclosed[:0]
		for _, s := range srcs {
			if n, _ := s.state(); n == 0 && !(s.name == "payload") {
				out.unclosed = append(out.unclosed, s.name)
			}
		}
		if out.pre == 1 {
			out.unclosed = nil // request never built: nothing was handed over
		}
		if (out.leak == "" && len(out.unclosed) == 0) || time.Now().After(deadline) {
			break
		}
		time.Sleep(2 * time.Millisecond)
	}
	for _, s := range srcs {
		if _, f := s.state(); f {
			out.srcFailed = true
		}
	}
	out.complete = out.pre == 0 && plan.reqCut < 0 && plan.respCut < 0 && !out.srcFailed
	out.desc = fmt.Sprintf("pre=%d timeout=%dms %s", out.pre, out.timeoutMS, plan)
	return out
}

// settleHorizon: how long after Submit returned a goroutine of the client may still be seen before
// it is called left behind. A goroutine that is really leaked stays for ever, so waiting costs time
// only on failing placements; one that is merely finishing is gone within microseconds.
const settleHorizon = 8 * time.Second

// clientGoroutines returns the stack of a goroutine that is running code of
// go-openapi/runtime/client, "" if there is none.
func clientGoroutines() string {
	buf := make([]byte, 1<<20)
	n := runtime.Stack(buf, true)
	for _, g := range strings.Split(string(buf[:n]), "\n\n") {
		if strings.Contains(g, "go-openapi/runtime/client.") && !strings.Contains(g, "main.clientGoroutines") {
			return g
		}
	}
	return ""
}

func serveScript(conn net.Conn, plan srvPlan, cancel context.CancelFunc) {
	if plan.reqCut >= 0 {
		_, _ = io.CopyN(io.Discard, conn, int64(plan.reqCut))
		return
	}
	br := bufio.NewReader(conn)
	for {
		req, err := http.ReadRequest(br)
		if err != nil {
			return
		}
		if _, err := io.Copy(io.Discard, req.Body); err != nil {
			return
		}
		if plan.cancelAt == 0 {
			cancel()
		}
		resp := []byte(respText)
		limit := len(resp)
		if plan.respCut >= 0 {
			limit = plan.respCut
		}
		written := 0
		for written < limit {
			next := limit
			if plan.cancelAt > written && plan.cancelAt < next {
				next = plan.cancelAt
			}
			if _, err := conn.Write(resp[written:next]); err != nil {
				return
			}
			written = next
			if written == plan.cancelAt {
				cancel()
			}
		}
		if plan.respCut >= 0 {
			if plan.after == 1 {
				_, _ = io.Copy(io.Discard, conn) // stall: until the client goes away
			}
			return
		}
	}
}

func judgeFault(fc FaultCase, o faultOutcome) (string, string) {
	sfx := ""
	if o.pre == 2 || o.pre == 3 {
		sfx = "/request-build-error-after-writer-started"
	}
	if o.panicked != "" {
		return "panic", fmt.Sprintf("Submit panics (%s): %s", o.desc, o.panicked)
	}
	if !o.returned {
		return "call-never-returns", fmt.Sprintf("Submit still running after the 30 s horizon (%s)", o.desc)
	}
	if o.leak != "" {
		return "goroutine-left-behind" + sfx, fmt.Sprintf("some seconds after Submit returned (err=%v; %s) a goroutine still runs client code: %s", o.err, o.desc, firstLines(o.leak, 8))
	}
	if len(o.unclosed) > 0 {
		return "upload-source-not-closed" + sfx, fmt.Sprintf("sources %v never closed (err=%v; %s)", o.unclosed, o.err, o.desc)
	}
	if o.srcFailed && o.err == nil {
		return "failed-upload-reported-as-success", fmt.Sprintf("an upload source failed and Submit returned nil error (%s)", o.desc)
	}
	if !o.complete && o.err == nil {
		// pre-send fault, request cut short by the server, or response cut short: never a success
		return "incomplete-exchange-reported-as-success", fmt.Sprintf("Submit returned nil error although %s", o.desc)
	}
	// a complete exchange may still fail (a 40 ms request timeout can fire first on a busy machine,
	// a cancellation can win): the property does not force success
	return "", fmt.Sprintf("err=%v (%s)", o.err, o.desc)
}

func replayFault(fc FaultCase) (string, string) {
	return judgeFault(fc, runFault(fc, choice.Replay(fc.Choices)))
}

// faultWorker: one process explores the scenarios assigned to it, strictly one
// execution at a time (the goroutine accounting is process wide).
func faultWorker(args []string) {
	bound, _ := strconv.Atoi(args[0])
	shard, _ := strconv.Atoi(args[1])
	shards, _ := strconv.Atoi(args[2])
	type res struct {
		Evals    int64            `json:"evals"`
		Outcomes map[string]int64 `json:"outcomes"`
		Fails    []report.Failure `json:"fails"`
		Samples  []any            `json:"samples"`
	}
	out := res{Outcomes: map[string]int64{}}
	k := 0
	for _, p := range faultPayloads {
		for _, reuse := range []bool{false, true} {
			fc := FaultCase{Kind: "fault", Payload: p, Reuse: reuse}
			// level-1 sharding: the default execution plus every single deviation, spread round robin
			var rec func(prefix []int, depth int)
			rec = func(prefix []int, depth int) {
				if len(out.Fails) >= 6 {
					return // enough to report; every further failing placement costs the settle horizon
				}
				c := choice.Replay(prefix)
				o := runFault(fc, c)
				mine := depth > 0 || shard == 0
				if mine {
					out.Evals++
					fcc := fc
					fcc.Choices = c.Choices()
					cl, what := judgeFault(fcc, o)
					if cl != "" && cl != "call-never-returns" {
						// confirm before believing: the same placement must fail again
						for i := 0; i < 1 && cl != ""; i++ {
							cl2, what2 := judgeFault(fcc, runFault(fc, choice.Replay(fcc.Choices)))
							if cl2 != cl {
								cl, what = "", what2
							}
						}
					}
					if cl != "" {
						out.Fails = append(out.Fails, report.Failure{Class: cl, What: what, Case: fcc})
					} else {
						lab := "ok"
						if o.err != nil {
							lab = "error"
						}
						out.Outcomes[fmt.Sprintf("%s:%s", fc.Payload, lab)]++
						if len(out.Samples) < 2 && c.Deviations() > 0 {
							out.Samples = append(out.Samples, map[string]any{"case": fcc, "observed": what})
						}
					}
				}
				dev := 0
				for i := 0; i < len(prefix); i++ {
					if c.Trace[i].Chosen != 0 {
						dev++
					}
				}
				if dev+1 > bound {
					return
				}
				for i := len(prefix); i < len(c.Trace); i++ {
					for alt := 1; alt < c.Trace[i].N; alt++ {
						if depth == 0 {
							k++
							if k%shards != shard {
								continue
							}
						}
						np := make([]int, i+1)
						for j := 0; j < i; j++ {
							np[j] = c.Trace[j].Chosen
						}
						np[i] = alt
						rec(np, depth+1)
					}
				}
			}
			rec(nil, 0)
		}
	}
	b, _ := json.Marshal(out)
	os.Stdout.Write(append(b, '\n'))
}

func faultSweep(r *report.R) {
	bound := 1
	n := runtime.NumCPU()
	type res struct {
		Evals    int64            `json:"evals"`
		Outcomes map[string]int64 `json:"outcomes"`
		Fails    []report.Failure `json:"fails"`
		Samples  []any            `json:"samples"`
	}
	results := make([]res, n)
	errs := make([]error, n)
	var wg sync.WaitGroup
	for i := 0; i < n; i++ {
		wg.Add(1)
		go func(i int) {
			defer wg.Done()
			cmd := exec.Command(os.Args[0], "faultworker", strconv.Itoa(bound), strconv.Itoa(i), strconv.Itoa(n))
			var ob, eb bytes.Buffer
			cmd.Stdout, cmd.Stderr = &ob, &eb
			if err := cmd.Run(); err != nil {
				if txt := eb.String(); strings.Contains(txt, "panic: ") && strings.Contains(txt, "go-openapi/runtime/client.") {
					// a goroutine of the client itself panicked: nothing in the process can recover that
					results[i].Fails = append(results[i].Fails, report.Failure{Class: "panic/in-a-goroutine-of-the-client",
						What: firstLines(txt[strings.Index(txt, "panic: "):], 14), Case: map[string]any{"kind": "fault", "note": "the worker process died; the placement is the one it was executing"}})
					return
				}
				errs[i] = fmt.Errorf("fault worker %d: %v\n%s", i, err, eb.String())
				return
			}
			lines := bytes.Split(bytes.TrimSpace(ob.Bytes()), []byte("\n"))
			if err := json.Unmarshal(lines[len(lines)-1], &results[i]); err != nil {
				errs[i] = fmt.Errorf("fault worker %d: %v", i, err)
			}
		}(i)
	}
	wg.Wait()
	total := int64(0)
	for i := range results {
		if errs[i] != nil {
			fmt.Fprintln(os.Stderr, "internal error:", errs[i])
			os.Exit(2)
		}
		total += results[i].Evals
		for k, v := range results[i].Outcomes {
			r.Outcome("fault:"+k, v)
		}
		for _, f := range results[i].Fails {
			r.Fail(f.Class, f.What, f.Case)
		}
		for _, s := range results[i].Samples {
			r.Sample(s)
		}
	}
	r.Eval(total)
	r.Nontrivial(total)
	r.Set("fault_placements", total)
	r.Set("fault_bound", bound)
	r.Set("fault_axes", map[string]any{"payloads": faultPayloads, "reuse": 2, "pre_send": 4, "timeouts": 3, "server_plans": 1 + 2*len(respText) + 4, "cancel_points": 7, "source_reads": "each read: full / 1 byte / fail"})
}
