package main

import (
	"context"
	"errors"
	"fmt"
	"io"
	"net/http"
	"sort"
	"strings"
	"time"

	"github.com/go-openapi/runtime"
	"github.com/go-openapi/runtime/client"
	"github.com/go-openapi/runtime/verifrt"
	"github.com/go-openapi/strfmt"

	"verif/engine/sched"
)

// ---- scripted upload source (environment owned by the explorer's data choices) ----

var errSource = errors.New("injected upload source error")

type upFile struct {
	name    string
	data    []byte
	typed   bool // has a ContentType() method -> no sniffing read
	pos     int
	closes  int
	failed  bool // an injected failure was delivered to the code
	reads   int
	sawEOF  bool
	noFault bool
}

func (f *upFile) Name() string { return f.name }
func (f *upFile) Close() error {
	f.closes++
	// closing may fail (a flush to a remote file system, a pipe whose peer is gone): 0 = fine, 1 = error
	if !f.noFault && f.closes == 1 && verifrt.Choose("source.Close:"+f.name, 2) == 1 {
		return errSource
	}
	return nil
}
func (f *upFile) Read(p []byte) (int, error) {
	f.reads++
	if f.failed {
		return 0, errSource
	}
	if len(p) == 0 {
		return 0, nil
	}
	rem := f.data[f.pos:]
	if len(rem) == 0 {
		f.sawEOF = true
		return 0, io.EOF
	}
	// 0: as much as fits; 1: one byte (short read); 2: fail now; 3: everything that fits together with EOF
	n := 2
	if !f.noFault {
		n = 3
		if len(p) >= len(rem) {
			n = 4
		}
	}
	switch verifrt.Choose("source.Read:"+f.name, n) {
	case 1:
		p[0] = rem[0]
		f.pos++
		return 1, nil
	case 2:
		f.failed = true
		return 0, errSource
	case 3:
		k := copy(p, rem)
		f.pos += k
		f.sawEOF = true
		return k, io.EOF
	}
	k := copy(p, rem)
	f.pos += k
	return k, nil
}

type typedFile struct{ *upFile }

func (t typedFile) ContentType() string { return "application/x-verif" }

// ---- scripted response body ----

type respBody struct {
	stall           bool // the peer never sends the rest: Read blocks for ever
	data            []byte
	pos             int
	fail            bool // fails instead of delivering its last byte
	closes          int
	atEnd           bool // EOF or the failure has been delivered
	posAtFirstClose int
}

func (b *respBody) Read(p []byte) (int, error) {
	if len(p) == 0 {
		return 0, nil
	}
	if b.stall {
		verifrt.Block("stalled-response-body", func() bool { return false })
	}
	if b.pos >= len(b.data) {
		b.atEnd = true
		return 0, io.EOF
	}
	if b.fail && b.pos == len(b.data)-1 {
		b.atEnd = true
		return 0, io.ErrUnexpectedEOF
	}
	n := copy(p, b.data[b.pos:])
	if b.fail && b.pos+n == len(b.data) {
		n--
	}
	b.pos += n
	return n, nil
}
func (b *respBody) Close() error {
	if b.closes == 0 {
		b.posAtFirstClose = b.pos
		if b.atEnd {
			b.posAtFirstClose = len(b.data)
		}
	}
	b.closes++
	return nil
}

// ---- scripted transport ----

type stubT struct {
	stallOK  bool // a canceller exists, so "stall until the context is done" may be offered
	mode     int
	gotBody  []byte
	bodyErr  error
	resp     *respBody
	returned string
	sawDone  bool
	ct       string // Content-Type of the response
	// what the request context said when the transport was entered
	entered     bool
	enterAt     time.Time
	deadline    time.Time
	hasDeadline bool
	stallBody   bool // fixed script: read the request, answer 200 with a body that never ends
}

var errTransport = errors.New("injected transport error")

func (t *stubT) RoundTrip(req *http.Request) (*http.Response, error) {
	verifrt.P("transport:enter")
	t.entered, t.enterAt = true, time.Now()
	t.deadline, t.hasDeadline = req.Context().Deadline()
	if t.stallBody {
		if req.Body != nil {
			_, _ = io.Copy(io.Discard, req.Body)
			req.Body.Close()
		}
		t.mode = 0
		t.resp = &respBody{data: []byte("response-text"), stall: true}
		t.returned = "response"
		return &http.Response{StatusCode: 200, Status: "200 OK", Proto: "HTTP/1.1", ProtoMajor: 1, ProtoMinor: 1,
			Header: http.Header{"Content-Type": []string{"text/plain"}}, Body: t.resp, Request: req}, nil
	}
	n := 5
	if t.stallOK {
		n = 6
	}
	// 0 read whole body, answer 200; 1 fail before reading; 2 read one chunk then fail;
	// 3 answer 200 without reading; 4 read whole body, answer with a body that fails before its end;
	// 5 stall until the request context is done
	t.mode = verifrt.Choose("transport.mode", n)
	closeBody := func() {
		if req.Body != nil {
			req.Body.Close()
		}
	}
	read := func(max int) {
		if req.Body == nil {
			return
		}
		chunk := []int{4096, 1, 7}[verifrt.Choose("transport.chunk", 3)]
		buf := make([]byte, chunk)
		for i := 0; max < 0 || i < max; i++ {
			k, err := req.Body.Read(buf)
			t.gotBody = append(t.gotBody, buf[:k]...)
			if err != nil {
				if err != io.EOF {
					t.bodyErr = err
				}
				return
			}
		}
	}
	switch t.mode {
	case 1:
		closeBody()
		t.returned = "error-before-reading"
		return nil, errTransport
	case 2:
		read(1)
		closeBody()
		t.returned = "error-after-one-chunk"
		return nil, errTransport
	case 3:
		closeBody()
	case 5:
		verifrt.Block("stalled-server", func() bool { return req.Context().Err() != nil })
		t.sawDone = true
		closeBody()
		t.returned = "stalled-until-context-done"
		return nil, req.Context().Err()
	default:
		read(-1)
		closeBody()
		if t.bodyErr != nil {
			// a real transport fails the exchange when the request body fails
			t.returned = "request-body-failed"
			return nil, fmt.Errorf("transport: request body: %w", t.bodyErr)
		}
	}
	t.resp = &respBody{data: []byte("response-text"), fail: t.mode == 4}
	t.returned = "response"
	verifrt.P("transport:exit")
	// what the response says it is: dispatchable, without a registered consumer, not parseable, silent
	t.ct = []string{"text/plain", "application/pdf", "text/plain; charset", ""}[verifrt.Choose("response.content-type", 4)]
	h := http.Header{}
	if t.ct != "" {
		h.Set("Content-Type", t.ct)
	}
	return &http.Response{StatusCode: 200, Status: "200 OK", Proto: "HTTP/1.1", ProtoMajor: 1, ProtoMinor: 1,
		Header: h, Body: t.resp, Request: req}, nil
}

// ---- scenarios ----

type e3Scenario struct {
	Name       string
	Fields     bool
	Files      int    // number of upload sources
	Typed      bool   // sources declare their content type
	Payload    string // "" | "json" | "reader" | "readcloser"
	Fault      string // "" | "params" | "auth" | "auth-getbody" | "basepath"
	Canceller  bool
	Reuse      bool
	NoSrcFault bool
	Twin       bool // two overlapping calls on one Runtime
	OneField   bool // all files under one form field name
	Debug      bool // Runtime.Debug: request and response are dumped to the logger
	WithClient bool // the Runtime is built around an existing http.Client (NewWithClient), reuse enabled afterwards
	BareClient bool // ... and that client has no Transport of its own (the process default transport is the scripted one)
	// twin scenarios only:
	TwinTimeouts bool // the first call asks for a request timeout of one hour, the second for none
	TwinStalls   bool // the second call has no deadline at all and its response body never ends
}

type quietLogger struct{}

func (quietLogger) Printf(string, ...interface{}) {}
func (quietLogger) Debugf(string, ...interface{}) {}

func e3Scenarios() []e3Scenario {
	return []e3Scenario{
		{Name: "multipart-1-file", Files: 1},
		{Name: "multipart-fields+2-files", Fields: true, Files: 2},
		{Name: "multipart-3-files-one-field", Files: 3, OneField: true},
		{Name: "multipart-typed-file-reuse", Files: 1, Typed: true, Reuse: true},
		{Name: "multipart-fields-only", Fields: true},
		{Name: "multipart-auth-error", Fields: true, Files: 1, Fault: "auth", NoSrcFault: true},
		{Name: "multipart-auth-getbody-then-error", Files: 1, Fault: "auth-getbody", NoSrcFault: true},
		{Name: "multipart-bad-basepath", Files: 1, Fault: "basepath", NoSrcFault: true},
		{Name: "multipart-params-error", Files: 1, Fault: "params", NoSrcFault: true},
		{Name: "multipart-cancelled", Files: 1, Canceller: true, NoSrcFault: true},
		{Name: "readcloser-payload", Payload: "readcloser", Reuse: true},
		{Name: "json-payload-cancelled", Payload: "json", Canceller: true},
		{Name: "json-payload-debug-reuse", Payload: "json", Debug: true, Reuse: true},
		{Name: "json-payload-reuse-enabled-on-existing-client", Payload: "json", Reuse: true, WithClient: true},
		{Name: "json-payload-reuse-enabled-on-existing-bare-client", Payload: "json", Reuse: true, WithClient: true, BareClient: true},
		{Name: "two-overlapping-uploads", Fields: true, Files: 1, Twin: true, NoSrcFault: true},
		{Name: "two-overlapping-uploads-reuse-faults", Files: 1, Twin: true, Reuse: true},
		{Name: "two-overlapping-calls-different-timeouts", Payload: "json", Twin: true, TwinTimeouts: true},
		{Name: "two-overlapping-calls-debug-one-stalls-for-ever", Payload: "json", Twin: true, Debug: true, Canceller: true, TwinStalls: true},
	}
}

func findE3(name string) e3Scenario {
	for _, s := range e3Scenarios() {
		if s.Name == name {
			return s
		}
	}
	panic("unknown scenario " + name)
}

// SchedCase is the replayable form of one schedule.
type SchedCase struct {
	Kind     string `json:"kind"` // "schedule"
	Scenario string `json:"scenario"`
	Choices  []int  `json:"choices"`
}

type e3World struct {
	sc         e3Scenario
	files      []*upFile
	payload    *upFile
	tr         *stubT
	res        interface{}
	err        error
	returned   bool
	readerRan  bool
	readerMode int
	twin       *e3World
	label      string
	timeoutSet bool
	timeout    time.Duration
	startAt    time.Time
	stalls     bool // this call is expected never to return (no deadline, peer never finishes)
}

func newE3World(sc e3Scenario) *e3World {
	w := &e3World{sc: sc, tr: &stubT{stallOK: sc.Canceller}}
	for i := 0; i < sc.Files; i++ {
		w.files = append(w.files, &upFile{name: fmt.Sprintf("dir/f%d.txt", i+1), data: []byte(strings.Repeat(string(rune('a'+i)), 3)), typed: sc.Typed, noFault: sc.NoSrcFault})
	}
	if sc.Payload == "reader" || sc.Payload == "readcloser" {
		w.payload = &upFile{name: "payload", data: []byte("payload-bytes"), noFault: sc.NoSrcFault}
	}
	if sc.Twin {
		t := sc
		t.Twin = false
		if sc.TwinStalls {
			t.Canceller = false
		}
		w.twin = newE3World(t)
		w.twin.label = "second call: "
		if sc.TwinTimeouts {
			w.timeoutSet, w.timeout = true, time.Hour
			w.twin.timeoutSet, w.twin.timeout = true, 0
		}
		if sc.TwinStalls {
			w.twin.stalls = true
			w.twin.tr.stallBody = true
		}
		for i, f := range w.twin.files {
			f.name = fmt.Sprintf("dir/g%d.txt", i+1)
			f.data = []byte(strings.Repeat(string(rune('p'+i)), 4))
		}
	}
	return w
}

var errParams = errors.New("injected params error")
var errAuth = errors.New("injected auth error")

// body is thread 0: it starts the caller (and the canceller) and ends.
func (w *e3World) body() {
	sc := w.sc
	basePath := "/base"
	if sc.Fault == "basepath" {
		basePath = "/base%zz" // does not parse as a URL
	}
	rt := client.New("example.test", basePath, []string{"http"})
	if sc.WithClient {
		hc := &http.Client{Transport: w.tr}
		if sc.BareClient {
			// a client that relies on the default transport: whatever path the request takes, it ends
			// at the scripted transport of this execution (one execution at a time per process)
			hc = &http.Client{}
			http.DefaultTransport = w.tr
		}
		rt = client.NewWithClient("example.test", basePath, []string{"http"}, hc)
	}
	rt.Transport = w.tr
	if sc.Debug {
		// (only with a buffered payload: the dump reads the request body on a goroutine of net/http/httputil)
		rt.Debug = true
		rt.SetLogger(quietLogger{})
	}
	if sc.Reuse {
		rt.EnableConnectionReuse()
	}
	w.launch(rt, "caller", nil)
	if w.twin != nil {
		// a second, overlapping call on the SAME Runtime with its own files and its own transport
		var tr http.RoundTripper = w.twin.tr
		if sc.Reuse {
			tr = client.KeepAliveTransport(tr)
		}
		w.twin.launch(rt, "caller2", &http.Client{Transport: tr})
	}
}

// launch starts one call as its own thread (plus its canceller).
func (w *e3World) launch(rt *client.Runtime, name string, own *http.Client) {
	sc := w.sc
	ctx, cancel := context.WithCancel(context.Background())
	op := &runtime.ClientOperation{
		ID: "upload", Method: "POST", PathPattern: "/up", Schemes: []string{"http"},
		ProducesMediaTypes: []string{"text/plain"}, ConsumesMediaTypes: []string{"multipart/form-data"},
		Context: ctx,
		Params: runtime.ClientRequestWriterFunc(func(req runtime.ClientRequest, _ strfmt.Registry) error {
			if sc.Fields {
				_ = req.SetFormParam("fa", "v1", "v2")
			}
			for i, f := range w.files {
				var nf runtime.NamedReadCloser = f
				if f.typed {
					nf = typedFile{f}
				}
				if sc.OneField {
					continue
				}
				if err := req.SetFileParam(fmt.Sprintf("file%d", i+1), nf); err != nil {
					return err
				}
			}
			if sc.OneField {
				var all []runtime.NamedReadCloser
				for _, f := range w.files {
					all = append(all, f)
				}
				if err := req.SetFileParam("files", all...); err != nil {
					return err
				}
			}
			switch sc.Payload {
			case "json":
				_ = req.SetBodyParam(map[string]string{"k": "v"})
			case "reader":
				_ = req.SetBodyParam(struct{ io.Reader }{w.payload})
			case "readcloser":
				_ = req.SetBodyParam(w.payload)
			}
			if w.timeoutSet {
				if err := req.SetTimeout(w.timeout); err != nil {
					return err
				}
			}
			if sc.Fault == "params" {
				return errParams
			}
			return nil
		}),
		Reader: runtime.ClientResponseReaderFunc(func(resp runtime.ClientResponse, cons runtime.Consumer) (interface{}, error) {
			w.readerRan = true
			// 0 read everything; 1 read nothing; 2 read one byte
			w.readerMode = verifrt.Choose("reader.mode", 3)
			switch w.readerMode {
			case 1:
				return "unread", nil
			case 2:
				b := make([]byte, 1)
				_, err := resp.Body().Read(b)
				return string(b), err
			}
			var s string
			if err := cons.Consume(resp.Body(), &s); err != nil {
				return nil, err
			}
			return s, nil
		}),
	}
	if sc.Payload != "" {
		op.ConsumesMediaTypes = []string{"application/json"}
		if sc.Payload != "json" {
			op.ConsumesMediaTypes = []string{"application/octet-stream"}
		}
	}
	switch sc.Fault {
	case "auth":
		op.AuthInfo = runtime.ClientAuthInfoWriterFunc(func(runtime.ClientRequest, strfmt.Registry) error { return errAuth })
	case "auth-getbody":
		op.AuthInfo = runtime.ClientAuthInfoWriterFunc(func(r runtime.ClientRequest, _ strfmt.Registry) error {
			_ = r.GetBody()
			return errAuth
		})
	}
	op.Client = own
	verifrt.GoNamed(name, func() {
		w.startAt = time.Now()
		w.res, w.err = rt.Submit(op)
		w.returned = true
	})
	if sc.Canceller {
		verifrt.GoNamed("canceller-of-"+name, cancel)
	}
	_ = cancel
}

// judge evaluates the invariants of C12 on one finished execution (both calls of a twin scenario).
func (w *e3World) judge(x *verifrt.Exec) (class, what string) {
	class, what = w.judgeOne(x)
	if class == "" && w.twin != nil && !w.twin.stalls {
		if c2, w2 := w.twin.judgeOne(x); c2 != "" {
			return c2, w.twin.label + w2
		}
	}
	return class, what
}

func (w *e3World) judgeOne(x *verifrt.Exec) (class, what string) {
	sc := w.sc
	sfx := ""
	if sc.Fault == "auth" || sc.Fault == "auth-getbody" || sc.Fault == "basepath" {
		sfx = "/request-build-error-after-writer-started"
	}
	for _, p := range x.Panics {
		if strings.HasPrefix(p, "REPLAY-DIVERGENCE") {
			return "replay-divergence", p
		}
		return "panic", firstLines(p, 8)
	}
	if x.Aborted {
		return "horizon-reached", "execution did not finish"
	}
	if w.twin != nil && w.twin.stalls {
		// the other call waits for ever by construction (no deadline, a peer that never finishes): its
		// thread stays blocked; nothing else may, and this call must not depend on it
		var rest []string
		for _, b := range x.Blocked {
			if !strings.HasSuffix(b, ": stalled-response-body") {
				rest = append(rest, b)
			}
		}
		x = &verifrt.Exec{Steps: x.Steps, Blocked: rest, Deadlock: len(rest) > 0, Preemptions: x.Preemptions, DataDevs: x.DataDevs}
	}
	if !w.returned {
		return "call-never-returns" + sfx, fmt.Sprintf("Submit did not return; blocked threads: %v", x.Blocked)
	}
	if x.Deadlock || len(x.Blocked) > 0 {
		sort.Strings(x.Blocked)
		return "goroutine-left-blocked" + sfx, fmt.Sprintf("Submit returned (err=%v) but threads are still blocked: %v", w.err, x.Blocked)
	}
	for _, f := range append(append([]*upFile{}, w.files...), w.payloadList()...) {
		if f.closes == 0 {
			if sc.Fault == "params" {
				continue // the request was never built; nothing was handed over to a writer (MAY)
			}
			if f == w.payload && sc.Payload == "reader" {
				continue
			}
			return "upload-source-not-closed" + sfx, fmt.Sprintf("source %s never closed (Submit err=%v, transport: %s)", f.name, w.err, w.tr.returned)
		}
	}
	if w.timeoutSet && w.tr.entered {
		// the deadline the transport saw is this call's own: request timeout T (0 = none) on a caller
		// context without deadline. The context was made between the start of Submit and the entry into
		// the transport, whatever the schedule did in between.
		switch {
		case w.timeout == 0 && w.tr.hasDeadline:
			return "effective-deadline-wrong", fmt.Sprintf("the call asked for no request timeout and its context has none, yet the request context carries a deadline %v from now", w.tr.deadline.Sub(w.tr.enterAt).Round(time.Second))
		case w.timeout > 0 && !w.tr.hasDeadline:
			return "effective-deadline-wrong", fmt.Sprintf("the call asked for a request timeout of %v, the request context carries no deadline at all", w.timeout)
		case w.timeout > 0 && (w.tr.deadline.Before(w.startAt.Add(w.timeout)) || w.tr.deadline.After(w.tr.enterAt.Add(w.timeout))):
			return "effective-deadline-wrong", fmt.Sprintf("the call asked for a request timeout of %v, the request context expires %v after the call started", w.timeout, w.tr.deadline.Sub(w.startAt).Round(time.Millisecond))
		}
	}
	complete := w.tr.returned == "response" && w.tr.mode != 4
	if w.tr.returned == "response" && w.tr.mode == 4 && w.readerMode != 0 {
		complete = true // the reader did not look at the failing part of the body
	}
	if !complete && w.err == nil {
		return "incomplete-exchange-reported-as-success", fmt.Sprintf("Submit returned (%v, nil) although the exchange ended with: fault=%q transport=%q", w.res, sc.Fault, w.tr.returned)
	}
	srcFailed := false
	for _, f := range append(append([]*upFile{}, w.files...), w.payloadList()...) {
		if f.failed {
			srcFailed = true
		}
	}
	if srcFailed && w.err == nil && (w.tr.mode == 0 || w.tr.mode == 4) {
		return "failed-upload-reported-as-success", fmt.Sprintf("an upload source failed, the transport consumed the whole body (%q) and Submit returned (%v, nil)", w.tr.gotBody, w.res)
	}
	if w.tr.resp != nil {
		if w.tr.resp.closes == 0 {
			return "response-body-not-closed", fmt.Sprintf("response delivered, Submit returned (%v, %v), body never closed", w.res, w.err)
		}
		if sc.Reuse && w.tr.resp.posAtFirstClose != len(w.tr.resp.data) {
			return "response-body-not-drained", fmt.Sprintf("connection reuse enabled: body closed at offset %d of %d without its end having been seen (reader mode %d)", w.tr.resp.posAtFirstClose, len(w.tr.resp.data), w.readerMode)
		}
	}
	return "", fmt.Sprintf("err=%v transport=%s", w.err, w.tr.returned)
}

func (w *e3World) payloadList() []*upFile {
	if w.payload != nil {
		return []*upFile{w.payload}
	}
	return nil
}

func firstLines(s string, n int) string {
	l := strings.Split(s, "\n")
	if len(l) > n {
		l = l[:n]
	}
	return strings.Join(l, " | ")
}

func exploreE3(name string, o verifrt.Options, c *sched.Collector) verifrt.Stats {
	sc := findE3(name)
	verifrt.SetOrderChooser(func(string, int) int { return 0 })
	return verifrt.Explore(o, func() (func(), func(*verifrt.Exec)) {
		w := newE3World(sc)
		return w.body, func(x *verifrt.Exec) {
			cl, what := w.judge(x)
			if cl != "" {
				c.Fail(cl, what, SchedCase{"schedule", name, x.Choices()})
				return
			}
			lab := "ok"
			if w.err != nil {
				lab = "error"
			}
			c.Outcome(lab + ":" + w.tr.returned)
			if x.Preemptions+x.DataDevs > 0 {
				c.Sample(map[string]any{"scenario": name, "preemptions": x.Preemptions, "data_deviations": x.DataDevs, "choice_points": len(x.Steps), "result": what})
			}
		}
	})
}

func replayE3(cs SchedCase) (string, string) {
	verifrt.SetOrderChooser(func(string, int) int { return 0 })
	w := newE3World(findE3(cs.Scenario))
	x := verifrt.Run(cs.Choices, 0, w.body)
	return w.judge(x)
}
