// C05 - trie router core: lookups are sound, complete, total and independent
// of insertion order. Small-scope exhaustive enumeration (E1) of pattern sets x
// insertion orders x raw byte paths against a naive reference matcher.
package main

import (
	"fmt"
	"net/http"
	"net/url"
	"sort"
	"strings"
	"sync"

	"github.com/go-openapi/runtime/middleware/denco"

	"verif/engine/enum"
	"verif/engine/report"
)

// ---- reference: what it means for a path to instantiate a pattern ----

type tok struct {
	kind byte // 'L' literal, 'P' single-segment parameter, 'W' wildcard
	text string
}

func parsePattern(p string) []tok {
	var out []tok
	lit := ""
	for i := 0; i < len(p); {
		c := p[i]
		if (c == ':' || c == '*') && i > 0 && (p[i-1] == '/' || (c == ':' && (p[i-1] == '=' || p[i-1] == '.'))) {
			if lit != "" {
				out = append(out, tok{'L', lit})
				lit = ""
			}
			j := i + 1
			if c == '*' {
				j = len(p)
			} else {
				for j < len(p) && p[j] != '/' {
					j++
				}
			}
			k := byte('P')
			if c == '*' {
				k = 'W'
			}
			out = append(out, tok{k, p[i+1 : j]})
			i = j
			continue
		}
		lit += p[i : i+1] // (a byte, not a rune)
		i++
	}
	if lit != "" {
		out = append(out, tok{'L', lit})
	}
	return out
}

type bind struct{ Name, Value string }

// match: does path instantiate the pattern; bindings in order; nonEmpty: every
// placeholder text is non-empty; align: bit i set = path byte i consumed by a literal.
func match(pt []tok, path string) (ok bool, b []bind, nonEmpty bool, align uint64) {
	i := 0
	nonEmpty = true
	for _, t := range pt {
		switch t.kind {
		case 'L':
			if !strings.HasPrefix(path[i:], t.text) {
				return false, nil, false, 0
			}
			for k := 0; k < len(t.text); k++ {
				align |= 1 << uint(i+k)
			}
			i += len(t.text)
		case 'P':
			j := i
			for j < len(path) && path[j] != '/' {
				j++
			}
			if j == i {
				nonEmpty = false
			}
			b = append(b, bind{t.text, path[i:j]})
			i = j
		case 'W':
			if i == len(path) {
				nonEmpty = false
			}
			b = append(b, bind{t.text, path[i:]})
			i = len(path)
		}
	}
	if i != len(path) {
		return false, nil, false, 0
	}
	return true, b, nonEmpty, align
}

func isStatic(pt []tok) bool {
	for _, t := range pt {
		if t.kind != 'L' {
			return false
		}
	}
	return true
}

// ---- the case and its check ----

type Case struct {
	Patterns []string `json:"patterns"` // in insertion order
	Path     string   `json:"path"`
	Via      string   `json:"via"` // "lookup" or "mux"
}

type result struct {
	found  bool
	data   int
	params []bind
	panic  string
}

func (r result) String() string {
	if r.panic != "" {
		return "panic: " + r.panic
	}
	if !r.found {
		return "not found"
	}
	return fmt.Sprintf("found data=%d params=%v", r.data, r.params)
}

func build(patterns []string) (*denco.Router, error) { return buildHint(patterns, -1) }

// buildHint builds with a caller-set SizeHint (documented as a capacity hint only); -1 = default.
func buildHint(patterns []string, hint int) (*denco.Router, error) {
	recs := make([]denco.Record, len(patterns))
	for i, p := range patterns {
		recs[i] = denco.NewRecord(p, i)
	}
	rt := denco.New()
	if hint >= 0 {
		rt.SizeHint = hint
	}
	var err error
	func() {
		defer func() {
			if e := recover(); e != nil {
				err = fmt.Errorf("build panic: %v", e)
			}
		}()
		err = rt.Build(recs)
	}()
	return rt, err
}

func lookup(rt *denco.Router, path string) (res result) {
	defer func() {
		if e := recover(); e != nil {
			res = result{panic: fmt.Sprint(e)}
		}
	}()
	d, ps, found := rt.Lookup(path)
	if !found {
		return result{}
	}
	res.found = true
	res.data, _ = d.(int)
	for _, p := range ps {
		res.params = append(res.params, bind{p.Name, p.Value})
	}
	return res
}

func sameBinds(a, b []bind) bool {
	if len(a) != len(b) {
		return false
	}
	for i := range a {
		if a[i] != b[i] {
			return false
		}
	}
	return true
}

func hasReserved(path string) bool { return strings.ContainsAny(path, ":*#") }

// mcell is the precomputed reference verdict for one (pattern, path) pair:
// bit15 = instantiates, bit14 = all placeholder texts non-empty, low bits = literal alignment.
type mcell uint16

func cell(pt []tok, path string) mcell {
	ok, _, ne, al := match(pt, path)
	if !ok {
		return 0
	}
	c := mcell(1<<15) | mcell(al&0x3fff)
	if ne {
		c |= 1 << 14
	}
	return c
}

// fastOK is the allocation-free common case of judge: it returns true when the
// result certainly satisfies the oracle (not found and nothing instantiates; or
// found and the table cannot decide - then the slow path runs).
func fastOK(cells []mcell, res *result) bool {
	if res.found || res.panic != "" {
		return false
	}
	for _, c := range cells {
		if c&(1<<15) != 0 && c&(1<<14) != 0 {
			return false
		}
	}
	return true
}

// judge compares one lookup result with the reference; returns "" or (class, what).
func judge(patterns []string, toks [][]tok, path string, res result) (string, string) {
	sfx := ""
	if hasReserved(path) {
		sfx = "/reserved-byte-in-path"
	}
	if res.panic != "" {
		return "panic" + sfx, res.String()
	}
	type m struct {
		idx      int
		b        []bind
		nonEmpty bool
		align    uint64
	}
	var ms []m
	for i, pt := range toks {
		if ok, b, ne, al := match(pt, path); ok {
			ms = append(ms, m{i, b, ne, al})
		}
	}
	if res.found {
		var hit *m
		for i := range ms {
			if ms[i].idx == res.data {
				hit = &ms[i]
			}
		}
		if hit == nil {
			return "unsound-wrong-pattern" + sfx, fmt.Sprintf("%s, but path does not instantiate %q", res, patterns[res.data])
		}
		if !sameBinds(hit.b, res.params) {
			return "unsound-params" + sfx, fmt.Sprintf("%s, expected params %v of %q", res, hit.b, patterns[res.data])
		}
		// a path equal to a parameter-free pattern returns that pattern's value
		for i, pt := range toks {
			if isStatic(pt) && patterns[i] == path && res.data != i {
				return "static-not-preferred" + sfx, fmt.Sprintf("%s, but path equals parameter-free pattern %q", res, patterns[i])
			}
		}
		// literal preferred: no other instantiated pattern has a literal at the first
		// byte where the alignments differ and the result has a placeholder
		for _, o := range ms {
			if o.idx == hit.idx || !o.nonEmpty {
				continue
			}
			d := o.align ^ hit.align
			if d == 0 {
				continue
			}
			first := d & -d
			if o.align&first != 0 {
				return "literal-not-preferred" + sfx, fmt.Sprintf("%s, but %q matches with a literal where %q has a placeholder", res, patterns[o.idx], patterns[hit.idx])
			}
		}
		return "", ""
	}
	for _, o := range ms {
		if o.nonEmpty {
			return "incomplete" + sfx, fmt.Sprintf("not found, but path instantiates %q with %v", patterns[o.idx], o.b)
		}
	}
	return "", ""
}

func check(c Case) (string, string) {
	toks := make([][]tok, len(c.Patterns))
	for i, p := range c.Patterns {
		toks[i] = parsePattern(p)
	}
	if c.Via == "mux" {
		res, err := muxLookup(c.Patterns, c.Path)
		if err != nil {
			return "", ""
		}
		return judge(c.Patterns, toks, c.Path, res)
	}
	hint := -1
	if strings.HasPrefix(c.Via, "lookup-sizehint-") {
		fmt.Sscanf(c.Via, "lookup-sizehint-%d", &hint)
	}
	rt, err := buildHint(c.Patterns, hint)
	if err != nil {
		return "", ""
	}
	return judge(c.Patterns, toks, c.Path, lookup(rt, c.Path))
}

func muxHandler(patterns []string, out *result) (http.Handler, error) {
	hs := make([]denco.Handler, len(patterns))
	mux := denco.NewMux()
	for i, p := range patterns {
		i := i
		hs[i] = mux.GET(p, func(_ http.ResponseWriter, _ *http.Request, ps denco.Params) {
			out.found = true
			out.data = i
			out.params = nil
			for _, p := range ps {
				out.params = append(out.params, bind{p.Name, p.Value})
			}
		})
	}
	return mux.Build(hs)
}

func muxServe(h http.Handler, out *result, path string) (res result) {
	*out = result{}
	defer func() {
		if e := recover(); e != nil {
			res = result{panic: fmt.Sprint(e)}
		}
	}()
	req := &http.Request{Method: "GET", URL: &url.URL{Path: path}}
	h.ServeHTTP(nopWriter{}, req)
	return *out
}

// nopWriter: the denco mux writes only through NotFound (status + text), which the check does not read.
type nopWriter struct{}

func (nopWriter) Header() http.Header         { return http.Header{} }
func (nopWriter) Write(b []byte) (int, error) { return len(b), nil }
func (nopWriter) WriteHeader(int)             {}

func muxLookup(patterns []string, path string) (result, error) {
	var out result
	h, err := muxHandler(patterns, &out)
	if err != nil {
		return result{}, err
	}
	return muxServe(h, &out, path), nil
}

// ---- universes ----

func universe(segs []string, maxSeg int, withWild bool) []string {
	var out []string
	var rec func(prefix string, depth int)
	rec = func(prefix string, depth int) {
		if depth > 0 {
			out = append(out, prefix)
		}
		if withWild && depth < maxSeg {
			out = append(out, prefix+"/*w")
		}
		if depth == maxSeg {
			return
		}
		for _, s := range segs {
			if strings.HasPrefix(s, "a.:") && !strings.Contains(prefix, "/:") {
				// a placeholder in the middle of a segment ("/a.:p") is generated only after an ordinary
				// placeholder: alone, the router files the pattern under its static keys
				continue
			}
			rec(prefix+"/"+s, depth+1)
		}
	}
	rec("", 0)
	sort.SliceStable(out, func(i, j int) bool { return len(out[i]) < len(out[j]) })
	// placeholder names are unique per pattern and position (p<pattern>x<k>, w<pattern>), so that a
	// name that leaks from one record into another is visible
	for i, p := range out {
		k := 0
		for strings.Contains(p, ":p/") || strings.HasSuffix(p, ":p") {
			k++
			p = strings.Replace(p, ":p", fmt.Sprintf(":n%dx%d", i, k), 1)
		}
		out[i] = strings.Replace(p, "*w", fmt.Sprintf("*w%d", i), 1)
	}
	return out
}

func paths(alpha []string, maxLen int) []string {
	ss := enum.Strings(alpha, maxLen-1)
	out := make([]string, 0, len(ss)+600)
	for _, s := range ss {
		out = append(out, "/"+s)
	}
	// paths that do not start with '/' (totality), short
	for _, s := range enum.Strings(alpha, 3) {
		if !strings.HasPrefix(s, "/") {
			out = append(out, s)
		}
	}
	return out
}

// oddAlpha: bytes that mean something to URLs, to C strings or to nobody - none of them means
// anything to the router, so each is ordinary parameter text.
var oddAlpha = []string{"/", "a", " ", "%", ".", "?", "\x00", "\xff", "\xc3\xa9", "\t", "&", "\\"}

// oddNames: a placeholder's name runs to the next '/', whatever bytes it contains.
var oddNames = []string{"a", ":p", ":p.q", ":p q", ":p-q", ":p=q", ":p%2Fq"}

// nonASCII: literal segments made of multi-byte runes and of bytes that are not valid UTF-8 at all:
// the trie works on bytes, so every byte value is an ordinary edge label; the paths contain the same
// runes whole, cut in two, and as their Latin-1 neighbours.
var nonASCII = []string{"a", "\xc3\xa9", "\xe6\x97\xa5", "\xff", ":p", "a=:p"}
var nonASCIIPath = []string{"/", "a", "\xc3\xa9", "\xe6\x97\xa5", "\xc3", "\xa9", "\xe9", "\xff", "="}

type sweep struct {
	name     string
	universe []string
	sizes    []int // set sizes
	paths    []string
	allPerms bool
}

func main() {
	r := report.Start("C05", "exploration")
	if r.Replay != "" {
		var mc MuxCase
		r.LoadReplay(&mc)
		if mc.Kind == "mux-methods" {
			cl, what := checkMux(mc)
			fmt.Printf("replay %+v\n  class=%q %s\n", mc, cl, what)
			if cl != "" {
				r.Fail(cl, what, mc)
			}
			r.Eval(1)
			r.Nontrivial(1)
			r.Sample(mc)
			r.Finish("replay of one case", false)
		}
		var c Case
		r.LoadReplay(&c)
		cl, what := check(c)
		fmt.Printf("replay %+v\n  class=%q %s\n", c, cl, what)
		if cl != "" {
			r.Fail(cl, what, c)
		}
		r.Eval(1)
		r.Nontrivial(2)
		r.Sample(c)
		r.Finish("replay of one case", false)
	}

	alpha := []string{"/", "a", "b", "x", ":", "*", "#", "="}
	big := universe([]string{"a", "b", "ab", ":p", "a=:p"}, 3, true)
	small := universe([]string{"a", "b", ":p"}, 3, true)
	var sweeps []sweep
	if r.Thorough() {
		sweeps = []sweep{
			{"pairs-full-universe", big, []int{1, 2}, paths(alpha, 6), true},
			{"triples-small-universe", small, []int{3}, paths(alpha, 6), true},
			{"quads-tiny-universe", universe([]string{"a", ":p"}, 3, true), []int{4}, paths([]string{"/", "a", "x", ":", "*", "#"}, 6), true},
			{"mid-segment-placeholders", universe([]string{"a", ":p", "a.:p"}, 3, true), []int{1, 2, 3}, paths([]string{"/", "a", ".", "x", ":", "#"}, 7), true},
			{"odd-bytes", small, []int{1, 2}, paths(oddAlpha, 6), true},
			{"odd-placeholder-names", universe(oddNames, 3, true), []int{1, 2}, paths([]string{"/", "a", "q", ".", " ", "-", "="}, 6), true},
			{"non-ascii-literals", universe(nonASCII, 3, true), []int{1, 2}, paths(nonASCIIPath, 5), true},
		}
	} else {
		sweeps = []sweep{
			{"pairs-full-universe", big, []int{1, 2}, paths(alpha, 5), true},
			{"triples-small-universe", small, []int{3}, paths([]string{"/", "a", "b", "x", ":", "#"}, 5), false},
			{"mid-segment-placeholders", universe([]string{"a", ":p", "a.:p"}, 3, true), []int{1, 2}, paths([]string{"/", "a", ".", "x", ":"}, 7), true},
			{"odd-bytes", small, []int{1, 2}, paths(oddAlpha, 5), true},
			{"odd-placeholder-names", universe(oddNames, 2, true), []int{1, 2}, paths([]string{"/", "a", "q", ".", " ", "-", "="}, 5), true},
			{"non-ascii-literals", universe(nonASCII, 2, true), []int{1, 2}, paths(nonASCIIPath, 5), true},
		}
	}
	r.Set("path_alphabet", alpha)
	// the parts with a fixed, small cost first: the time budget, if it is ever reached, cuts the big sweeps
	scale(r)
	deep(r)
	muxMethods(r)
	var setsBuilt, setsRejected, orders int64
	var mu sync.Mutex
	for _, sw := range sweeps {
		toksU := make([][]tok, len(sw.universe))
		for i, p := range sw.universe {
			toksU[i] = parsePattern(p)
		}
		tab := make([][]mcell, len(sw.universe))
		enum.Parallel(len(sw.universe), nil, func(u int) {
			row := make([]mcell, len(sw.paths))
			for qi, path := range sw.paths {
				row[qi] = cell(toksU[u], path)
			}
			tab[u] = row
		})
		var sets [][]int
		for _, k := range sw.sizes {
			sets = append(sets, enum.Subsets(len(sw.universe), k, k)...)
		}
		r.Set("sweep_"+sw.name, map[string]int{"patterns": len(sw.universe), "sets": len(sets), "paths": len(sw.paths)})
		enum.Parallel(len(sets), r.OutOfTime, func(si int) {
			set := sets[si]
			perms := [][]int{identity(len(set))}
			if len(set) > 1 {
				if sw.allPerms {
					perms = enum.Perms(len(set))
				} else {
					perms = [][]int{identity(len(set)), reverse(len(set))}
				}
			}
			// canonical order first; its results are the reference for order independence
			var base []result
			var basePatterns []string
			var evals, nontrivial, built, rejected, nOrders int64
			outcomes := map[string]int64{}
			for pi, perm := range perms {
				patterns := make([]string, len(set))
				toks := make([][]tok, len(set))
				for i, k := range perm {
					patterns[i] = sw.universe[set[k]]
					toks[i] = toksU[set[k]]
				}
				rt, err := build(patterns)
				if err != nil {
					rejected++
					if pi > 0 && base != nil {
						r.Fail("order-dependent-build", fmt.Sprintf("Build accepts %v but rejects %v: %v", basePatterns, patterns, err), Case{patterns, "/", "lookup"})
					}
					continue
				}
				if pi > 0 && base == nil {
					r.Fail("order-dependent-build", fmt.Sprintf("Build rejects the canonical order but accepts %v", patterns), Case{patterns, "/", "lookup"})
					continue
				}
				built++
				nOrders++
				var mh http.Handler
				var mout result
				if pi == 0 {
					mh, _ = muxHandler(patterns, &mout)
				}
				cur := make([]result, len(sw.paths))
				for qi, path := range sw.paths {
					res := lookup(rt, path)
					evals++
					cur[qi] = res
					var cells [4]mcell
					for i, k := range perm {
						cells[i] = tab[set[k]][qi]
					}
					if !fastOK(cells[:len(perm)], &res) {
						if cl, what := judge(patterns, toks, path, res); cl != "" {
							r.Fail(cl, what, Case{patterns, path, "lookup"})
						}
					}
					if res.found || res.panic != "" {
						nontrivial++
					}
					if pi == 0 {
						switch {
						case res.panic != "":
							outcomes["panic"]++
						case !res.found:
							outcomes["notfound"]++
						default:
							outcomes[fmt.Sprintf("found-%dparams", len(res.params))]++
						}
						if mh != nil {
							mres := muxServe(mh, &mout, path)
							evals++
							if mres.found != res.found || mres.data != res.data || !sameBinds(mres.params, res.params) || mres.panic != res.panic {
								r.Fail("mux-differs-from-lookup", fmt.Sprintf("Lookup: %s; Mux handler: %s", res, mres), Case{patterns, path, "mux"})
							}
						}
					} else {
						// map result back to canonical indices
						b := base[qi]
						same := b.found == res.found && (b.panic != "") == (res.panic != "") && sameBinds(b.params, res.params)
						if same && res.found && set[perm[res.data]] != set[b.data] {
							same = false
						}
						if !same {
							cl := "order-dependent"
							if hasReserved(path) {
								cl += "/reserved-byte-in-path"
							}
							r.Fail(cl, fmt.Sprintf("order %v: %s; order %v: %s", basePatterns, b, patterns, res), Case{patterns, path, "lookup"})
						}
					}
				}
				if pi == 0 {
					base = cur
					basePatterns = patterns
					// SizeHint is a capacity hint: too small, exact or too large, the answers are the same
					for _, hint := range []int{0, 1, 8} {
						hrt, err := buildHint(patterns, hint)
						if err != nil {
							r.Fail("sizehint-changes-build", fmt.Sprintf("SizeHint=%d: Build rejects %v: %v", hint, patterns, err), Case{patterns, "/", "lookup"})
							continue
						}
						for qi, path := range sw.paths {
							if qi%4 != hint%4 && !(r.Thorough() && sw.name == "mid-segment-placeholders") {
								continue // quick: every path with one of the hints
							}
							res := lookup(hrt, path)
							evals++
							b := cur[qi]
							if b.found != res.found || b.data != res.data || b.panic != res.panic || !sameBinds(b.params, res.params) {
								r.Fail("sizehint-changes-answer", fmt.Sprintf("SizeHint=%d: %s; default: %s (path %q)", hint, res, b, path), Case{patterns, path, fmt.Sprintf("lookup-sizehint-%d", hint)})
							}
						}
					}
					if r.WantSample() && si%97 == int(r.Seed%97) {
						r.Sample(map[string]any{"patterns": patterns, "path": sw.paths[len(sw.paths)/3], "result": cur[len(sw.paths)/3].String()})
					}
				}
			}
			r.Eval(evals)
			r.Nontrivial(nontrivial)
			for k, v := range outcomes {
				r.Outcome(k, v)
			}
			mu.Lock()
			setsBuilt += built
			setsRejected += rejected
			orders += nOrders
			mu.Unlock()
		})
	}
	r.Set("builds_accepted", setsBuilt)
	r.Set("builds_rejected", setsRejected)
	r.Assume("reference matcher (props/c05: parsePattern/match) is the definition of 'instantiates'",
		"patterns are drawn from the stated universes; ':' only after '/' or '=', '*' only as last segment")
	r.Finish("every set of 1..k patterns from the stated universe x every insertion order x every byte string over the path alphabet up to the stated length; each (order, path) lookup on the real router is one evaluation, compared with the naive matcher; non-trivial = the router reported a match or panicked (distinct by construction: the enumerator never repeats a (set, order, path) triple)", true)
}

func identity(n int) []int {
	p := make([]int, n)
	for i := range p {
		p[i] = i
	}
	return p
}
func reverse(n int) []int {
	p := make([]int, n)
	for i := range p {
		p[i] = n - 1 - i
	}
	return p
}

// scale tier: deterministic large tables with shared prefixes, in two insertion orders. Every record
// is looked up with two parameter texts, and so are near misses of every instance (trailing slash,
// last byte dropped, one more segment, every proper segment prefix, one segment removed); every
// answer is judged by the naive matcher over the WHOLE table.
func scale(r *report.R) {
	sizes := []int{1000}
	if r.Thorough() {
		sizes = []int{1000, 4000, 12000}
	}
	for _, n := range sizes {
		var patterns []string
		for i := 0; i < n; i++ {
			g := i % 37
			switch i % 5 {
			case 0:
				patterns = append(patterns, fmt.Sprintf("/g%d/r%d", g, i))
			case 1:
				patterns = append(patterns, fmt.Sprintf("/g%d/r%d/:a%d", g, i, i))
			case 2:
				patterns = append(patterns, fmt.Sprintf("/g%d/:b%d/r%d", g, i, i))
			case 3:
				patterns = append(patterns, fmt.Sprintf("/g%d/r%d/:c%d/t/:d%d", g, i, i, i))
			case 4:
				patterns = append(patterns, fmt.Sprintf("/g%d/r%d/f/*w%d", g, i, i))
			}
		}
		rev := make([]string, n)
		for i := range patterns {
			rev[n-1-i] = patterns[i]
		}
		for oi, pats := range [][]string{patterns, rev} {
			rt, err := build(pats)
			if err != nil {
				r.Fail("scale-build-error", fmt.Sprintf("table of %d records rejected: %v", n, err), Case{pats, "/", "lookup"})
				continue
			}
			toks := make([][]tok, n)
			for i, p := range pats {
				toks[i] = parsePattern(p)
			}
			// patterns are looked at per leading group segment only (all patterns start with /g<k>/)
			byGroup := map[string][]int{}
			for i, p := range pats {
				byGroup[groupOf(p)] = append(byGroup[groupOf(p)], i)
			}
			enum.Parallel(n, r.OutOfTime, func(i int) {
				pt := toks[i]
				var probes []string
				for _, txt := range []string{"v", "long-value.1"} {
					path := ""
					for _, t := range pt {
						switch t.kind {
						case 'L':
							path += t.text
						case 'P':
							path += txt
						case 'W':
							path += txt + "/" + txt
						}
					}
					probes = append(probes, path, path+"/", path[:len(path)-1], path+"/x", path+"x")
					segs := strings.Split(path[1:], "/")
					for k := 1; k < len(segs); k++ {
						probes = append(probes, "/"+strings.Join(segs[:k], "/"), "/"+strings.Join(segs[:k], "/")+"/")
						without := append(append([]string{}, segs[:k]...), segs[k+1:]...)
						probes = append(probes, "/"+strings.Join(without, "/"))
					}
				}
				var evals, nontriv int64
				for pi, path := range probes {
					res := lookup(rt, path)
					evals++
					// reference over the patterns of the same group (others cannot match: literal first segment)
					cand := byGroup[groupOf(path)]
					cp := make([]string, len(cand))
					ct := make([][]tok, len(cand))
					local := result{found: res.found, params: res.params, panic: res.panic, data: -1}
					for k, ci := range cand {
						cp[k], ct[k] = pats[ci], toks[ci]
						if res.found && res.data == ci {
							local.data = k
						}
					}
					if res.found && local.data < 0 {
						r.Fail("scale-mismatch", fmt.Sprintf("table %d order %d: path %q answered with pattern %q of another group", n, oi, path, pats[res.data]), Case{pats, path, "lookup"})
						continue
					}
					if res.found {
						nontriv++
					}
					if cl, what := judge(cp, ct, path, local); cl != "" {
						r.Fail("scale-"+cl, fmt.Sprintf("table of %d records, order %d, probe %d of record %q: %s", n, oi, pi, pats[i], what), Case{pats, path, "lookup"})
					}
				}
				r.Eval(evals)
				r.Nontrivial(nontriv)
			})
		}
	}
	r.Set("scale_tables", sizes)
}

// groupOf returns the first segment of a path including both slashes ("/g12/"), "" when there is none.
func groupOf(p string) string {
	if len(p) < 2 || p[0] != '/' {
		return ""
	}
	j := strings.IndexByte(p[1:], '/')
	if j < 0 {
		return ""
	}
	return p[:j+2]
}

// deep: backtracking far beyond three segments. For every depth D up to the stated maximum the
// table holds, for each level k < D, the patterns "/a"*k + "/:p" + tail*(D-k-1) with tail in
// {"/a", "/x"}: a literal chain with a parameter alternative at every level. Looked up: every
// sequence of D-1, D and D+1 segments over {a, x}. Most paths instantiate several patterns, and some
// are matched only through the shallowest parameter after the literal walk has gone all the way down.
func deep(r *report.R) {
	maxD := 10
	if r.Thorough() {
		maxD = 14
	}
	for D := 2; D <= maxD; D++ {
		var pats []string
		seen := map[string]bool{}
		for k := 0; k < D; k++ {
			for _, tail := range []string{"/a", "/x"} {
				p := strings.Repeat("/a", k) + fmt.Sprintf("/:d%dk%d%s", D, k, tail[1:]) + strings.Repeat(tail, D-k-1)
				key := strings.Repeat("/a", k) + "/:" + strings.Repeat(tail, D-k-1)
				if !seen[key] {
					seen[key] = true
					pats = append(pats, p)
				}
			}
		}
		rev := make([]string, len(pats))
		for i := range pats {
			rev[len(pats)-1-i] = pats[i]
		}
		var paths []string
		for _, n := range []int{D - 1, D, D + 1} {
			for _, seq := range enum.Seqs(2, n, n) {
				p := ""
				for _, s := range seq {
					p += []string{"/a", "/x"}[s]
				}
				paths = append(paths, p)
			}
		}
		var base []result
		for oi, ps := range [][]string{pats, rev} {
			rt, err := build(ps)
			if err != nil {
				r.Fail("deep-build-error", fmt.Sprintf("depth %d: %v", D, err), Case{ps, "/", "lookup"})
				continue
			}
			toks := make([][]tok, len(ps))
			for i, p := range ps {
				toks[i] = parsePattern(p)
			}
			cur := make([]result, len(paths))
			var nontriv int64
			for qi, path := range paths {
				res := lookup(rt, path)
				cur[qi] = res
				if res.found {
					nontriv++
				}
				if cl, what := judge(ps, toks, path, res); cl != "" {
					r.Fail("deep-"+cl, fmt.Sprintf("depth %d, order %d: %s", D, oi, what), Case{ps, path, "lookup"})
				}
				if oi == 1 {
					b := base[qi]
					if b.found != res.found || !sameBinds(b.params, res.params) || (b.found && pats[b.data] != ps[res.data]) {
						r.Fail("deep-order-dependent", fmt.Sprintf("depth %d path %q: %s vs %s", D, path, b, res), Case{ps, path, "lookup"})
					}
				}
			}
			if oi == 0 {
				base = cur
			}
			r.Eval(int64(len(paths)))
			r.Nontrivial(nontriv)
		}
	}
	// second family: every level has a parameter alternative whose pattern ends in its own literal,
	// "/a"*k + "/:p" + "/a"*(D-k-2) + "/e<k>": the path "/a"*(D-1) + "/e<j>" follows the literal chain to
	// the bottom and is matched only through the parameter at level j (also the shallowest one).
	// (this family is cheap - D patterns, about D*D paths - so it goes far deeper than the first: a
	// bounded backtracking stack, a byte-sized counter or a recursion limit shows only beyond its size)
	depths := []int{}
	for D := 3; D <= 40; D++ {
		depths = append(depths, D)
	}
	if r.Thorough() {
		for D := 41; D <= 70; D++ {
			depths = append(depths, D)
		}
		depths = append(depths, 100, 129, 200, 257, 300)
	}
	for _, D := range depths {
		var pats []string
		for k := 0; k <= D-2; k++ {
			pats = append(pats, strings.Repeat("/a", k)+fmt.Sprintf("/:t%dk%d", D, k)+strings.Repeat("/a", D-k-2)+fmt.Sprintf("/e%d", k))
		}
		rev := make([]string, len(pats))
		for i := range pats {
			rev[len(pats)-1-i] = pats[i]
		}
		var paths []string
		for j := 0; j <= D-2; j++ {
			if D > 70 && j != 0 && j != D/2 && j != D-2 && j != D-18 {
				continue
			}
			paths = append(paths, strings.Repeat("/a", D-1)+fmt.Sprintf("/e%d", j))
			for i := 0; i < D-1; i++ {
				paths = append(paths, strings.Repeat("/a", i)+"/x"+strings.Repeat("/a", D-2-i)+fmt.Sprintf("/e%d", j))
			}
			paths = append(paths, strings.Repeat("/a", D-2)+fmt.Sprintf("/e%d", j), strings.Repeat("/a", D)+fmt.Sprintf("/e%d", j))
		}
		for oi, ps := range [][]string{pats, rev} {
			rt, err := build(ps)
			if err != nil {
				r.Fail("deep-build-error", fmt.Sprintf("depth %d: %v", D, err), Case{ps, "/", "lookup"})
				continue
			}
			toks := make([][]tok, len(ps))
			for i, p := range ps {
				toks[i] = parsePattern(p)
			}
			var nontriv int64
			for _, path := range paths {
				res := lookup(rt, path)
				if res.found {
					nontriv++
				}
				if cl, what := judge(ps, toks, path, res); cl != "" {
					r.Fail("deep-"+cl, fmt.Sprintf("own-tail family, depth %d, order %d: %s", D, oi, what), Case{ps, path, "lookup"})
				}
			}
			r.Eval(int64(len(paths)))
			r.Nontrivial(nontriv)
		}
	}
	r.Set("deep_chain_max_depth", maxD)
	r.Set("deep_own_tail_family_max_depth", depths[len(depths)-1])
}
