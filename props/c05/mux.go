package main

// The http.Handler built by denco.Mux (anchor: server.go): per-method tables and what of the
// request is fed to Lookup. For every set of 1..k patterns, every assignment of the patterns to
// GET / POST / both (different handlers), every request method of a small list (registered,
// unregistered, wrong case, empty) and every path, the handler that runs and the parameters it
// receives must be those of a Router built from exactly that method's patterns and asked for the
// DECODED path - whatever else the request carries: a RawPath (the escaped spelling a server sees),
// a query, a fragment, a RequestURI. ONE handler serves all requests of a set, in sequence.

import (
	"fmt"
	"net/http"
	"net/url"
	"strings"

	"github.com/go-openapi/runtime/middleware/denco"

	"verif/engine/enum"
	"verif/engine/report"
)

// MuxCase is the replayable form.
type MuxCase struct {
	Kind     string   `json:"kind"` // "mux-methods"
	Patterns []string `json:"patterns"`
	Methods  []string `json:"methods"` // per pattern: "GET", "POST" or "GET+POST"
	Method   string   `json:"method"`  // request method
	Path     string   `json:"path"`    // decoded path
	Shape    string   `json:"shape"`
}

var muxShapes = []string{"path-only", "parsed-from-escaped", "rawpath-fully-escaped", "query-fragment-requesturi"}

func fullEscape(p string) string {
	var sb strings.Builder
	for i := 0; i < len(p); i++ {
		if p[i] == '/' {
			sb.WriteByte('/')
		} else {
			fmt.Fprintf(&sb, "%%%02X", p[i])
		}
	}
	return sb.String()
}

// muxRequest builds the request of one shape; nil when the shape does not exist for the path.
func muxRequest(method, path, shape string) *http.Request {
	switch shape {
	case "path-only":
		return &http.Request{Method: method, URL: &url.URL{Path: path}}
	case "parsed-from-escaped":
		if !strings.HasPrefix(path, "/") {
			return nil
		}
		esc := (&url.URL{Path: path}).EscapedPath()
		u, err := url.ParseRequestURI(esc)
		if err != nil || u.Path != path {
			return nil
		}
		return &http.Request{Method: method, URL: u, RequestURI: esc}
	case "rawpath-fully-escaped":
		u := &url.URL{Path: path, RawPath: fullEscape(path)}
		return &http.Request{Method: method, URL: u, RequestURI: u.RawPath}
	case "query-fragment-requesturi":
		u := &url.URL{Path: path, RawQuery: "q=/b/:x&r=%2Fa", Fragment: "/a/b"}
		return &http.Request{Method: method, URL: u, RequestURI: "/elsewhere/a?q=1", Host: "a", Header: http.Header{"X-Original-Url": {"/a"}}}
	}
	panic("shape " + shape)
}

type muxSite struct {
	h   http.Handler
	out *result
	ref map[string]*denco.Router // per registered method
	ids map[string][]int         // per method: record index -> handler id
}

// buildMuxSite registers pattern i under its methods with handler id 2*i (GET) / 2*i+1 (POST).
func buildMuxSite(patterns, methods []string) (*muxSite, error) {
	s := &muxSite{out: &result{}, ref: map[string]*denco.Router{}, ids: map[string][]int{}}
	mux := denco.NewMux()
	var hs []denco.Handler
	recs := map[string][]denco.Record{}
	for i, p := range patterns {
		for mi, m := range []string{"GET", "POST"} {
			if !strings.Contains(methods[i], m) {
				continue
			}
			id := 2*i + mi
			fn := func(_ http.ResponseWriter, _ *http.Request, ps denco.Params) {
				s.out.found = true
				s.out.data = id
				s.out.params = nil
				for _, p := range ps {
					s.out.params = append(s.out.params, bind{p.Name, p.Value})
				}
			}
			if m == "GET" {
				hs = append(hs, mux.GET(p, fn))
			} else {
				hs = append(hs, mux.Handler("POST", p, fn))
			}
			recs[m] = append(recs[m], denco.NewRecord(p, id))
		}
	}
	var err error
	func() {
		defer func() {
			if e := recover(); e != nil {
				err = fmt.Errorf("build panic: %v", e)
			}
		}()
		s.h, err = mux.Build(hs)
	}()
	if err != nil {
		return nil, err
	}
	for m, rs := range recs {
		rt := denco.New()
		if err := rt.Build(rs); err != nil {
			return nil, fmt.Errorf("reference router for %s rejects what the mux accepted: %v", m, err)
		}
		s.ref[m] = rt
	}
	return s, nil
}

func (s *muxSite) serve(req *http.Request) (res result) {
	*s.out = result{}
	defer func() {
		if e := recover(); e != nil {
			res = result{panic: fmt.Sprint(e)}
		}
	}()
	s.h.ServeHTTP(nopWriter{}, req)
	return *s.out
}

func (s *muxSite) want(method, path string) result {
	rt := s.ref[method]
	if rt == nil {
		return result{}
	}
	return lookup(rt, path)
}

func judgeMux(s *muxSite, method, path, shape string, req *http.Request) (string, string) {
	got, want := s.serve(req), s.want(method, path)
	if got.found == want.found && got.data == want.data && got.panic == want.panic && sameBinds(got.params, want.params) {
		return "", ""
	}
	cl := "mux-methods/differs-from-that-methods-router"
	if shape != "path-only" {
		cl = "mux-methods/request-shape-changes-the-answer"
	}
	return cl, fmt.Sprintf("%s %q (%s): handler saw %s; a router of the %s patterns answers %s", method, path, shape, got, method, want)
}

func checkMux(c MuxCase) (string, string) {
	s, err := buildMuxSite(c.Patterns, c.Methods)
	if err != nil {
		return "", "build rejected: " + err.Error()
	}
	req := muxRequest(c.Method, c.Path, c.Shape)
	if req == nil {
		return "", "shape does not exist for this path"
	}
	return judgeMux(s, c.Method, c.Path, c.Shape, req)
}

func muxMethods(r *report.R) {
	uni := universe([]string{"a", "b", ":p"}, 2, true)
	alpha := []string{"/", "a", "b", ":", "#", "%2F", "%61", " ", "\xc3\xa9"}
	maxLen, maxSet := 3, 2
	if r.Thorough() {
		maxLen, maxSet = 4, 3
	}
	var ps []string
	for _, s := range enum.Strings(alpha, maxLen) {
		ps = append(ps, "/"+s)
	}
	ps = append(ps, "", "a", "a/b", "*", "%2Fa")
	reqMethods := []string{"GET", "POST", "HEAD", "PUT", "get", ""}
	// requests are immutable for the mux: built once
	type rq struct {
		method, path, shape string
		req                 *http.Request
	}
	var reqs []rq
	for _, m := range reqMethods {
		for _, p := range ps {
			for _, sh := range muxShapes {
				if q := muxRequest(m, p, sh); q != nil {
					reqs = append(reqs, rq{m, p, sh, q})
				}
			}
		}
	}
	sets := enum.Subsets(len(uni), 1, maxSet)
	assign := []string{"GET", "POST", "GET+POST"}
	r.Set("mux_methods", map[string]any{"patterns": len(uni), "sets": len(sets), "method_assignments_per_pattern": assign, "request_methods": reqMethods, "paths": len(ps), "shapes": muxShapes, "requests_per_site": len(reqs)})
	enum.Parallel(len(sets), r.OutOfTime, func(si int) {
		set := sets[si]
		patterns := make([]string, len(set))
		for i, k := range set {
			patterns[i] = uni[k]
		}
		sizes := make([]int, len(set))
		for i := range sizes {
			sizes[i] = len(assign)
		}
		var evals, nontrivial int64
		outcomes := map[string]int64{}
		enum.Product(sizes, func(idx []int) {
			methods := make([]string, len(set))
			for i, a := range idx {
				methods[i] = assign[a]
			}
			s, err := buildMuxSite(patterns, methods)
			if err != nil {
				if strings.HasPrefix(err.Error(), "reference router") {
					r.Fail("mux-methods/accepts-what-a-router-rejects", err.Error(), MuxCase{"mux-methods", patterns, methods, "GET", "/", "path-only"})
				}
				outcomes["mux-build-rejected"]++
				return
			}
			for _, q := range reqs {
				evals++
				cl, what := judgeMux(s, q.method, q.path, q.shape, q.req)
				if cl != "" {
					r.Fail(cl, what, MuxCase{"mux-methods", patterns, methods, q.method, q.path, q.shape})
					continue
				}
				if s.out.found {
					nontrivial++
					outcomes["mux-handler-ran/"+q.shape]++
				} else {
					outcomes["mux-not-found"]++
				}
			}
		})
		r.Eval(evals)
		r.Nontrivial(nontrivial)
		for k, v := range outcomes {
			r.Outcome(k, v)
		}
	})
}
