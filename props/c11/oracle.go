package main

import (
	"bytes"
	"errors"
	"fmt"
	"io"
	"mime"
	"mime/multipart"
	"net/http"
	"net/url"
	"sort"
	"strings"
	"sync"

	"github.com/go-openapi/runtime"
)

// ---- reference (written from the property text) ----

// part is one element of the multipart document the text demands.
type part struct {
	file     bool
	name     string // field name
	filename string // files: base file name
	body     string // field value or full file content
	ctype    string // files: declared type, else the type sniffed from the content
}

func (p part) key(level int) string {
	// level 0: kind+field name; 1: +file name; 2: +content; 3: +part content type
	k := fmt.Sprintf("%v\x00%s", p.file, p.name)
	if level >= 1 {
		k += "\x00" + p.filename
	}
	if level >= 2 {
		k += "\x00" + p.body
	}
	if level >= 3 {
		k += "\x00" + p.ctype
	}
	return k
}

// sniff is "the type sniffed from its content": the WHATWG algorithm as net/http
// implements it, which looks at no more than the first 512 bytes.
func sniff(content []byte) string { return http.DetectContentType(content) }

func expectedParts(c Case) []part {
	var ps []part
	for _, f := range c.Form {
		for _, v := range f.Values {
			ps = append(ps, part{name: string(f.Name), body: string(v)})
		}
	}
	for _, ff := range c.Files {
		for _, f := range ff.Files {
			data := content(f.Kind, f.Len)
			ct := f.Declared
			if ct == "" {
				ct = sniff(data)
			}
			ps = append(ps, part{file: true, name: string(ff.Name), filename: f.Base, body: string(data), ctype: ct})
		}
	}
	return ps
}

func multiset(ps []part, level int) map[string]int {
	m := map[string]int{}
	for _, p := range ps {
		m[p.key(level)]++
	}
	return m
}

func sameMultiset(a, b map[string]int) bool {
	if len(a) != len(b) {
		return false
	}
	for k, v := range a {
		if b[k] != v {
			return false
		}
	}
	return true
}

// bareMedia is the media type without parameters, lower-cased (what the registries are keyed by).
func bareMedia(m string) string {
	if mt, _, err := mime.ParseMediaType(m); err == nil {
		return mt
	}
	return strings.ToLower(strings.TrimSpace(m))
}

func isURLEncoded(media string) bool { return strings.ToLower(media) == runtime.URLencodedFormMime }

// refTable caches the reference encodings of the value payloads.
var (
	refOnce  sync.Once
	refBytes map[string][]byte
)

func reference(media, valueID string) ([]byte, bool) {
	refOnce.Do(func() {
		refBytes = map[string][]byte{}
		for mt := range newRuntime().Producers {
			for _, id := range valueIDs {
				if b, ok := refEncode(mt, id); ok {
					refBytes[mt+"\x00"+id] = b
				}
			}
		}
	})
	b, ok := refBytes[media+"\x00"+valueID]
	return b, ok
}

// ---- verdict ----

type verdict struct {
	class, what string
	outcomes    []string // observed outcome kinds (evidence)
	nontrivial  bool     // a payload reached body selection and the sent body was compared
}

func short(b []byte) string {
	if len(b) > 96 {
		return fmt.Sprintf("%q...(%d bytes)", b[:96], len(b))
	}
	return fmt.Sprintf("%q", b)
}

func (v *verdict) fail(class, format string, a ...any) verdict {
	v.class, v.what = class, fmt.Sprintf(format, a...)
	return *v
}

// judge compares one execution with what the property text forces.
func judge(c Case, o observed) (v verdict) {
	if o.harnessErr != "" {
		// cannot happen unless the work directory is broken; never blamed on the library
		v.outcomes = append(v.outcomes, "harness-error")
		return v
	}
	// which body does the text demand for this payload kind?
	hasFiles := len(c.Files) > 0
	// the chosen media type as RFC 7231 compares it: bare type, case-insensitive, parameters and
	// optional whitespace aside ("application/json; charset=utf-8", "Application/JSON", "a/b;\tc=d")
	media := bareMedia(c.Media)
	multipartDoc := c.Payload == "form" && (hasFiles || media == runtime.MultipartFormMime)

	var want []byte
	switch c.Payload {
	case "value":
		var defined bool
		want, defined = reference(media, c.Value)
		if !defined {
			// MAY: the registered producer itself does not encode this value (error or panic outside
			// the client); the text says nothing about what is sent then. Codec behaviour is C15.
			switch {
			case o.panicked != "":
				v.outcomes = append(v.outcomes, "undefined:producer-rejects-value:panic")
			case o.buildErr != "":
				v.outcomes = append(v.outcomes, "undefined:producer-rejects-value:refused")
			default:
				v.outcomes = append(v.outcomes, "undefined:producer-rejects-value:sent")
			}
			return v
		}
	case "reader":
		want = content(c.Reader.Kind, c.Reader.Len)
	}
	if o.panicked != "" {
		return v.fail("panic", "building or sending the request panicked: %s", o.panicked)
	}
	// environment faults: once a scripted source has actually returned an injected error the
	// library may refuse to build or fail to send; a success is held to the full oracle below.
	// A source that lied (Seek claiming success without moving, or failing after moving) broke
	// its own contract: whatever follows is MAY.
	faulted := o.delivered > 0
	if o.lies > 0 {
		v.outcomes = append(v.outcomes, "undefined:source-lied")
		return v
	}
	defer func() {
		if faulted && v.class != "" {
			v.class += "/after-source-fault"
		}
	}()
	if o.buildErr != "" {
		if faulted {
			v.outcomes = append(v.outcomes, "fault:build-refused")
			return v
		}
		return v.fail("build-error", "building the request failed for a well-formed %s payload under %q: %s", c.Payload, c.Media, o.buildErr)
	}
	if o.sendErr != "" && faulted {
		v.outcomes = append(v.outcomes, "fault:send-failed")
		return v
	}
	if faulted {
		v.outcomes = append(v.outcomes, "fault:delivered-and-sent")
	}
	if o.sendErr != "" {
		return v.fail("send-error", "the built request could not be sent: %s", o.sendErr)
	}
	sent := o.sent

	// clause 2 first: whatever auth was shown is what is sent, and it never changes
	if len(o.getBodies) != c.GetBody && c.Auth != "none" {
		return v.fail("auth-not-consulted", "the auth writer made %d GetBody calls, expected %d", len(o.getBodies), c.GetBody)
	}
	for i, b := range o.getBodies {
		if !bytes.Equal(b, sent) {
			cl := "getbody-differs-from-sent"
			if i > 0 && bytes.Equal(o.getBodies[0], sent) {
				cl = "getbody-unstable"
			}
			return v.fail(cl, "GetBody call %d of %d gave auth %s but the request sent %s", i+1, len(o.getBodies), short(b), short(sent))
		}
	}
	if o.hasReplay {
		if o.replayErr != "" {
			return v.fail("resend-body", "http.Request.GetBody failed: %s", o.replayErr)
		}
		if !bytes.Equal(o.replayBody, sent) {
			return v.fail("resend-body", "http.Request.GetBody (re-sent on redirect) yields %s but the body sent first is %s", short(o.replayBody), short(sent))
		}
	}
	if c.GetBody > 0 {
		v.outcomes = append(v.outcomes, fmt.Sprintf("getbody-calls:%d", len(o.getBodies)))
	}

	mt, params, ctErr := mime.ParseMediaType(o.ct)

	switch {
	case c.Payload == "nil":
		if len(sent) != 0 {
			return v.fail("nil-payload-body", "no payload, yet %s was sent", short(sent))
		}
		v.outcomes = append(v.outcomes, "sent:nothing")
		return v

	case c.Payload == "value":
		if len(o.producers) != 1 || o.producers[0] != media {
			return v.fail("producer-selection", "producers called: %v, expected exactly the one registered for %q", o.producers, c.Media)
		}
		if !bytes.Equal(sent, want) {
			return v.fail("body-mismatch/value", "sent %s, the %q producer encodes the value as %s", short(sent), c.Media, short(want))
		}
		if ctErr != nil || mt != media {
			return v.fail("content-type-header/value", "Content-Type %q does not announce the chosen media type %q", o.ct, c.Media)
		}
		v.nontrivial = true
		v.outcomes = append(v.outcomes, "sent:value:"+c.Media)
		return v

	case c.Payload == "reader":
		if !bytes.Equal(sent, want) {
			return v.fail("body-mismatch/reader", "sent %s, the reader holds %s", short(sent), short(want))
		}
		if len(o.producers) != 0 {
			return v.fail("producer-selection", "a reader payload went through producers %v", o.producers)
		}
		if ctErr != nil || mt != media {
			return v.fail("content-type-header/reader", "Content-Type %q does not announce the chosen media type %q", o.ct, c.Media)
		}
		v.nontrivial = true
		lbl := "sent:reader:" + c.Reader.Flavor
		if c.GetBody > 0 {
			lbl += ":buffered-for-auth"
		}
		v.outcomes = append(v.outcomes, lbl)
		return v

	case !multipartDoc:
		// form fields only: the URL-encoding of the form fields
		got, err := url.ParseQuery(string(sent))
		if err != nil {
			return v.fail("form-unparseable", "sent %s which url.ParseQuery rejects: %v", short(sent), err)
		}
		wantForm := url.Values{}
		for _, f := range c.Form {
			for _, val := range f.Values {
				wantForm[string(f.Name)] = append(wantForm[string(f.Name)], string(val))
			}
		}
		if len(got) != len(wantForm) {
			return v.fail("form-mismatch", "sent %s = %v, the form fields are %v", short(sent), got, wantForm)
		}
		for k, vs := range wantForm {
			g := got[k]
			if len(g) != len(vs) {
				return v.fail("form-mismatch", "field %q: sent values %q, set values %q", k, g, vs)
			}
			for i := range vs {
				if g[i] != vs[i] {
					return v.fail("form-mismatch", "field %q: sent values %q, set values %q", k, g, vs)
				}
			}
		}
		if len(o.producers) != 0 {
			return v.fail("producer-selection", "a form payload went through producers %v", o.producers)
		}
		v.nontrivial = true
		if ctErr != nil || mt != runtime.URLencodedFormMime {
			if !isURLEncoded(media) && ctErr == nil && mt == media {
				v.outcomes = append(v.outcomes, "sent:urlencoded-form-labelled-"+c.Media)
				return v.fail("content-type-header/form-fields-under-non-form-media-type",
					"form fields were sent URL-encoded (%s) but announced as Content-Type %q", short(sent), o.ct)
			}
			return v.fail("content-type-header/form", "URL-encoded form sent under Content-Type %q", o.ct)
		}
		v.outcomes = append(v.outcomes, "sent:urlencoded-form")
		return v
	}

	// multipart document
	if ctErr != nil {
		return v.fail("content-type-header/multipart", "Content-Type %q does not parse: %v", o.ct, ctErr)
	}
	boundary := params["boundary"]
	if boundary == "" {
		return v.fail("content-type-header/multipart", "a multipart document was sent under Content-Type %q, which has no boundary", o.ct)
	}
	if mt != runtime.MultipartFormMime {
		// MAY: with the URL-encoded media type chosen the library (and its own tests) announce
		// "application/x-www-form-urlencoded; boundary=..." for a multipart document
		if !(isURLEncoded(media) && mt == runtime.URLencodedFormMime) {
			return v.fail("content-type-header/multipart", "a multipart document was sent under Content-Type %q", o.ct)
		}
	}
	got, err := parseMultipart(sent, boundary)
	if err != nil {
		return v.fail("multipart-unparseable", "mime/multipart cannot read the sent document with the announced boundary: %v; sent %s", err, short(sent))
	}
	if len(o.producers) != 0 {
		return v.fail("producer-selection", "a form payload went through producers %v", o.producers)
	}
	wantParts := expectedParts(c)
	v.nontrivial = true
	lbl := "sent:multipart"
	if o.streamed {
		lbl += ":streamed"
	} else {
		lbl += ":buffered-for-auth"
	}
	if mt != runtime.MultipartFormMime {
		lbl += ":announced-urlencoded+boundary"
	}
	v.outcomes = append(v.outcomes, lbl)
	for _, p := range got {
		if p.file {
			v.outcomes = append(v.outcomes, "part-type:"+p.ctype)
		}
	}
	for level, cl := range []string{"multipart-parts", "multipart-filename", "multipart-content"} {
		if !sameMultiset(multiset(wantParts, level), multiset(got, level)) {
			if level == 2 && faulted && windowFillingErrorDropped(c, got) {
				cl += "/after-source-fault/error-with-window-filling-read-dropped"
				faulted = false // the class is complete
			}
			return v.fail(cl, "parts sent: %s; parts demanded: %s", describe(got), describe(wantParts))
		}
	}
	if !sameMultiset(multiset(wantParts, 3), multiset(got, 3)) {
		cl := classifyPartType(c, got)
		return v.fail(cl, "parts sent: %s; parts demanded: %s", describe(got), describe(wantParts))
	}
	return v
}

func describe(ps []part) string {
	var out []string
	for _, p := range ps {
		if p.file {
			out = append(out, fmt.Sprintf("file{%q %q %d bytes %q}", p.name, p.filename, len(p.body), p.ctype))
		} else {
			out = append(out, fmt.Sprintf("field{%q=%q}", p.name, p.body))
		}
	}
	sort.Strings(out)
	return "[" + strings.Join(out, " ") + "]"
}

// parseMultipart reads the document with the standard parser. The file name is
// taken from the raw Content-Disposition parameter: Part.FileName() applies
// filepath.Base itself and would hide a client that sends directories.
func parseMultipart(doc []byte, boundary string) ([]part, error) {
	mr := multipart.NewReader(bytes.NewReader(doc), boundary)
	var ps []part
	for {
		p, err := mr.NextRawPart()
		if err != nil {
			if errors.Is(err, io.EOF) {
				return ps, nil
			}
			return nil, err
		}
		var b bytes.Buffer
		if _, err := b.ReadFrom(p); err != nil {
			return nil, err
		}
		disp, dparams, err := mime.ParseMediaType(p.Header.Get("Content-Disposition"))
		if err != nil {
			return nil, fmt.Errorf("part Content-Disposition %q: %v", p.Header.Get("Content-Disposition"), err)
		}
		if disp != "form-data" {
			return nil, fmt.Errorf("part disposition %q", disp)
		}
		fn, isFile := dparams["filename"]
		ps = append(ps, part{file: isFile, name: dparams["name"], filename: fn, body: b.String(), ctype: func() string {
			if isFile {
				return p.Header.Get("Content-Type")
			}
			return ""
		}()})
	}
}

func pad512(b []byte) []byte {
	out := make([]byte, 512)
	copy(out, b)
	return out
}

// classifyPartType names the part-content-type failure. Two narrow predicates describe
// defects of the pinned tree; anything else is the generic class.
//
//	short-content-zero-padded: every wrongly typed file has no declared type, is shorter than the
//	  512-byte window, was delivered by its first Read in full, and carries exactly the type of its
//	  content padded with NUL bytes to 512.
//	short-first-read: every wrongly typed file has no declared type, its first Read delivered fewer
//	  bytes than min(512, length), and it carries exactly the type of that first chunk (zero padded or not).
func classifyPartType(c Case, got []part) string {
	// remove exact matches; what is left pairs up by (field, file name, content)
	left := multiset(got, 3)
	var wrong []FileSpec
	var wrongField []string
	for _, ff := range c.Files {
		for _, f := range ff.Files {
			data := content(f.Kind, f.Len)
			ct := f.Declared
			if ct == "" {
				ct = sniff(data)
			}
			k := part{file: true, name: string(ff.Name), filename: f.Base, body: string(data), ctype: ct}.key(3)
			if left[k] > 0 {
				left[k]--
				continue
			}
			wrong = append(wrong, f)
			wrongField = append(wrongField, string(ff.Name))
		}
	}
	nPadded, nShortRead := 0, 0
	for i, f := range wrong {
		data := content(f.Kind, f.Len)
		pol := strings.TrimPrefix(f.Src, "named-")
		if f.Src == "osfile" {
			pol = "full"
		}
		first := firstRead(pol, f.Len)
		window := f.Len
		if window > 512 {
			window = 512
		}
		has := func(ct string) bool {
			k := part{file: true, name: wrongField[i], filename: f.Base, body: string(data), ctype: ct}.key(3)
			if left[k] > 0 {
				left[k]--
				return true
			}
			return false
		}
		switch {
		case f.Declared != "":
		case first == window && f.Len < 512:
			if has(sniff(pad512(data))) {
				nPadded++
			}
		case first < window:
			if has(sniff(pad512(data[:first]))) || has(sniff(data[:first])) {
				nShortRead++
			}
		}
	}
	allPadded := len(wrong) > 0 && nPadded == len(wrong)
	allShortRead := len(wrong) > 0 && nShortRead == len(wrong)
	eachExplained := len(wrong) > 0 && nPadded+nShortRead == len(wrong)
	switch {
	case allPadded:
		return "part-content-type/short-content-zero-padded"
	case allShortRead:
		return "part-content-type/short-first-read"
	case eachExplained:
		// both defects in one request: a class of its own (the enumeration never mixes them)
		return "part-content-type/short-content-zero-padded+short-first-read"
	}
	return "part-content-type"
}

// windowFillingErrorDropped is the predicate of a defect of the pinned tree: an undeclared
// upload file whose Read call that completes the 512-byte sniffing window returns its data
// together with an error, does not repeat the error and reports EOF afterwards. io.ReadFull
// discards an error that arrives with the last bytes it asked for, so the part is sent with
// exactly the first 512 bytes and the call succeeds. True iff every scripted file of the case
// that lost content matches this and the parts sent are exactly the demanded ones with those
// files cut at 512 bytes.
func windowFillingErrorDropped(c Case, got []part) bool {
	var want []part
	hit := false
	for _, f := range c.Form {
		for _, val := range f.Values {
			want = append(want, part{name: string(f.Name), body: string(val)})
		}
	}
	for _, ff := range c.Files {
		for _, f := range ff.Files {
			data := content(f.Kind, f.Len)
			ct := f.Declared
			if ct == "" {
				ct = sniff(data)
			}
			body := data
			if f.Src == "env" && f.Env != nil && f.Declared == "" && f.Env.FaultStyle == "once-then-eof" && f.Env.FaultAt > 0 && f.Len > 512 {
				cum := 0
				for k := 1; cum < 512; k++ {
					m := 512 - cum
					if f.Env.Chunk > 0 && m > f.Env.Chunk {
						m = f.Env.Chunk
					}
					cum += m
					if k == f.Env.FaultAt {
						if cum == 512 {
							body = data[:512]
							hit = true
						}
						break
					}
				}
			}
			want = append(want, part{file: true, name: string(ff.Name), filename: f.Base, body: string(body), ctype: ct})
		}
	}
	return hit && sameMultiset(multiset(want, 3), multiset(got, 3))
}
