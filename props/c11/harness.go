package main

import (
	"bufio"
	"bytes"
	"fmt"
	"io"
	"math"
	"net/http"
	"os"
	"path/filepath"
	"strings"
	"sync"

	"github.com/go-openapi/runtime"
	"github.com/go-openapi/runtime/client"
	"github.com/go-openapi/strfmt"
)

// ---- stream doubles with a fixed, enumerated read policy ----

type src struct {
	data   []byte
	pos    int
	policy string
	calls  int
	closes int
}

func (s *src) Read(p []byte) (int, error) {
	s.calls++
	if len(p) == 0 {
		return 0, nil
	}
	if s.policy == "zerofirst" && s.calls == 1 {
		return 0, nil
	}
	rem := s.data[s.pos:]
	if len(rem) == 0 {
		return 0, io.EOF
	}
	m := len(p)
	switch s.policy {
	case "one":
		m = 1
	case "k7":
		if m > 7 {
			m = 7
		}
	}
	if m > len(rem) {
		m = len(rem)
	}
	n := copy(p, rem[:m])
	s.pos += n
	if s.policy == "dataeof" && s.pos == len(s.data) {
		return n, io.EOF
	}
	return n, nil
}

type srcCloser struct{ *src }

func (s srcCloser) Close() error { s.closes++; return nil }

// firstRead is the number of bytes the first Read(buf[512]) of a file source delivers.
func firstRead(policy string, n int) int {
	m := 512
	switch policy {
	case "one":
		m = 1
	case "k7":
		m = 7
	case "zerofirst":
		m = 0
	}
	if m > n {
		m = n
	}
	return m
}

// declaredFile is a file that states its own content type.
type declaredFile struct {
	runtime.NamedReadCloser
	ct string
}

func (d declaredFile) ContentType() string { return d.ct }

// ---- on-disk files for the osfile source (created once per run, opened per case) ----

var (
	workDir  string
	diskMu   sync.Mutex
	diskMade = map[string]bool{}
)

func diskPath(kind string, n int, base string) (string, error) {
	dir := filepath.Join(workDir, fmt.Sprintf("%s-%d", kind, n))
	p := filepath.Join(dir, base)
	diskMu.Lock()
	defer diskMu.Unlock()
	if diskMade[p] {
		return p, nil
	}
	if err := os.MkdirAll(dir, 0o755); err != nil {
		return "", err
	}
	if err := os.WriteFile(p, content(kind, n), 0o644); err != nil {
		return "", err
	}
	diskMade[p] = true
	return p, nil
}

func openFile(f FileSpec, x *execEnv) (runtime.NamedReadCloser, error) {
	var nrc runtime.NamedReadCloser
	switch {
	case f.Src == "env":
		if f.Env == nil {
			return nil, fmt.Errorf("file source env without description")
		}
		v, err := newEnvSource(f.Dir+f.Base, content(f.Kind, f.Len), *f.Env, true, f.Declared, &x.stats)
		if err != nil {
			return nil, err
		}
		return v.(runtime.NamedReadCloser), nil // carries its own ContentType method when declared
	case f.Src == "fifo":
		fh, release, err := openFIFO(f.Base, content(f.Kind, f.Len))
		if err != nil {
			return nil, err
		}
		x.release = append(x.release, release)
		nrc = fh
	case f.Src == "osfile":
		p, err := diskPath(f.Kind, f.Len, f.Base)
		if err != nil {
			return nil, err
		}
		fh, err := os.Open(p)
		if err != nil {
			return nil, err
		}
		nrc = fh
	default:
		pol := strings.TrimPrefix(f.Src, "named-")
		nrc = runtime.NamedReader(f.Dir+f.Base, &src{data: content(f.Kind, f.Len), policy: pol})
	}
	if f.Declared != "" {
		nrc = declaredFile{nrc, f.Declared}
	}
	return nrc, nil
}

// ---- value payloads ----

type doc struct {
	Name string `json:"name" xml:"name" yaml:"name"`
	N    int    `json:"n" xml:"n" yaml:"n"`
}

// extremes carries the numeric edge values through the codecs (the reference is the codec itself).
type extremes struct {
	I64     int64   `json:"i64" xml:"i64" yaml:"i64"`
	MinI64  int64   `json:"min_i64" xml:"min_i64" yaml:"min_i64"`
	U64     uint64  `json:"u64" xml:"u64" yaml:"u64"`
	I32     int32   `json:"i32" xml:"i32" yaml:"i32"`
	P53     int64   `json:"p53" xml:"p53" yaml:"p53"`
	NegZero float64 `json:"negzero" xml:"negzero" yaml:"negzero"`
	Big     float64 `json:"big" xml:"big" yaml:"big"`
	Tiny    float64 `json:"tiny" xml:"tiny" yaml:"tiny"`
	F32     float32 `json:"f32" xml:"f32" yaml:"f32"`
	Frac    float64 `json:"frac" xml:"frac" yaml:"frac"`
}

var valueIDs = []string{"struct", "string", "bytes", "csv", "map", "int", "nilptr", "extremes", "emptystring", "space", "emptybytes", "nilbytes", "edgestring"}

func makeValue(id string) interface{} {
	switch id {
	case "struct":
		return &doc{Name: "é <&> \"q\"", N: 7}
	case "string":
		return "hello, wörld\n"
	case "bytes":
		return []byte{0, 1, 2, 0xff, 'a', '\n'}
	case "csv":
		return [][]string{{"h1", "h2"}, {"a,b", "c\"d"}}
	case "map":
		return map[string]interface{}{"k": "v", "n": 1}
	case "int":
		return 42
	case "nilptr":
		return (*doc)(nil)
	case "extremes":
		return &extremes{I64: math.MaxInt64, MinI64: math.MinInt64, U64: math.MaxUint64, I32: math.MaxInt32, P53: 1<<53 + 1,
			NegZero: math.Copysign(0, -1), Big: math.MaxFloat64, Tiny: math.SmallestNonzeroFloat64, F32: math.MaxFloat32, Frac: 0.1234567890123456789}
	case "emptystring":
		return ""
	case "space":
		return " "
	case "emptybytes":
		return []byte{}
	case "nilbytes":
		return []byte(nil)
	case "edgestring":
		return "\x00\t\r\n\x7f \ufeff\u2028\U0001F600\"\\%s%%{}é\xff"
	}
	panic("unknown value id " + id)
}

// tagProducer is a producer no media type of the library resembles; it shows that
// the producer registered for the chosen media type is the one that is used.
const tagMime = "application/vnd.verif.c11+tag"

func tagProducer(tag string) runtime.Producer {
	return runtime.ProducerFunc(func(w io.Writer, v interface{}) error {
		_, err := fmt.Fprintf(w, "%s|%T|%v", tag, v, v)
		return err
	})
}

// newRuntime returns a client runtime with the default producers plus the tag producer.
func newRuntime() *client.Runtime {
	rt := client.New("api.example.test", "/", []string{"http"})
	rt.Debug = false // client.New reads SWAGGER_DEBUG / DEBUG from the process environment
	rt.Producers[tagMime] = tagProducer("tag")
	return rt
}

// refEncode is the reference encoding: the producer registered for the media type,
// applied to an equal value, outside the client. ok=false: the reference is undefined
// (no such producer, it failed or panicked), the case is then MAY.
func refEncode(media, valueID string) (out []byte, ok bool) {
	defer func() {
		if e := recover(); e != nil {
			out, ok = nil, false
		}
	}()
	p, has := newRuntime().Producers[media]
	if !has {
		return nil, false
	}
	var b bytes.Buffer
	if err := p.Produce(&b, makeValue(valueID)); err != nil {
		return nil, false
	}
	return b.Bytes(), true
}

// spy wraps a producer and records that it was called.
type spy struct {
	media string
	inner runtime.Producer
	calls *[]string
}

func (s spy) Produce(w io.Writer, v interface{}) error {
	*s.calls = append(*s.calls, s.media)
	return s.inner.Produce(w, v)
}

// ---- one execution on the real client ----

type observed struct {
	buildErr   string
	panicked   string
	harnessErr string // the harness could not set the case up (never an oracle failure)
	sent       []byte
	sendErr    string
	ct         string
	hasCT      bool
	getBodies  [][]byte
	producers  []string
	replayBody []byte // http.Request.GetBody() (what a redirect would re-send), when offered
	hasReplay  bool
	replayErr  string
	streamed   bool // the body was an io.Pipe fed by the multipart goroutine when it was sent
	authCalled int
	delivered  int64 // injected faults the scripted sources actually returned to the library
	lies       int64 // lying answers the scripted sources actually gave
}

// execEnv is the per-execution environment: fault statistics and things to release.
type execEnv struct {
	stats   envStats
	release []func()
}

func execute(c Case) observed { return executeOn(nil, c) }

// executeOn runs the case on the given Runtime (nil: a fresh one with spied producers).
func executeOn(rt *client.Runtime, c Case) (o observed) {
	var req *http.Request
	x := &execEnv{}
	defer func() {
		if e := recover(); e != nil {
			o.panicked = fmt.Sprint(e)
		}
		if req != nil && req.Body != nil {
			_ = req.Body.Close() // releases the multipart goroutine if the body was not drained
		}
		for _, rel := range x.release {
			rel()
		}
		o.delivered, o.lies = x.stats.delivered.Load(), x.stats.lies.Load()
	}()
	if rt == nil {
		rt = newRuntime()
		for mt, p := range rt.Producers {
			rt.Producers[mt] = spy{mt, p, &o.producers}
		}
	}

	var setupErr error
	writer := runtime.ClientRequestWriterFunc(func(r runtime.ClientRequest, _ strfmt.Registry) error {
		switch c.Payload {
		case "nil":
		case "value":
			return r.SetBodyParam(makeValue(c.Value))
		case "reader":
			rd, err := makeReader(*c.Reader, x)
			if err != nil {
				setupErr = err
				return err
			}
			return r.SetBodyParam(rd)
		case "form":
			for _, f := range c.Form {
				vals := make([]string, len(f.Values))
				for i, v := range f.Values {
					vals[i] = string(v)
				}
				if err := r.SetFormParam(string(f.Name), vals...); err != nil {
					return err
				}
			}
			for _, ff := range c.Files {
				files := make([]runtime.NamedReadCloser, 0, len(ff.Files))
				for _, f := range ff.Files {
					nrc, err := openFile(f, x)
					if err != nil {
						setupErr = err
						return err
					}
					files = append(files, nrc)
				}
				if err := r.SetFileParam(string(ff.Name), files...); err != nil {
					return err
				}
			}
		default:
			setupErr = fmt.Errorf("unknown payload kind %q", c.Payload)
			return setupErr
		}
		return nil
	})

	auth := runtime.ClientAuthInfoWriterFunc(func(r runtime.ClientRequest, _ strfmt.Registry) error {
		o.authCalled++
		for i := 0; i < c.GetBody; i++ {
			b := r.GetBody()
			o.getBodies = append(o.getBodies, append([]byte{}, b...)) // what auth was given, at the time it was given
			// a signing writer: derive a header from the body between calls
			if err := r.SetHeaderParam("X-Body-Len", fmt.Sprint(len(b))); err != nil {
				return err
			}
		}
		return r.SetHeaderParam("X-Auth", "yes")
	})

	op := &runtime.ClientOperation{
		ID:                 "c11",
		Method:             c.Method,
		PathPattern:        "/upload",
		ProducesMediaTypes: []string{runtime.JSONMime},
		ConsumesMediaTypes: []string{c.Media},
		Schemes:            []string{"http"},
		Params:             writer,
	}
	switch c.Auth {
	case "op":
		op.AuthInfo = auth
	case "default":
		rt.DefaultAuthentication = auth
	}

	if c.Observe == "submit" {
		// the whole call: Runtime.Submit with a transport that serialises the request as net/http
		// would and reads it back as a server's net/http would
		tr := &captureTransport{o: &o}
		rt.Transport = tr
		if c.Debug {
			rt.Debug = true
			rt.SetLogger(silentLogger{})
		}
		op.Reader = runtime.ClientResponseReaderFunc(func(runtime.ClientResponse, runtime.Consumer) (interface{}, error) { return nil, nil })
		_, err := rt.Submit(op)
		switch {
		case setupErr != nil:
			o.harnessErr = setupErr.Error()
		case err != nil && tr.reached:
			o.sendErr = "Submit: " + err.Error()
		case err != nil:
			o.buildErr = "Submit: " + err.Error()
		case !tr.reached:
			o.sendErr = "Submit returned without error but never called the transport"
		}
		return o
	}

	var err error
	req, err = rt.CreateHttpRequest(op)
	if setupErr != nil {
		o.harnessErr = setupErr.Error()
		return o
	}
	if err != nil {
		o.buildErr = err.Error()
		return o
	}
	if req.GetBody != nil {
		o.hasReplay = true
		if rb, err := req.GetBody(); err != nil {
			o.replayErr = err.Error()
		} else {
			b, err := io.ReadAll(rb)
			_ = rb.Close()
			if err != nil {
				o.replayErr = err.Error()
			}
			o.replayBody = b
		}
	}
	_, o.streamed = req.Body.(*io.PipeReader)

	switch c.Observe {
	case "wire":
		// what net/http puts on the wire and what a server's net/http reads from it
		var wire bytes.Buffer
		if err := req.Write(&wire); err != nil {
			o.sendErr = "Request.Write: " + err.Error()
			return o
		}
		got, err := http.ReadRequest(bufio.NewReader(&wire))
		if err != nil {
			o.sendErr = "http.ReadRequest: " + err.Error()
			return o
		}
		b, err := io.ReadAll(got.Body)
		if err != nil {
			o.sendErr = "reading the received body: " + err.Error()
		}
		o.sent = b
		_, o.hasCT = got.Header["Content-Type"]
		o.ct = got.Header.Get("Content-Type")
	default:
		if req.Body != nil {
			b, err := io.ReadAll(req.Body)
			if err != nil {
				o.sendErr = "reading the request body: " + err.Error()
			}
			o.sent = b
		}
		_, o.hasCT = req.Header["Content-Type"]
		o.ct = req.Header.Get("Content-Type")
	}
	return o
}

func makeReader(rs ReaderSpec, x *execEnv) (interface{}, error) {
	data := content(rs.Kind, rs.Len)
	switch rs.Flavor {
	case "env":
		if rs.Env == nil {
			return nil, fmt.Errorf("reader flavor env without description")
		}
		return newEnvSource("payload.bin", data, *rs.Env, rs.Env.Closer, "", &x.stats)
	case "fifo":
		fh, release, err := openFIFO("payload.bin", data)
		if err != nil {
			return nil, err
		}
		x.release = append(x.release, release)
		return fh, nil
	case "plain":
		return &src{data: data, policy: rs.Policy}, nil // io.Reader, not a Closer
	case "closer":
		return srcCloser{&src{data: data, policy: rs.Policy}}, nil
	case "bytes.Buffer":
		return bytes.NewBuffer(append([]byte(nil), data...)), nil // a Buffer owns its slice
	case "bytes.Reader":
		return bytes.NewReader(data), nil
	case "strings.Reader":
		return strings.NewReader(string(data)), nil
	case "osfile":
		p, err := diskPath(rs.Kind, rs.Len, "payload.bin")
		if err != nil {
			return nil, err
		}
		return os.Open(p)
	}
	return nil, fmt.Errorf("unknown reader flavor %q", rs.Flavor)
}

// captureTransport is the RoundTripper of the submit observation.
type captureTransport struct {
	o       *observed
	reached bool
}

func (t *captureTransport) RoundTrip(req *http.Request) (*http.Response, error) {
	t.reached = true
	_, t.o.streamed = req.Body.(*io.PipeReader)
	var wire bytes.Buffer
	if err := req.Write(&wire); err != nil { // closes the body, like a transport
		return nil, fmt.Errorf("Request.Write: %w", err)
	}
	got, err := http.ReadRequest(bufio.NewReader(&wire))
	if err != nil {
		return nil, fmt.Errorf("http.ReadRequest: %w", err)
	}
	b, err := io.ReadAll(got.Body)
	if err != nil {
		return nil, fmt.Errorf("reading the received body: %w", err)
	}
	t.o.sent = b
	_, t.o.hasCT = got.Header["Content-Type"]
	t.o.ct = got.Header.Get("Content-Type")
	return &http.Response{
		Status: "200 OK", StatusCode: 200, Proto: "HTTP/1.1", ProtoMajor: 1, ProtoMinor: 1,
		Header:  http.Header{"Content-Type": []string{runtime.JSONMime}},
		Body:    io.NopCloser(strings.NewReader("{}")),
		Request: req,
	}, nil
}

// silentLogger swallows the Debug dumps.
type silentLogger struct{}

func (silentLogger) Printf(string, ...interface{}) {}
func (silentLogger) Debugf(string, ...interface{}) {}
