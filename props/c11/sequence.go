package main

// Sweep E: adaptive multipart sequences. State that outlives a request (anything
// at package level, or kept on the Runtime) is only visible to a second request
// that is built from what the first one put on the wire. Step 1 sends a multipart
// request and its boundary B1 is read from the Content-Type header; step 2 sends,
// on the same Runtime or a fresh one, a request whose file content / field value /
// file name embeds strings built from B1; step 3 does the same with B2 (and B1).
// The oracle is unchanged: each document, parsed with the boundary its own
// Content-Type declares, yields exactly the fields and files that were set, and
// auth was shown the sent bytes.

import (
	"fmt"
	"mime"

	"github.com/go-openapi/runtime"
	"github.com/go-openapi/runtime/client"
)

type SeqSpec struct {
	Runtime string `json:"runtime"` // same | fresh: where the later steps run
	Steps   int    `json:"steps"`   // 2 or 3
	Where   string `json:"where"`   // file-content | field-value | file-name
	Pattern string `json:"pattern"` // delimiter | final | bare | forged-part
	Pos     string `json:"pos"`     // start | middle | end
}

var (
	seqWheres   = []string{"file-content", "field-value", "file-name"}
	seqPatterns = []string{"delimiter", "final", "bare", "forged-part"}
	seqPos      = []string{"start", "middle", "end"}
)

// embed renders the pattern for boundary b at the position.
func (sp SeqSpec) embed(b string) string {
	var pat string
	switch sp.Pattern {
	case "delimiter":
		pat = "\r\n--" + b + "\r\n"
	case "final":
		pat = "\r\n--" + b + "--\r\n"
	case "bare":
		pat = "--" + b
	case "forged-part":
		pat = "\r\n--" + b + "\r\nContent-Disposition: form-data; name=\"role\"\r\n\r\nadmin"
	}
	switch sp.Pos {
	case "start":
		return pat + "tail of the data"
	case "end":
		return "head of the data" + pat
	}
	return "head of the data" + pat + "tail of the data"
}

// valid: a file name cannot carry CR/LF (names with line breaks are outside the alphabet of this check).
func (sp SeqSpec) valid() bool { return sp.Where != "file-name" || sp.Pattern == "bare" }

// stepCase is the literal request of one step; earlier holds the boundaries observed so far.
func (sp SeqSpec) stepCase(c Case, earlier []string) Case {
	st := Case{Payload: "form", Media: runtime.MultipartFormMime, Auth: c.Auth, GetBody: c.GetBody, Observe: c.Observe, Method: c.Method}
	fieldVal, fileData, fileName := "plain value", "plain file content\r\nsecond line\r\n", "seq.txt"
	if len(earlier) > 0 {
		text := ""
		for i := len(earlier) - 1; i >= 0; i-- { // the latest boundary first, then the older ones
			text += sp.embed(earlier[i])
		}
		switch sp.Where {
		case "file-content":
			fileData = text
		case "field-value":
			fieldVal = text
		case "file-name":
			fileName = text
		}
	}
	st.Form = []FormField{{"a", []S{S(fieldVal)}}}
	st.Files = []FileField{{"f", []FileSpec{{Base: fileName, Kind: litPrefix + fileData, Len: len(fileData), Src: "named-full"}}}}
	return st
}

func runSequence(c Case) verdict {
	sp := *c.Seq
	var v verdict
	rt := client.New("api.example.test", "/", []string{"http"})
	var boundaries []string
	for step := 1; step <= sp.Steps; step++ {
		if step > 1 && sp.Runtime == "fresh" {
			rt = client.New("api.example.test", "/", []string{"http"})
		}
		st := sp.stepCase(c, boundaries)
		o := executeOn(rt, st)
		sv := judge(st, o)
		v.outcomes = append(v.outcomes, fmt.Sprintf("sequence:step%d", step))
		if sv.class != "" {
			v.class, v.what = sv.class, fmt.Sprintf("step %d of %d (%s Runtime): %s", step, sp.Steps, sp.Runtime, sv.what)
			if step > 1 {
				v.class += "/after-embedding-an-earlier-boundary"
				v.what += fmt.Sprintf("; boundaries seen before: %q, this request announced %q", boundaries, o.ct)
			}
			return v
		}
		_, params, err := mime.ParseMediaType(o.ct)
		if err != nil || params["boundary"] == "" {
			v.class, v.what = "content-type-header/multipart", fmt.Sprintf("step %d: Content-Type %q carries no boundary", step, o.ct)
			return v
		}
		for _, b := range boundaries {
			if b == params["boundary"] {
				v.outcomes = append(v.outcomes, "sequence:boundary-reused")
			}
		}
		boundaries = append(boundaries, params["boundary"])
	}
	v.nontrivial = true
	v.outcomes = append(v.outcomes, "sequence:complete:"+sp.Runtime)
	return v
}

func checkSequence(c Case) verdict {
	if c.Seq == nil || !c.Seq.valid() || c.Seq.Steps < 2 || c.Seq.Steps > 3 {
		return verdict{outcomes: []string{"harness-error"}}
	}
	return guarded(3, "the request sequence", func() verdict { return runSequence(c) })
}
