package main

// Environment dimension (sweep D): upload sources and reader payloads that have
// more capabilities than io.Reader (Seek, ReadAt, WriteTo), with honest, failing
// and lying variants; Close errors; read faults at a particular Read call; real
// FIFOs. Oracle: if a fault was delivered the build or the send may fail;
// otherwise, and whenever the call succeeds, the sent bytes are exactly the payload.

import (
	"errors"
	"fmt"
	"io"
	"os"
	"path/filepath"
	"sync/atomic"
	"syscall"
)

var (
	errInjected      = errors.New("injected source fault")
	errInjectedClose = errors.New("injected close fault")
	errAfterClose    = errors.New("source already closed")
)

// SrcEnv describes one scripted source (upload file or reader payload).
type SrcEnv struct {
	Caps       string `json:"caps"`                  // extra interfaces: "" | S (Seeker) | SA (+ReaderAt) | W (WriterTo) | SAW
	Closer     bool   `json:"closer,omitempty"`      // reader payloads: has Close (upload files always have)
	Seek       string `json:"seek,omitempty"`        // "" honest | fail (error, does not move) | lie-nomove (nil error, does not move) | lie-moved-err (moves, returns an error)
	ReadAt     string `json:"readat,omitempty"`      // "" honest | fail
	WriteTo    string `json:"writeto,omitempty"`     // "" honest | fail (writes half of what is left, then an error)
	Close      string `json:"close,omitempty"`       // "" ok | err | err-if-partial | err-if-complete
	FaultAt    int    `json:"fault_at,omitempty"`    // the k-th Read call misbehaves (1-based; 0: none)
	FaultStyle string `json:"fault_style,omitempty"` // sticky (0, err for ever) | once-then-eof (data+err once, then EOF) | once-then-continue (data+err once, then the rest)
	AfterClose string `json:"after_close,omitempty"` // "" reads after Close behave as before | error (like *os.File)
	Chunk      int    `json:"chunk,omitempty"`       // at most that many bytes per Read (0: as many as fit)
}

// injects reports whether the description contains a misbehaviour at all.
func (e SrcEnv) injects() bool {
	return e.Seek != "" || e.ReadAt != "" || e.WriteTo != "" || e.Close != "" || e.FaultAt > 0
}

// envStats is shared by all sources of one execution.
type envStats struct {
	delivered atomic.Int64 // injected errors actually returned to the library
	lies      atomic.Int64 // lying answers actually given to the library
}

type core struct {
	name  string
	data  []byte
	env   SrcEnv
	stats *envStats

	pos       int
	reads     int
	closed    bool
	sticky    error
	truncated bool
}

func (c *core) Name() string { return c.name }

func (c *core) Read(p []byte) (int, error) {
	c.reads++
	if c.closed && c.env.AfterClose == "error" {
		return 0, errAfterClose // not an injected fault: the consequence of reading a closed source
	}
	if c.sticky != nil {
		c.stats.delivered.Add(1)
		return 0, c.sticky
	}
	if len(p) == 0 {
		return 0, nil
	}
	if c.truncated {
		return 0, io.EOF
	}
	rem := c.data[c.pos:]
	m := len(p)
	if c.env.Chunk > 0 && m > c.env.Chunk {
		m = c.env.Chunk
	}
	if m > len(rem) {
		m = len(rem)
	}
	if c.env.FaultAt == c.reads {
		c.stats.delivered.Add(1)
		switch c.env.FaultStyle {
		case "once-then-eof":
			n := copy(p, rem[:m])
			c.pos += n
			c.truncated = true
			return n, errInjected
		case "once-then-continue":
			n := copy(p, rem[:m])
			c.pos += n
			return n, errInjected
		default:
			c.sticky = errInjected
			return 0, c.sticky
		}
	}
	if len(rem) == 0 {
		return 0, io.EOF
	}
	n := copy(p, rem[:m])
	c.pos += n
	return n, nil
}

func (c *core) doClose() error {
	c.closed = true
	bad := false
	switch c.env.Close {
	case "err":
		bad = true
	case "err-if-partial":
		bad = c.pos < len(c.data)
	case "err-if-complete":
		bad = c.pos == len(c.data)
	}
	if bad {
		c.stats.delivered.Add(1)
		return errInjectedClose
	}
	return nil
}

func (c *core) doSeek(offset int64, whence int) (int64, error) {
	var np int64
	switch whence {
	case io.SeekStart:
		np = offset
	case io.SeekCurrent:
		np = int64(c.pos) + offset
	case io.SeekEnd:
		np = int64(len(c.data)) + offset
	default:
		return 0, errors.New("seek: invalid whence")
	}
	if np < 0 {
		return 0, errors.New("seek: negative position")
	}
	switch c.env.Seek {
	case "fail":
		c.stats.delivered.Add(1)
		return 0, errInjected
	case "lie-nomove":
		c.stats.lies.Add(1)
		return np, nil
	case "lie-moved-err":
		c.stats.lies.Add(1)
		c.setPos(np)
		return 0, errInjected
	}
	c.setPos(np)
	return np, nil
}

func (c *core) setPos(np int64) {
	if np > int64(len(c.data)) {
		np = int64(len(c.data))
	}
	c.pos = int(np)
	c.truncated = false
}

func (c *core) doReadAt(p []byte, off int64) (int, error) {
	if c.env.ReadAt == "fail" {
		c.stats.delivered.Add(1)
		return 0, errInjected
	}
	if off < 0 {
		return 0, errors.New("readat: negative offset")
	}
	if off >= int64(len(c.data)) {
		return 0, io.EOF
	}
	n := copy(p, c.data[off:])
	if n < len(p) {
		return n, io.EOF
	}
	return n, nil
}

func (c *core) doWriteTo(w io.Writer) (int64, error) {
	rem := c.data[c.pos:]
	if c.truncated {
		rem = nil
	}
	if c.env.WriteTo == "fail" {
		c.stats.delivered.Add(1)
		n, _ := w.Write(rem[:len(rem)/2])
		c.pos += n
		return int64(n), errInjected
	}
	n, err := w.Write(rem)
	c.pos += n
	return int64(n), err
}

// Method sets are static in Go: one wrapper type per capability set. mixins:
type (
	mClose   struct{ c *core }
	mSeek    struct{ c *core }
	mReadAt  struct{ c *core }
	mWriteTo struct{ c *core }
	mCT      struct{ ct string }
)

func (m mClose) Close() error                             { return m.c.doClose() }
func (m mSeek) Seek(off int64, whence int) (int64, error) { return m.c.doSeek(off, whence) }
func (m mReadAt) ReadAt(p []byte, off int64) (int, error) { return m.c.doReadAt(p, off) }
func (m mWriteTo) WriteTo(w io.Writer) (int64, error)     { return m.c.doWriteTo(w) }
func (m mCT) ContentType() string                         { return m.ct }

type (
	// without Close (plain io.Reader payloads)
	srcR  struct{ *core }
	srcRS struct {
		*core
		mSeek
	}
	srcRSA struct {
		*core
		mSeek
		mReadAt
	}
	srcRW struct {
		*core
		mWriteTo
	}
	srcRSAW struct {
		*core
		mSeek
		mReadAt
		mWriteTo
	}
	// with Close (ReadCloser payloads and undeclared upload files)
	srcC struct {
		*core
		mClose
	}
	srcCS struct {
		*core
		mClose
		mSeek
	}
	srcCSA struct {
		*core
		mClose
		mSeek
		mReadAt
	}
	srcCW struct {
		*core
		mClose
		mWriteTo
	}
	srcCSAW struct {
		*core
		mClose
		mSeek
		mReadAt
		mWriteTo
	}
	// with Close and ContentType (declared upload files)
	srcD struct {
		*core
		mClose
		mCT
	}
	srcDS struct {
		*core
		mClose
		mCT
		mSeek
	}
	srcDSA struct {
		*core
		mClose
		mCT
		mSeek
		mReadAt
	}
	srcDW struct {
		*core
		mClose
		mCT
		mWriteTo
	}
	srcDSAW struct {
		*core
		mClose
		mCT
		mSeek
		mReadAt
		mWriteTo
	}
)

// newEnvSource builds the scripted source. closer=false is only meaningful for payloads.
func newEnvSource(name string, data []byte, env SrcEnv, closer bool, declared string, st *envStats) (interface{}, error) {
	c := &core{name: name, data: data, env: env, stats: st}
	cl, sk, ra, wt, ct := mClose{c}, mSeek{c}, mReadAt{c}, mWriteTo{c}, mCT{declared}
	switch {
	case declared != "":
		switch env.Caps {
		case "":
			return srcD{c, cl, ct}, nil
		case "S":
			return srcDS{c, cl, ct, sk}, nil
		case "SA":
			return srcDSA{c, cl, ct, sk, ra}, nil
		case "W":
			return srcDW{c, cl, ct, wt}, nil
		case "SAW":
			return srcDSAW{c, cl, ct, sk, ra, wt}, nil
		}
	case closer:
		switch env.Caps {
		case "":
			return srcC{c, cl}, nil
		case "S":
			return srcCS{c, cl, sk}, nil
		case "SA":
			return srcCSA{c, cl, sk, ra}, nil
		case "W":
			return srcCW{c, cl, wt}, nil
		case "SAW":
			return srcCSAW{c, cl, sk, ra, wt}, nil
		}
	default:
		switch env.Caps {
		case "":
			return srcR{c}, nil
		case "S":
			return srcRS{c, sk}, nil
		case "SA":
			return srcRSA{c, sk, ra}, nil
		case "W":
			return srcRW{c, wt}, nil
		case "SAW":
			return srcRSAW{c, sk, ra, wt}, nil
		}
	}
	return nil, fmt.Errorf("unknown capability set %q", env.Caps)
}

// ---- real FIFOs ----

var fifoSeq atomic.Int64

// openFIFO creates a named pipe under the work directory, opens its read end as an
// *os.File and feeds it with data from a goroutine. release closes the read end
// (which ends a feeder still blocked on a full pipe with EPIPE), waits for the
// feeder and removes the pipe; it never blocks on correct or incorrect library code.
func openFIFO(base string, data []byte) (f *os.File, release func(), err error) {
	dir := filepath.Join(workDir, fmt.Sprintf("fifo-%d", fifoSeq.Add(1)))
	if err = os.Mkdir(dir, 0o755); err != nil {
		return nil, nil, err
	}
	p := filepath.Join(dir, base)
	if err = syscall.Mkfifo(p, 0o600); err != nil {
		_ = os.RemoveAll(dir)
		return nil, nil, err
	}
	rd, err := os.OpenFile(p, os.O_RDONLY|syscall.O_NONBLOCK, 0)
	if err != nil {
		_ = os.RemoveAll(dir)
		return nil, nil, err
	}
	wr, err := os.OpenFile(p, os.O_WRONLY, 0) // a reader exists: does not block
	if err != nil {
		_ = rd.Close()
		_ = os.RemoveAll(dir)
		return nil, nil, err
	}
	done := make(chan struct{})
	go func() {
		defer close(done)
		_, _ = wr.Write(data)
		_ = wr.Close()
	}()
	return rd, func() {
		_ = rd.Close()
		<-done
		_ = os.RemoveAll(dir)
	}, nil
}
