package main

import (
	"encoding/hex"
	"encoding/json"
	"strings"
	"sync"
	"unicode/utf8"
)

// S is a string that survives a JSON round trip byte for byte: valid UTF-8 is
// written as a JSON string, anything else as {"hex":"..."} (encoding/json would
// silently replace invalid bytes by U+FFFD and the replay would run another case).
type S string

func (s S) MarshalJSON() ([]byte, error) {
	if utf8.ValidString(string(s)) {
		return json.Marshal(string(s))
	}
	return json.Marshal(map[string]string{"hex": hex.EncodeToString([]byte(s))})
}

func (s *S) UnmarshalJSON(b []byte) error {
	var str string
	if err := json.Unmarshal(b, &str); err == nil {
		*s = S(str)
		return nil
	}
	var m map[string]string
	if err := json.Unmarshal(b, &m); err != nil {
		return err
	}
	raw, err := hex.DecodeString(m["hex"])
	if err != nil {
		return err
	}
	*s = S(raw)
	return nil
}

// FileSpec describes one uploaded file abstractly; the bytes are generated from (Kind, Len).
type FileSpec struct {
	Dir      string  `json:"dir"`                // directory part of the name the file reports ("" or ending in '/')
	Base     string  `json:"base"`               // base name: what the part's filename must be
	Kind     string  `json:"kind"`               // content generator, see content()
	Len      int     `json:"len"`                // content length
	Declared string  `json:"declared,omitempty"` // non-empty: the file has a ContentType() method returning this
	Src      string  `json:"src"`                // how the file is read: named-full|named-one|named-k7|named-dataeof|named-zerofirst|osfile|fifo|env
	Env      *SrcEnv `json:"env,omitempty"`      // src == env: the scripted source (faults.go)
}

type FormField struct {
	Name   S   `json:"name"`
	Values []S `json:"values"`
}

type FileField struct {
	Name  S          `json:"name"`
	Files []FileSpec `json:"files"`
}

// ReaderSpec describes an io.Reader / io.ReadCloser payload.
type ReaderSpec struct {
	Flavor string  `json:"flavor"`        // plain|closer|bytes.Buffer|bytes.Reader|strings.Reader|osfile|fifo|env
	Env    *SrcEnv `json:"env,omitempty"` // flavor == env: the scripted source (faults.go)
	Policy string  `json:"policy"`        // full|one|k7|dataeof|zerofirst (plain and closer only)
	Kind   string  `json:"kind"`
	Len    int     `json:"len"`
}

// Case is one element of the enumerated space; check(Case) is a pure function of it
// (up to Go's map iteration order inside the client, which the oracle does not depend on).
type Case struct {
	Payload string      `json:"payload"`          // nil|value|reader|form|sequence|ladder
	Ladder  *LadderSpec `json:"ladder,omitempty"` // payload == ladder: one rung of the size ladder (ladder.go)
	Seq     *SeqSpec    `json:"seq,omitempty"`    // payload == sequence: adaptive multipart sequence (sequence.go)
	Media   string      `json:"media"`            // the single entry of ConsumesMediaTypes
	Value   string      `json:"value,omitempty"`  // value id, see values
	Reader  *ReaderSpec `json:"reader,omitempty"` // payload == reader
	Form    []FormField `json:"form,omitempty"`   // payload == form: SetFormParam calls
	Files   []FileField `json:"files,omitempty"`  // payload == form: SetFileParam calls
	Auth    string      `json:"auth"`             // none|op|default
	GetBody int         `json:"getbody"`          // number of GetBody calls the auth writer makes
	Observe string      `json:"observe"`          // direct: read req.Body; wire: req.Write + http.ReadRequest; submit: Runtime.Submit with a capturing transport
	Debug   bool        `json:"debug,omitempty"`  // observe == submit: Runtime.Debug on (dumps go to a silent logger)
	Method  string      `json:"method"`
}

// ---- content generators ----

var prefixes = map[string]string{
	"ascii":  "",
	"bom":    "\xEF\xBB\xBF",
	"pdf":    "%PDF-1.7\n",
	"png":    "\x89PNG\r\n\x1a\n",
	"html":   "<html><head>",
	"wshtml": " \n\t<html><head>",
	"gif":    "GIF89a",
	"zip":    "PK\x03\x04",
	"utf16":  "\xFE\xFFh\x00i\x00",
	"dashes": "\r\n--\r\n----x--\r\n",
	"json":   `{"a":[1,2,3],"b":"`,
}

// kinds is the content alphabet (order: simplest first).
var kinds = []string{"ascii", "nul", "bin", "utf8", "bom", "pdf", "png", "html", "wshtml", "gif", "zip", "utf16", "dashes", "json"}

// content returns the first n bytes of an infinite, position-dependent stream
// of the given kind (so truncation, duplication and reordering are all visible).
// The result is cached and shared: callers must not modify it.
func content(kind string, n int) []byte {
	if strings.HasPrefix(kind, litPrefix) {
		return []byte(kind[len(litPrefix):]) // literal content (adaptive sequences); not cached
	}
	key := contentKey{kind, n}
	if b, ok := contentCache.Load(key); ok {
		return b.([]byte)
	}
	b := genContent(kind, n)
	contentCache.Store(key, b)
	return b
}

// litPrefix marks a content kind that carries the bytes themselves.
const litPrefix = "lit:"

type contentKey struct {
	kind string
	n    int
}

var contentCache sync.Map

func genContent(kind string, n int) []byte {
	out := make([]byte, 0, n)
	switch kind {
	case "nul":
		return make([]byte, n)
	case "bin":
		for i := 0; i < n; i++ {
			out = append(out, byte(1+(i*7+i/251)%8)) // control bytes 0x01..0x08: binary for the sniffer
		}
		return out
	case "utf8":
		src := "é日本語ü€"
		for i := 0; len(out) < n; i++ {
			out = append(out, src[(i+i/len(src))%len(src)])
		}
		return out[:n]
	}
	p, ok := prefixes[kind]
	if !ok {
		panic("unknown content kind " + kind)
	}
	out = append(out, p...)
	for i := len(out); i < n; i++ {
		if i%17 == 16 {
			out = append(out, '\n')
		} else {
			out = append(out, byte('a'+(i*7+i/26)%26))
		}
	}
	return out[:n]
}
