// C11 - client bodies: the bytes sent are the payload, and what the auth writer
// saw is what is sent. Bounded exhaustive enumeration (E1) of payload kinds x
// media types x file contents / names / read behaviours x auth writers calling
// GetBody 0..3 times, executed on the real client (Runtime.CreateHttpRequest)
// and compared with a reference written from the property text: the sent body
// is parsed by the standard parser of the announced type (mime/multipart,
// url.ParseQuery) or compared with the registered producer's own encoding.
package main

import (
	"encoding/json"
	"fmt"
	"io"
	"log"
	"os"
	"runtime/debug"
	"runtime/pprof"
	"strings"
	"sync"
	"sync/atomic"
	"time"

	"github.com/go-openapi/runtime"

	"verif/engine/enum"
	"verif/engine/report"
)

// Horizons only turn a blocked call into a verdict; they are stimulus bounds, not an oracle on
// speed (every ordinary case completes in well under a millisecond, a 32 MiB rung in about a
// second). A case that exceeds firstHorizon is re-executed alone with confirmHorizon; only if
// that blocks too is it reported (class hang). Every call into the code under test (building
// the request, Submit, GetBody inside the auth writer, reading and draining the body) happens
// inside the guarded goroutine, on a fresh Runtime and request, so an abandoned goroutine
// cannot block a later case. After maxConfirmedHangs confirmed hangs the mechanism is
// established: later cases get shortHorizon and one that exceeds it is skipped and counted
// (outcome hang:suspected-not-confirmed, run not exhaustive), never reported unconfirmed;
// a sweep with more than maxSuspectedPerSweep skipped cases is abandoned.
const (
	firstHorizon         = 10 * time.Second
	confirmHorizon       = 30 * time.Second
	shortHorizon         = 1 * time.Second
	maxConfirmedHangs    = 3
	maxSuspectedPerSweep = 32
)

var (
	confirmedHangs atomic.Int64
	suspectedHangs atomic.Int64 // in the current sweep (sweeps run one after the other)
	incomplete     atomic.Bool  // some case was skipped or a sweep abandoned
	profiling      bool
)

func within(d time.Duration, run func() verdict) (verdict, bool) {
	ch := make(chan verdict, 1)
	go func() { ch <- run() }()
	t := time.NewTimer(d)
	defer t.Stop()
	select {
	case v := <-ch:
		return v, true
	case <-t.C:
		select { // the process may have been stopped as a whole: a result that is there counts
		case v := <-ch:
			return v, true
		default:
		}
		return verdict{}, false
	}
}

// guarded runs one case under the two-stage horizon. mult scales the horizons for cases that
// legitimately take longer (size ladder, sequences).
func guarded(mult time.Duration, what string, run func() verdict) verdict {
	h1 := firstHorizon * mult
	if confirmedHangs.Load() >= maxConfirmedHangs {
		h1 = shortHorizon
		if mult > 1 {
			h1 = 2 * shortHorizon // skipping is harmless (never reported), so no need to scale further
		}
	}
	if v, ok := within(h1, run); ok {
		return v
	}
	if confirmedHangs.Load() >= maxConfirmedHangs {
		suspectedHangs.Add(1)
		incomplete.Store(true)
		return verdict{outcomes: []string{"hang:suspected-not-confirmed"}}
	}
	if v, ok := within(confirmHorizon*mult, run); ok {
		return v
	}
	confirmedHangs.Add(1)
	return verdict{class: "hang", outcomes: []string{"hang:confirmed"},
		what: fmt.Sprintf("%s did not finish within %v, nor within %v when re-executed", what, h1, confirmHorizon*mult)}
}

// runOnce executes an ordinary case once under the confirmation horizon (replay printing).
func runOnce(c Case) (o observed, ok bool) {
	_, ok = within(confirmHorizon, func() verdict { o = execute(c); return verdict{} })
	if !ok {
		return observed{}, false
	}
	return o, true
}

// check decides one case: pure function of the case (the oracle is insensitive to
// the client's map iteration order).
func check(c Case) verdict {
	switch c.Payload {
	case "sequence":
		return checkSequence(c)
	case "ladder":
		return checkLadder(c)
	}
	return guarded(1, "building and sending the request", func() verdict { return judge(c, execute(c)) })
}

// ---- axes ----

type authMode struct {
	Auth    string
	GetBody int
}

type obsMode struct{ Method, Observe string }

var medias = struct{ forms, values, readers []string }{
	forms:   []string{runtime.URLencodedFormMime, runtime.MultipartFormMime, runtime.JSONMime},
	readers: []string{runtime.DefaultMime, runtime.JSONMime, runtime.URLencodedFormMime, runtime.MultipartFormMime},
}

func s(xs ...string) []S {
	out := make([]S, len(xs))
	for i, x := range xs {
		out[i] = S(x)
	}
	return out
}

// sweep is a full product of its axes; mk may reject an index tuple that is not a
// meaningful combination (stated per sweep).
type sweep struct {
	name  string
	sizes []int
	mk    func(idx []int) (Case, bool)
}

func (sw sweep) total() int {
	n := 1
	for _, k := range sw.sizes {
		n *= k
	}
	return n
}

func (sw sweep) at(i int, idx []int) (Case, bool) {
	for k := len(sw.sizes) - 1; k >= 0; k-- {
		idx[k] = i % sw.sizes[k]
		i /= sw.sizes[k]
	}
	return sw.mk(idx)
}

func buildSweeps(thorough bool, r *report.R) []sweep {
	auths := []authMode{{"none", 0}, {"op", 0}, {"op", 1}, {"op", 2}, {"default", 3}}
	obs := []obsMode{{"POST", "direct"}, {"POST", "wire"}}
	obsA := []obsMode{{"POST", "direct"}, {"POST", "wire"}, {"GET", "direct"}}
	if thorough {
		auths = []authMode{{"none", 0}, {"op", 0}, {"op", 1}, {"op", 2}, {"op", 3}, {"default", 0}, {"default", 1}, {"default", 2}, {"default", 3}}
		obsA = []obsMode{{"POST", "direct"}, {"POST", "wire"}, {"PUT", "wire"}, {"PATCH", "direct"}, {"GET", "direct"}, {"DELETE", "direct"}}
	}
	r.Set("axis_auth", auths)
	r.Set("axis_method_observe", obsA)
	withAO := func(c Case, a authMode, o obsMode) Case {
		c.Auth, c.GetBody, c.Method, c.Observe = a.Auth, a.GetBody, o.Method, o.Observe
		return c
	}
	var sweeps []sweep

	// ---- A: nil, value and reader payloads ----
	var payloads []Case
	producerMedias := []string{runtime.JSONMime, runtime.XMLMime, runtime.YAMLMime, runtime.TextMime, runtime.HTMLMime, runtime.CSVMime, runtime.DefaultMime, tagMime}
	for _, m := range append(append([]string{}, producerMedias...), runtime.URLencodedFormMime, runtime.MultipartFormMime) {
		payloads = append(payloads, Case{Payload: "nil", Media: m})
	}
	for _, m := range producerMedias { // value with each registered producer
		for _, id := range valueIDs {
			payloads = append(payloads, Case{Payload: "value", Media: m, Value: id})
		}
	}
	// spellings of the chosen media type: parameters, compact and spaced, TAB as optional whitespace, case variants
	spell := func(m string) []string {
		return []string{m + "; charset=utf-8", m + ";charset=utf-8", m + ";\tcharset=utf-8", m + " ; charset=\"utf-8\"", strings.ToUpper(m[:1]) + m[1:], strings.ToUpper(m)}
	}
	var spelled []string
	for _, m := range []string{runtime.JSONMime, runtime.TextMime, runtime.DefaultMime} {
		for _, sp := range spell(m) {
			spelled = append(spelled, sp)
			for _, id := range []string{"struct", "string", "bytes", "edgestring"} {
				payloads = append(payloads, Case{Payload: "value", Media: sp, Value: id})
			}
			payloads = append(payloads, Case{Payload: "reader", Media: sp, Reader: &ReaderSpec{Flavor: "plain", Policy: "full", Kind: "utf8", Len: 600}},
				Case{Payload: "reader", Media: sp, Reader: &ReaderSpec{Flavor: "closer", Policy: "full", Kind: "bin", Len: 600}})
		}
	}
	rlens := []int{0, 1, 512, 4096, 32769, 70000}
	rkinds := []string{"ascii", "bin"}
	if thorough {
		rlens = []int{0, 1, 2, 5, 511, 512, 513, 4096, 32768, 32769, 70000}
		rkinds = []string{"ascii", "bin", "nul", "utf8"}
	}
	type fl struct{ flavor, policy string }
	flavors := []fl{{"plain", "full"}, {"plain", "one"}, {"plain", "dataeof"}, {"closer", "full"}, {"closer", "dataeof"}, {"bytes.Buffer", ""}, {"bytes.Reader", ""}, {"strings.Reader", ""}, {"osfile", ""}}
	if thorough {
		flavors = append(flavors, fl{"plain", "k7"}, fl{"plain", "zerofirst"}, fl{"closer", "one"}, fl{"closer", "zerofirst"})
	}
	for _, m := range medias.readers {
		for _, f := range flavors {
			for _, n := range rlens {
				if (f.policy == "one" || f.policy == "k7") && n > 4096 {
					continue // one byte per Read over 70 kB is 70000 pipe-free reads: same code path, only slower
				}
				for _, k := range rkinds {
					payloads = append(payloads, Case{Payload: "reader", Media: m, Reader: &ReaderSpec{Flavor: f.flavor, Policy: f.policy, Kind: k, Len: n}})
				}
			}
		}
	}
	r.Set("sweepA_payloads", map[string]any{"total": len(payloads), "value_media": producerMedias, "value_ids": valueIDs, "media_spellings": spelled, "reader_media": medias.readers, "reader_flavors": flavors, "reader_lengths": rlens, "reader_kinds": rkinds})
	sweeps = append(sweeps, sweep{"A:nil+value+reader", []int{len(payloads), len(auths), len(obsA)}, func(i []int) (Case, bool) {
		return withAO(payloads[i[0]], auths[i[1]], obsA[i[2]]), true
	}})

	// ---- B: form fields only, URL-encoded ----
	names := s("a", "b c", "k&=+%", "é日", "", "A", "ab", "a.b-c[0]", "\U0001F600\"\\\xff")
	atoms := s("", "a", " ", "+", "%", "%2F", "/", "&", "=", "a&b=c", "é", "\x80", "\t", "\n", "\x00", "%%s", "\U0001F600\"\\", "\ufeff", ";,")
	if thorough {
		atoms = s("", "a", " ", "+", "%", "%2F", "%25", "%2f", "/", "?", "#", "&", "=", "a&b=c", ";", "é", "日本", "\x80", "\r\n", "a b", "\x00",
			"\t", "\r", "\n", "\x7f", "%%", "%s", ",", "{}", "..", "*", ":", "\"", "\\", "\U0001F600", "\xff\"", "\ufeff", "\u2028")
	}
	var shapesB [][]FormField
	for _, n := range names {
		shapesB = append(shapesB, []FormField{{n, nil}})
		for _, v := range atoms {
			shapesB = append(shapesB, []FormField{{n, []S{v}}})
			for _, w := range atoms {
				shapesB = append(shapesB, []FormField{{n, []S{v, w}}})
			}
		}
	}
	// two fields: every pair of the first five names, plus names differing only in case, a name that
	// is a prefix of the other, a name with '.', '-', '[', ']' and the name mixing runes that need escaping
	var pairsB [][2]S
	for i, n := range names[:5] {
		for _, m := range names[i+1 : 5] {
			pairsB = append(pairsB, [2]S{n, m})
		}
	}
	pairsB = append(pairsB, [2]S{"a", "A"}, [2]S{"a", "ab"}, [2]S{"A", "ab"}, [2]S{"a", names[7]}, [2]S{"a", names[8]})
	for _, pr := range pairsB {
		for _, v := range atoms {
			for _, w := range atoms {
				shapesB = append(shapesB, []FormField{{pr[0], []S{v}}, {pr[1], []S{w}}})
			}
		}
	}
	// the URL-encoded media type in the spellings specifications use (parameters, no space, TAB)
	mediasB := []string{runtime.URLencodedFormMime, runtime.JSONMime, runtime.TextMime}
	mediasBspelled := []string{runtime.URLencodedFormMime + "; charset=UTF-8", runtime.URLencodedFormMime + ";charset=utf-8", runtime.URLencodedFormMime + ";\tcharset=utf-8"}
	shapesBsmall := [][]FormField{{{"a", s("v")}}, {{"a", s("", "\U0001F600\"\\")}, {"A", s("%s")}}}
	r.Set("sweepB_media_spellings", mediasBspelled)
	sweeps = append(sweeps, sweep{"B2:urlencoded-media-spellings", []int{len(shapesBsmall), len(mediasBspelled), len(auths), len(obs)}, func(i []int) (Case, bool) {
		return withAO(Case{Payload: "form", Media: mediasBspelled[i[1]], Form: shapesBsmall[i[0]]}, auths[i[2]], obs[i[3]]), true
	}})
	r.Set("sweepB_urlencoded", map[string]any{"field_names": names, "value_atoms": atoms, "shapes": len(shapesB), "media": mediasB})
	sweeps = append(sweeps, sweep{"B:urlencoded-form", []int{len(shapesB), len(mediasB), len(auths), len(obs)}, func(i []int) (Case, bool) {
		return withAO(Case{Payload: "form", Media: mediasB[i[1]], Form: shapesB[i[0]]}, auths[i[2]], obs[i[3]]), true
	}})

	// ---- C1: one file, every content length x kind x declared x read behaviour ----
	lens := []int{0, 1, 2, 3, 4, 5, 8, 9, 511, 512, 513, 1024, 33281}
	ckinds := kinds
	srcs := []string{"named-full", "named-one", "named-dataeof", "osfile"}
	if thorough {
		lens = []int{0, 1, 2, 3, 4, 5, 6, 7, 8, 9, 10, 11, 12, 13, 14, 15, 16, 17, 100, 255, 256, 257,
			505, 506, 507, 508, 509, 510, 511, 512, 513, 514, 515, 516, 517, 518, 519, 520, 1023, 1024, 1025, 4096, 32767, 32768, 32769, 33279, 33280, 33281, 70000}
		srcs = []string{"named-full", "named-one", "named-k7", "named-dataeof", "named-zerofirst", "osfile"}
	}
	declared := []string{"", "text/csv", "application/x-custom; charset=utf-8"}
	r.Set("sweepC1_content", map[string]any{"lengths": lens, "kinds": ckinds, "declared": declared, "sources": srcs})
	sweeps = append(sweeps, sweep{"C1:multipart-one-file-content", []int{len(lens), len(ckinds), len(declared), len(srcs), len(auths), len(obs)}, func(i []int) (Case, bool) {
		f := FileSpec{Dir: "up/", Base: "data.bin", Len: lens[i[0]], Kind: ckinds[i[1]], Declared: declared[i[2]], Src: srcs[i[3]]}
		if (f.Src == "named-one" || f.Src == "named-k7") && f.Len > 4096 {
			return Case{}, false // same code path as 4096, only slower (one pipe hand-off per byte)
		}
		return withAO(Case{Payload: "form", Media: runtime.MultipartFormMime, Files: []FileField{{"f", []FileSpec{f}}}}, auths[i[4]], obs[i[5]]), true
	}})

	// ---- C2: structure: several fields, values, file fields, files ----
	fileSet := []FileSpec{
		{Dir: "", Base: "a.txt", Kind: "ascii", Len: 600, Src: "named-full"},
		{Dir: "", Base: "c.csv", Kind: "ascii", Len: 3, Declared: "text/csv", Src: "named-dataeof"},
		{Dir: "", Base: "s.txt", Kind: "ascii", Len: 2, Src: "named-full"}, // shorter than the sniffing window, undeclared
		{Dir: "d/", Base: "b.png", Kind: "png", Len: 1024, Src: "named-full"},
		{Dir: "", Base: "empty", Kind: "ascii", Len: 0, Src: "named-full"},
	}
	mvals := s("v", "", "line1\r\n--x\r\nline2")
	thirdFiles := fileSet[:1] // the file of the second field in the three-file shapes
	if thorough {
		fileSet = append(fileSet, FileSpec{Base: "e.pdf", Kind: "pdf", Len: 513, Src: "osfile"})
		mvals = append(mvals, S("é\x80"))
		thirdFiles = fileSet
	}
	shapesF := [][]FormField{nil, {{"a", nil}}}
	for _, v := range mvals {
		shapesF = append(shapesF, []FormField{{"a", []S{v}}})
		for _, w := range mvals {
			shapesF = append(shapesF, []FormField{{"a", []S{v, w}}}, []FormField{{"a", []S{v}}, {"b", []S{w}}})
		}
	}
	shapesL := [][]FileField{nil, {{"f", nil}}}
	for _, f1 := range fileSet {
		shapesL = append(shapesL, []FileField{{"f", []FileSpec{f1}}})
		for _, f2 := range fileSet {
			shapesL = append(shapesL, []FileField{{"f", []FileSpec{f1, f2}}}, []FileField{{"f", []FileSpec{f1}}, {"a", []FileSpec{f2}}})
			for _, f3 := range thirdFiles {
				shapesL = append(shapesL, []FileField{{"f", []FileSpec{f1, f2}}, {"a", []FileSpec{f3}}})
			}
		}
	}
	r.Set("sweepC2_structure", map[string]any{"form_shapes": len(shapesF), "file_shapes": len(shapesL), "files": fileSet, "field_values": mvals, "media": medias.forms})
	sweeps = append(sweeps, sweep{"C2:form-structure", []int{len(shapesF), len(shapesL), len(medias.forms), len(auths), len(obs)}, func(i []int) (Case, bool) {
		ff, fl := shapesF[i[0]], shapesL[i[1]]
		if ff == nil && fl == nil {
			return Case{}, false // no form at all: that is the nil payload of sweep A
		}
		if fl == nil && medias.forms[i[2]] != runtime.MultipartFormMime {
			return Case{}, false // fields only and not multipart: sweep B
		}
		return withAO(Case{Payload: "form", Media: medias.forms[i[2]], Form: ff, Files: fl}, auths[i[3]], obs[i[4]]), true
	}})

	// ---- C3: names ----
	fnames := s("f", "file[]", `q"f`, `b\f`, "a b", "é", `end\`)
	dirs := []string{"", "d/", "/abs/d.ir/", "./", "../up/"}
	bases := []string{"a.txt", `q"uo.te`, `back\slash`, "sp ace.txt", "sémi;=.tx%t", "noext", ".hidden", `end\`, `a"`, "日本.txt"}
	srcsN := []string{"named-full", "osfile"}
	authsN := []authMode{{"none", 0}, {"op", 1}}
	r.Set("sweepC3_names", map[string]any{"field_names": fnames, "dirs": dirs, "base_names": bases, "sources": srcsN, "auth": authsN})
	sweeps = append(sweeps, sweep{"C3:multipart-names", []int{len(fnames), len(dirs), len(bases), 2, len(srcsN), len(authsN), len(obs)}, func(i []int) (Case, bool) {
		f := FileSpec{Dir: dirs[i[1]], Base: bases[i[2]], Kind: "html", Len: 700, Src: srcsN[i[4]]}
		if i[3] == 1 {
			f.Declared = "text/csv"
		}
		if f.Src == "osfile" && f.Dir != "" {
			return Case{}, false // an *os.File reports its real path; one directory is enough
		}
		c := Case{Payload: "form", Media: runtime.MultipartFormMime,
			Form:  []FormField{{fnames[i[0]], []S{"v"}}},
			Files: []FileField{{fnames[i[0]], []FileSpec{f}}}}
		return withAO(c, authsN[i[5]], obs[i[6]]), true
	}})

	// ---- C4: edge values in names and values (reduced other axes) ----
	long300 := strings.Repeat("n", 300)
	edgeNames := s(
		"r\u00e9\"sum\u00e9", "\u65e5\u672c\\\u8a9e", "\U0001F600\"x", "\U0001F600.txt", // non-ASCII (incl. beyond the BMP) with and without quote/backslash
		"\xff\xfe", "\x80\"", "\xc3\\(", // invalid UTF-8 alone and together with characters that need escaping
		"\ufeffbom", "a\u2028b", "a\tb", // BOM, line separator, TAB (NUL, DEL, CR, LF have no representation in a header field value, RFC 7230: outside the domain)
		" ", " lead", "trail ", // single space, leading / trailing space
		"%", "%%", "%s", "%41", "+", "&=", ";", ",", "{}", "..", "*", ":", "#?", "a/b\\c", // syntax of the surrounding formats
		"a.b-c[0]", "F", "fx", long300) // odd but legal shapes, case variant / prefix of the ordinary name, long
	edgeFieldNames := append(append([]S{}, edgeNames...), "") // the empty field name
	var edgeBases []string
	for _, n := range edgeNames {
		if strings.Contains(string(n), "/") || n == ".." {
			continue // not a base name ('/' separates; ".." is a directory)
		}
		edgeBases = append(edgeBases, string(n))
	}
	edgeDirs := []string{"", "d\u00e9\"/"}
	authsN2 := []authMode{{"none", 0}, {"op", 1}}
	r.Set("sweepC4_edge_names", map[string]any{"field_names": edgeFieldNames, "base_names": edgeBases, "dirs": edgeDirs})
	// C4a: every edge field name with an ordinary file, every edge base name under an ordinary field (one at a time)
	sweeps = append(sweeps, sweep{"C4a:edge-names-one-at-a-time", []int{len(edgeFieldNames) + len(edgeBases), len(edgeDirs), 2, len(authsN2), len(obs)}, func(i []int) (Case, bool) {
		fn, base := S("f"), "a.txt"
		if i[0] < len(edgeFieldNames) {
			fn = edgeFieldNames[i[0]]
		} else {
			base = edgeBases[i[0]-len(edgeFieldNames)]
		}
		f := FileSpec{Dir: edgeDirs[i[1]], Base: base, Kind: "html", Len: 700, Src: "named-full"}
		if i[2] == 1 {
			f.Declared = "text/csv"
		}
		form := []FormField{{fn, s("v1")}, {fn + "b", s("v2")}} // a form field of the same name and one it is a prefix of
		if up := S(strings.ToUpper(string(fn))); up != fn {
			form = append(form, FormField{up, s("v3")}) // and one differing only in case
		}
		c := Case{Payload: "form", Media: runtime.MultipartFormMime, Form: form, Files: []FileField{{fn, []FileSpec{f}}}}
		return withAO(c, authsN2[i[3]], obs[i[4]]), true
	}})
	// C4b: the escaping-relevant names crossed with each other (field name x base name)
	crossNames := edgeNames[:10]
	sweeps = append(sweeps, sweep{"C4b:edge-names-crossed", []int{len(crossNames), len(crossNames), len(authsN2), len(obs)}, func(i []int) (Case, bool) {
		f := FileSpec{Base: string(crossNames[i[1]]), Kind: "png", Len: 600, Src: "named-full"}
		c := Case{Payload: "form", Media: runtime.MultipartFormMime, Form: []FormField{{crossNames[i[0]], s("v")}}, Files: []FileField{{crossNames[i[0]], []FileSpec{f}}}}
		return withAO(c, authsN2[i[2]], obs[i[3]]), true
	}})
	// C4c: edge values of multipart form fields (NUL, DEL, bare CR / LF, TAB, BOM, U+2028, invalid UTF-8, long, format look-alikes)
	edgeVals := s("", " ", "\x00", "\t", "\r", "\n", "\r\n", "\n\r", "\x7f", "\xff", "\U0001F600\"\\", "\ufeff", "\u2028", "%s", "%%", "--", "--\r\n", "\r\n--", "a\r\nContent-Type: x/y\r\n\r\nb",
		strings.Repeat("long value \u00e9 ", 5000))
	mediasC4 := []string{runtime.MultipartFormMime, runtime.MultipartFormMime + "; charset=utf-8", runtime.MultipartFormMime + ";charset=utf-8"}
	r.Set("sweepC4_edge_values", map[string]any{"values": len(edgeVals), "longest": len(edgeVals[len(edgeVals)-1]), "media": mediasC4})
	sweeps = append(sweeps, sweep{"C4c:edge-field-values", []int{len(edgeVals), len(edgeVals), len(mediasC4), 2, len(authsN2), len(obs)}, func(i []int) (Case, bool) {
		c := Case{Payload: "form", Media: mediasC4[i[2]], Form: []FormField{{"a", []S{edgeVals[i[0]], edgeVals[i[1]]}}}}
		if i[3] == 1 {
			c.Files = []FileField{{"f", []FileSpec{{Base: "a.txt", Kind: "ascii", Len: 600, Src: "named-full"}}}}
		}
		return withAO(c, authsN2[i[4]], obs[i[5]]), true
	}})

	// ---- D: environment. Sources with more capabilities than io.Reader, faults, real FIFOs ----
	// one misbehaviour of each kind at a time, crossed with the Close behaviour (so up to two per source)
	type misb struct {
		needs string // capability the misbehaviour needs
		env   SrcEnv
	}
	misbs := []misb{{"", SrcEnv{}},
		{"S", SrcEnv{Seek: "fail"}}, {"S", SrcEnv{Seek: "lie-nomove"}}, {"S", SrcEnv{Seek: "lie-moved-err"}},
		{"A", SrcEnv{ReadAt: "fail"}}, {"W", SrcEnv{WriteTo: "fail"}}}
	faultReads := []int{1, 2, 3, 4, 5}
	if thorough {
		faultReads = []int{1, 2, 3, 4, 5, 6, 7}
	}
	for _, k := range faultReads {
		for _, st := range []string{"sticky", "once-then-eof", "once-then-continue"} {
			misbs = append(misbs, misb{"", SrcEnv{FaultAt: k, FaultStyle: st}})
		}
	}
	capsAxis := []string{"", "S", "SA", "W", "SAW"}
	closeAxis := []string{"", "err", "err-if-partial", "err-if-complete"}
	chunkAxis := []int{0, 200}
	elens := []int{0, 100, 600, 40000}
	if thorough {
		elens = []int{0, 1, 100, 511, 512, 513, 600, 40000}
	}
	authsD := []authMode{{"none", 0}, {"op", 1}, {"op", 2}}
	if thorough {
		authsD = []authMode{{"none", 0}, {"op", 0}, {"op", 1}, {"op", 2}, {"default", 3}}
	}
	mkEnv := func(caps string, m misb, cl string, chunk int) (SrcEnv, bool) {
		for _, need := range m.needs {
			found := false
			for _, have := range caps {
				found = found || have == need
			}
			if !found {
				return SrcEnv{}, false // e.g. a failing Seek on a source without Seek
			}
		}
		e := m.env
		e.Caps, e.Close, e.Chunk = caps, cl, chunk
		return e, true
	}
	secondFile := []bool{false}
	if thorough {
		secondFile = []bool{false, true}
	}
	r.Set("sweepD_environment", map[string]any{"capabilities": capsAxis, "misbehaviours": misbs, "close": closeAxis, "chunk": chunkAxis,
		"lengths": elens, "auth": authsD, "after_close": []string{"", "error"}, "fifo": "real named pipe (syscall.Mkfifo) opened as *os.File, fed by a goroutine"})
	// D1: one scripted upload file (undeclared: sniffed; or declared), optionally followed by a plain second file
	sweeps = append(sweeps, sweep{"D1:upload-source-environment", []int{len(capsAxis), 2, len(elens), len(chunkAxis), len(misbs), len(closeAxis), len(secondFile), len(authsD), len(obs)}, func(i []int) (Case, bool) {
		env, ok := mkEnv(capsAxis[i[0]], misbs[i[4]], closeAxis[i[5]], chunkAxis[i[3]])
		if !ok {
			return Case{}, false
		}
		f := FileSpec{Dir: "up/", Base: "env.bin", Kind: "png", Len: elens[i[2]], Src: "env", Env: &env}
		if i[1] == 1 {
			f.Declared = "text/csv"
		}
		files := []FileSpec{f}
		if secondFile[i[6]] {
			files = append(files, FileSpec{Base: "after.txt", Kind: "ascii", Len: 600, Src: "named-full"})
		}
		c := Case{Payload: "form", Media: runtime.MultipartFormMime, Form: []FormField{{"a", []S{"v"}}}, Files: []FileField{{"f", files}}}
		return withAO(c, authsD[i[7]], obs[i[8]]), true
	}})
	// D2: scripted reader payloads (with and without Close)
	afterClose := []string{"", "error"}
	sweeps = append(sweeps, sweep{"D2:reader-payload-environment", []int{2, len(capsAxis), len(elens), len(chunkAxis), len(misbs), len(closeAxis), len(afterClose), len(authsD), len(obs)}, func(i []int) (Case, bool) {
		env, ok := mkEnv(capsAxis[i[1]], misbs[i[4]], closeAxis[i[5]], chunkAxis[i[3]])
		if !ok {
			return Case{}, false
		}
		env.Closer = i[0] == 1
		env.AfterClose = afterClose[i[6]]
		if !env.Closer && (env.Close != "" || env.AfterClose != "") {
			return Case{}, false // no Close method: nothing to script
		}
		c := Case{Payload: "reader", Media: runtime.DefaultMime, Reader: &ReaderSpec{Flavor: "env", Kind: "bin", Len: elens[i[2]], Env: &env}}
		return withAO(c, authsD[i[7]], obs[i[8]]), true
	}})
	// D3: real FIFOs (Seek and ReadAt fail with ESPIPE, reads are short) as upload file and as reader payload; regular files as control
	flens := []int{0, 1, 100, 511, 512, 513, 600, 40000, 70000}
	fsrc := []string{"fifo", "osfile"}
	r.Set("sweepD3_fifo", map[string]any{"lengths": flens, "sources": fsrc, "as": []string{"upload file undeclared", "upload file declared", "two uploads", "reader payload"}})
	sweeps = append(sweeps, sweep{"D3:fifo", []int{4, len(fsrc), len(flens), len(ckindsD3), len(authsD), len(obs)}, func(i []int) (Case, bool) {
		n, k, srcKind := flens[i[2]], ckindsD3[i[3]], fsrc[i[1]]
		var c Case
		switch i[0] {
		case 3:
			c = Case{Payload: "reader", Media: runtime.DefaultMime, Reader: &ReaderSpec{Flavor: srcKind, Kind: k, Len: n}}
		default:
			f := FileSpec{Base: "pipe.bin", Kind: k, Len: n, Src: srcKind}
			if i[0] == 1 {
				f.Declared = "text/csv"
			}
			files := []FileSpec{f}
			if i[0] == 2 {
				files = append(files, FileSpec{Base: "second.bin", Kind: k, Len: n, Src: srcKind})
			}
			c = Case{Payload: "form", Media: runtime.MultipartFormMime, Files: []FileField{{"f", files}}}
		}
		return withAO(c, authsD[i[4]], obs[i[5]]), true
	}})
	// ---- E: adaptive multipart sequences (state that outlives a request) ----
	authsE := []authMode{{"none", 0}, {"op", 1}}
	rts := []string{"same", "fresh"}
	stepsE := []int{2, 3}
	r.Set("sweepE_sequences", map[string]any{"where": seqWheres, "pattern": seqPatterns, "position": seqPos, "runtime": rts, "steps": stepsE, "auth": authsE,
		"adaptive": "step k embeds the boundaries read from the Content-Type headers of steps 1..k-1"})
	sweeps = append(sweeps, sweep{"E:adaptive-multipart-sequences", []int{len(seqWheres), len(seqPatterns), len(seqPos), len(rts), len(stepsE), len(authsE), len(obs)}, func(i []int) (Case, bool) {
		sp := SeqSpec{Where: seqWheres[i[0]], Pattern: seqPatterns[i[1]], Pos: seqPos[i[2]], Runtime: rts[i[3]], Steps: stepsE[i[4]]}
		if !sp.valid() {
			return Case{}, false // CR/LF in a file name is outside the alphabet
		}
		return withAO(Case{Payload: "sequence", Media: runtime.MultipartFormMime, Seq: &sp}, authsE[i[5]], obs[i[6]]), true
	}})
	// ---- F: the whole call. Runtime.Submit with a capturing transport, Debug off and on ----
	formsF := []Case{
		{Payload: "form", Media: runtime.URLencodedFormMime, Form: []FormField{{"a", s("v")}}},
		{Payload: "form", Media: runtime.URLencodedFormMime, Form: []FormField{{"a", s("v", "w&=")}, {"b c", s("")}}},
		{Payload: "form", Media: runtime.MultipartFormMime, Form: []FormField{{"a", s("v", "")}}},
	}
	for _, f1 := range fileSet {
		formsF = append(formsF, Case{Payload: "form", Media: runtime.MultipartFormMime, Files: []FileField{{"f", []FileSpec{f1}}}})
		for _, f2 := range fileSet {
			formsF = append(formsF, Case{Payload: "form", Media: runtime.JSONMime, Form: []FormField{{"a", s("v")}}, Files: []FileField{{"f", []FileSpec{f1}}, {"g", []FileSpec{f2}}}})
		}
	}
	for _, n := range []int{0, 600, 70000} {
		formsF = append(formsF, Case{Payload: "form", Media: runtime.MultipartFormMime, Files: []FileField{{"f", []FileSpec{{Base: "pipe.bin", Kind: "png", Len: n, Src: "fifo"}}}}},
			Case{Payload: "form", Media: runtime.MultipartFormMime, Files: []FileField{{"f", []FileSpec{{Base: "disk.bin", Kind: "png", Len: n, Src: "osfile"}}}}})
	}
	payloadsF := append(append([]Case{}, payloads...), formsF...)
	authsF := []authMode{{"none", 0}, {"op", 0}, {"default", 0}, {"op", 1}, {"op", 2}, {"default", 1}}
	r.Set("sweepF_submit", map[string]any{"payloads": len(payloadsF), "of_which_forms": len(formsF), "auth": authsF, "debug": []bool{false, true},
		"observation": "Runtime.Submit; the RoundTripper serialises the request with Request.Write and reads it back with http.ReadRequest"})
	sweeps = append(sweeps, sweep{"F:submit-debug", []int{len(payloadsF), len(authsF), 2}, func(i []int) (Case, bool) {
		c := withAO(payloadsF[i[0]], authsF[i[1]], obsMode{"POST", "submit"})
		c.Debug = i[2] == 1
		return c, true
	}})
	return sweeps
}

var ckindsD3 = []string{"ascii", "png", "bin"}

func show(c Case) string {
	b, _ := json.Marshal(c)
	return string(b)
}

func main() {
	r := report.Start("C11", "exploration")
	log.SetOutput(io.Discard) // the client logs stream errors through the global logger
	// the machine is shared: keep the heap small (report.Start raises the GC target to 2000%)
	debug.SetGCPercent(200)
	if pf := os.Getenv("C11_PROF"); pf != "" {
		if f, err := os.Create(pf); err == nil {
			_ = pprof.StartCPUProfile(f)
			defer pprof.StopCPUProfile()
			profiling = true
		}
	}
	debug.SetMemoryLimit(1 << 30)
	if err := os.MkdirAll("/verif/.work", 0o755); err != nil {
		fmt.Fprintln(os.Stderr, err)
		os.Exit(2)
	}
	var err error
	workDir, err = os.MkdirTemp("/verif/.work", "c11-")
	if err != nil {
		fmt.Fprintln(os.Stderr, err)
		os.Exit(2)
	}
	cleanup := func() { _ = os.RemoveAll(workDir) }

	if r.Replay != "" {
		var c Case
		r.LoadReplay(&c)
		var o observed
		ok := false
		if c.Payload != "sequence" && c.Payload != "ladder" {
			o, ok = runOnce(c)
		}
		v := check(c)
		fmt.Printf("replay %s\n", show(c))
		if ok {
			fmt.Printf("  observed: Content-Type=%q sent=%s getbody=%d calls build-error=%q send-error=%q panic=%q\n", o.ct, short(o.sent), len(o.getBodies), o.buildErr, o.sendErr, o.panicked)
			for i, b := range o.getBodies {
				fmt.Printf("  GetBody #%d: %s\n", i+1, short(b))
			}
		}
		fmt.Printf("  class=%q %s\n  outcomes=%v\n", v.class, v.what, v.outcomes)
		if v.class != "" {
			r.Fail(v.class, v.what, c)
		}
		r.Eval(1)
		r.Nontrivial(2)
		r.Sample(c)
		cleanup()
		r.Finish("replay of one case", false)
	}

	sweeps := buildSweeps(r.Thorough(), r)
	t0 := time.Now()
	const chunk = 64
	perSweep := map[string]int64{}
	for _, sw := range sweeps {
		sw := sw
		total := sw.total()
		nchunks := (total + chunk - 1) / chunk
		var cases atomic.Int64
		suspectedHangs.Store(0)
		abandoned := func() bool {
			if suspectedHangs.Load() > maxSuspectedPerSweep {
				incomplete.Store(true)
				return true
			}
			return false
		}
		enum.Parallel(nchunks, func() bool { return r.OutOfTime() || abandoned() }, func(ci int) {
			idx := make([]int, len(sw.sizes))
			var evals, nontrivial int64
			outcomes := map[string]int64{}
			for i := ci * chunk; i < (ci+1)*chunk && i < total; i++ {
				c, ok := sw.at(i, idx)
				if !ok {
					continue
				}
				if abandoned() || r.OutOfTime() {
					break // polled per case: a chunk of blocked cases must not be waited out
				}
				v := check(c)
				evals++
				if v.nontrivial {
					nontrivial++
				}
				for _, o := range v.outcomes {
					outcomes[o]++
				}
				if v.class != "" {
					r.Fail(v.class, v.what, c)
				}
				if r.WantSample() && (int64(i)+r.Seed)%int64(total/3+1) == 0 {
					r.Sample(map[string]any{"sweep": sw.name, "case": c, "outcomes": v.outcomes, "verdict": v.class})
				}
			}
			r.Eval(evals)
			r.Nontrivial(nontrivial)
			cases.Add(evals)
			for k, n := range outcomes {
				r.Outcome(k, n)
			}
		})
		perSweep[sw.name] = cases.Load()
		if os.Getenv("C11_TIMES") != "" {
			fmt.Fprintf(os.Stderr, "%s: %d cases, %.1fs since start\n", sw.name, cases.Load(), time.Since(t0).Seconds())
		}
	}
	// ---- G: size ladder, a few cases at a time ----
	rungs := []int{4097, 32769, 1<<20 + 1, 10<<20 + 1}
	if r.Thorough() {
		rungs = []int{4095, 4096, 4097, 32767, 32768, 32769, 65537, 1<<20 + 1, 10<<20 - 1, 10 << 20, 10<<20 + 1, 32<<20 + 1}
	}
	suspectedHangs.Store(0)
	var ladder []Case
	for _, n := range rungs {
		for _, k := range []string{"reader", "readcloser", "bytes", "file"} {
			for _, a := range []authMode{{"none", 0}, {"op", 1}} {
				for _, ob := range []string{"direct", "wire"} {
					media := runtime.DefaultMime
					if k == "file" {
						media = runtime.MultipartFormMime
					}
					ladder = append(ladder, Case{Payload: "ladder", Media: media, Ladder: &LadderSpec{Kind: k, Len: n}, Auth: a.Auth, GetBody: a.GetBody, Observe: ob, Method: "POST"})
				}
			}
		}
	}
	const ladderWorkers = 3
	r.Set("size_ladder", map[string]any{"lengths": rungs, "kinds": []string{"reader", "readcloser", "bytes", "file"}, "auth": []string{"none", "op+1 GetBody"},
		"observe": []string{"direct", "wire"}, "cases": len(ladder), "parallelism": ladderWorkers, "compare": "length + sha256, streamed"})
	{
		var next atomic.Int64
		var wg sync.WaitGroup
		var done atomic.Int64
		for w := 0; w < ladderWorkers; w++ {
			wg.Add(1)
			go func() {
				defer wg.Done()
				for {
					i := int(next.Add(1) - 1)
					if i >= len(ladder) || r.OutOfTime() || suspectedHangs.Load() > 2*ladderWorkers {
						return
					}
					c := ladder[i]
					v := check(c)
					r.Eval(1)
					if v.nontrivial {
						r.Nontrivial(1)
					}
					for _, o := range v.outcomes {
						r.Outcome(o, 1)
					}
					if v.class != "" {
						r.Fail(v.class, v.what, c)
					}
					done.Add(1)
				}
			}()
		}
		wg.Wait()
		perSweep["G:size-ladder"] = done.Load()
		if os.Getenv("C11_TIMES") != "" {
			fmt.Fprintf(os.Stderr, "G:size-ladder: %d cases, %.1fs since start\n", done.Load(), time.Since(t0).Seconds())
		}
	}
	r.Set("cases_per_sweep", perSweep)
	r.Assume(
		"expected part type of an undeclared file is net/http.DetectContentType(content) (the WHATWG sniffing the text refers to)",
		"the standard parsers (mime/multipart, mime.ParseMediaType, url.ParseQuery, http.ReadRequest) are the trusted readers of the sent bytes",
		"the reference encoding of a value is the registered producer applied to an equal value outside the client (codec correctness is C15)",
		"the client's map iteration order over form and file fields is not owned: parts are compared as multisets",
	)
	cleanup()
	if profiling {
		pprof.StopCPUProfile()
	}
	exhaustive := !incomplete.Load() && confirmedHangs.Load() == 0
	r.Finish("ten full products plus the size ladder (A nil/value/reader payloads; B URL-encoded forms; C1 one-file contents; C2 form structures; C3 names; C4 edge values in names and field values; B2 spellings of the media type; D1 upload sources and D2 reader payloads with Seek/ReadAt/WriteTo capabilities x honest/failing/lying x Close errors x a read fault at the k-th Read x chunking; D3 real FIFOs; E adaptive sequences of 2-3 multipart requests on one Runtime or fresh ones, each later request embedding the boundaries read from the earlier requests' Content-Type headers in file content / field value / file name; F every payload of A plus forms through Runtime.Submit with a capturing transport x non-reading / reading auth x Debug off/on; G size ladder, see size_ladder), each tuple executed once on Runtime.CreateHttpRequest and the sent body read to EOF; in D a delivered fault permits a failed build or send, every success is held to the exact-bytes oracle; non-trivial = a non-nil payload produced a request whose sent bytes were parsed/compared with the reference (distinct by construction: the enumerators never repeat a tuple, sweeps differ in payload kind, shape or source)", exhaustive)
}
