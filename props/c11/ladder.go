package main

// Sweep G: size ladder. Bodies larger than any internal window, buffer or cap
// (4 KiB, 32 KiB, 64 KiB, 1 MiB, 10 MiB, 32 MiB) for a reduced set of
// configurations. Everything is streamed: the payload is generated on the fly
// from its offset, the sent bytes are hashed while a server-side multipart
// reader consumes them, what auth is shown is hashed when it is shown. Cases run
// a few at a time (bounded parallelism) so the memory stays bounded by what the
// library itself buffers.

import (
	"bufio"
	"bytes"
	"crypto/sha256"
	"encoding/hex"
	"errors"
	"fmt"
	"io"
	"mime"
	"mime/multipart"
	"net/http"
	"sync"

	"github.com/go-openapi/runtime"
	"github.com/go-openapi/strfmt"
)

// LadderSpec is the replayable description of one ladder case.
type LadderSpec struct {
	Kind string `json:"kind"` // reader | readcloser | bytes | file
	Len  int    `json:"len"`
}

// pat is the byte at an absolute offset: every bit of the offset matters, so a cut,
// a shift and a repeated window are all visible.
func pat(i int) byte {
	x := uint32(i)
	return byte(x ^ x>>7 ^ x>>13 ^ x>>21 ^ (x*2654435761)>>24)
}

func fillPat(p []byte, off int) {
	for i := range p {
		p[i] = pat(off + i)
	}
}

// patReader streams pat(0..n-1).
type patReader struct {
	off, n int
	closed int
}

func (r *patReader) Read(p []byte) (int, error) {
	if r.off >= r.n {
		return 0, io.EOF
	}
	if len(p) > r.n-r.off {
		p = p[:r.n-r.off]
	}
	fillPat(p, r.off)
	r.off += len(p)
	return len(p), nil
}

type patReadCloser struct{ *patReader }

func (r patReadCloser) Close() error { r.closed++; return nil }

type digest struct {
	n   int64
	sum string
}

func (d digest) String() string { return fmt.Sprintf("%d bytes sha256:%s", d.n, d.sum[:16]) }

type hashCounter struct {
	h interface {
		io.Writer
		Sum([]byte) []byte
	}
	n int64
}

func newHashCounter() *hashCounter { return &hashCounter{h: sha256.New()} }
func (h *hashCounter) Write(p []byte) (int, error) {
	h.n += int64(len(p))
	return h.h.Write(p)
}
func (h *hashCounter) digest() digest { return digest{h.n, hex.EncodeToString(h.h.Sum(nil))} }

var (
	patMu      sync.Mutex
	patDigests = map[int]digest{}
)

// patDigest is the reference digest of pat(0..n-1).
func patDigest(n int) digest {
	patMu.Lock()
	defer patMu.Unlock()
	if d, ok := patDigests[n]; ok {
		return d
	}
	h := newHashCounter()
	_, _ = io.Copy(h, &patReader{n: n})
	patDigests[n] = h.digest()
	return patDigests[n]
}

type ladderPart struct {
	file           bool
	name, filename string
	ctype          string
	body           digest
	small          string // field values are kept verbatim
}

type ladderObs struct {
	buildErr, sendErr, panicked string
	ct                          string
	sent                        digest
	getBodies                   []digest
	parts                       []ladderPart
	parseErr                    string
}

// consume reads the sent body like a server: everything is hashed; a multipart
// document is parsed part by part while it streams.
func consume(body io.Reader, ct string, multi bool, o *ladderObs) {
	all := newHashCounter()
	tee := io.TeeReader(body, all)
	if multi {
		_, params, err := mime.ParseMediaType(ct)
		if err != nil || params["boundary"] == "" {
			o.parseErr = fmt.Sprintf("Content-Type %q carries no boundary", ct)
		} else {
			mr := multipart.NewReader(tee, params["boundary"])
			for {
				p, err := mr.NextRawPart()
				if errors.Is(err, io.EOF) {
					break
				}
				if err != nil {
					o.parseErr = err.Error()
					break
				}
				_, dp, err := mime.ParseMediaType(p.Header.Get("Content-Disposition"))
				if err != nil {
					o.parseErr = "part Content-Disposition: " + err.Error()
					break
				}
				fn, isFile := dp["filename"]
				lp := ladderPart{file: isFile, name: dp["name"], filename: fn}
				if isFile {
					lp.ctype = p.Header.Get("Content-Type")
					h := newHashCounter()
					if _, err := io.Copy(h, p); err != nil {
						o.parseErr = "reading a part: " + err.Error()
						break
					}
					lp.body = h.digest()
				} else {
					var b bytes.Buffer
					if _, err := io.Copy(&b, io.LimitReader(p, 1<<16)); err != nil {
						o.parseErr = "reading a part: " + err.Error()
						break
					}
					lp.small = b.String()
				}
				o.parts = append(o.parts, lp)
			}
		}
	}
	if _, err := io.Copy(io.Discard, tee); err != nil && o.sendErr == "" {
		o.sendErr = "reading the sent body: " + err.Error()
	}
	o.sent = all.digest()
}

func executeLadder(c Case) (o ladderObs) {
	var req *http.Request
	defer func() {
		if e := recover(); e != nil {
			o.panicked = fmt.Sprint(e)
		}
		if req != nil && req.Body != nil {
			_ = req.Body.Close()
		}
	}()
	sp := *c.Ladder
	rt := newRuntime()
	writer := runtime.ClientRequestWriterFunc(func(r runtime.ClientRequest, _ strfmt.Registry) error {
		switch sp.Kind {
		case "reader":
			return r.SetBodyParam(&patReader{n: sp.Len})
		case "readcloser":
			return r.SetBodyParam(patReadCloser{&patReader{n: sp.Len}})
		case "bytes":
			b := make([]byte, sp.Len)
			fillPat(b, 0)
			return r.SetBodyParam(b)
		case "file":
			if err := r.SetFormParam("a", "v"); err != nil {
				return err
			}
			return r.SetFileParam("f", runtime.NamedReader("up/ladder.bin", &patReader{n: sp.Len}))
		}
		return fmt.Errorf("unknown ladder kind %q", sp.Kind)
	})
	auth := runtime.ClientAuthInfoWriterFunc(func(r runtime.ClientRequest, _ strfmt.Registry) error {
		for i := 0; i < c.GetBody; i++ {
			h := newHashCounter()
			_, _ = h.Write(r.GetBody()) // hashed when shown, not kept
			o.getBodies = append(o.getBodies, h.digest())
		}
		return r.SetHeaderParam("X-Auth", "yes")
	})
	op := &runtime.ClientOperation{ID: "c11-ladder", Method: c.Method, PathPattern: "/upload", ProducesMediaTypes: []string{runtime.JSONMime},
		ConsumesMediaTypes: []string{c.Media}, Schemes: []string{"http"}, Params: writer}
	if c.Auth == "op" {
		op.AuthInfo = auth
	}
	var err error
	req, err = rt.CreateHttpRequest(op)
	if err != nil {
		o.buildErr = err.Error()
		return o
	}
	multi := sp.Kind == "file"
	if c.Observe == "wire" {
		pr, pw := io.Pipe()
		go func() { _ = pw.CloseWithError(req.Write(pw)) }()
		got, err := http.ReadRequest(bufio.NewReaderSize(pr, 64<<10))
		if err != nil {
			o.sendErr = "http.ReadRequest: " + err.Error()
			_ = pr.CloseWithError(err)
			return o
		}
		o.ct = got.Header.Get("Content-Type")
		consume(got.Body, o.ct, multi, &o)
		if _, err := io.Copy(io.Discard, pr); err != nil && o.sendErr == "" {
			o.sendErr = "Request.Write: " + err.Error()
		}
		_ = pr.Close()
		return o
	}
	o.ct = req.Header.Get("Content-Type")
	if req.Body != nil {
		consume(req.Body, o.ct, multi, &o)
	} else {
		o.sent = newHashCounter().digest()
	}
	return o
}

func judgeLadder(c Case, o ladderObs) (v verdict) {
	sp := *c.Ladder
	switch {
	case o.panicked != "":
		return v.fail("panic", "building or sending the request panicked: %s", o.panicked)
	case o.buildErr != "":
		return v.fail("build-error", "building the request failed for a well-formed %s payload of %d bytes: %s", sp.Kind, sp.Len, o.buildErr)
	case o.sendErr != "":
		return v.fail("send-error", "the built request could not be sent: %s", o.sendErr)
	}
	for i, g := range o.getBodies {
		if g != o.sent {
			return v.fail("getbody-differs-from-sent", "GetBody call %d of %d gave auth %v but the request sent %v", i+1, len(o.getBodies), g, o.sent)
		}
	}
	if c.Auth != "none" && len(o.getBodies) != c.GetBody {
		return v.fail("auth-not-consulted", "the auth writer made %d GetBody calls, expected %d", len(o.getBodies), c.GetBody)
	}
	want := patDigest(sp.Len)
	mt, _, ctErr := mime.ParseMediaType(o.ct)
	v.nontrivial = true
	if sp.Kind != "file" {
		cl := "body-mismatch/reader"
		if sp.Kind == "bytes" {
			cl = "body-mismatch/value"
		}
		if o.sent != want {
			return v.fail(cl, "sent %v, the payload is %v", o.sent, want)
		}
		if ctErr != nil || mt != c.Media {
			return v.fail("content-type-header/"+cl[len("body-mismatch/"):], "Content-Type %q does not announce the chosen media type %q", o.ct, c.Media)
		}
		v.outcomes = append(v.outcomes, fmt.Sprintf("ladder:%s:%d", sp.Kind, sp.Len))
		return v
	}
	if o.parseErr != "" {
		return v.fail("multipart-unparseable", "mime/multipart cannot read the sent document (%v) with the announced boundary: %s", o.sent, o.parseErr)
	}
	if mt != runtime.MultipartFormMime {
		return v.fail("content-type-header/multipart", "a multipart document was sent under Content-Type %q", o.ct)
	}
	head := make([]byte, 512)
	if sp.Len < 512 {
		head = head[:sp.Len]
	}
	fillPat(head, 0)
	wantFile := ladderPart{file: true, name: "f", filename: "ladder.bin", ctype: sniff(head), body: want}
	wantField := ladderPart{name: "a", small: "v"}
	nFile, nField := 0, 0
	for _, p := range o.parts {
		switch p {
		case wantFile:
			nFile++
		case wantField:
			nField++
		default:
			cl := "multipart-parts"
			if p.file && p.name == "f" && p.filename == wantFile.filename && p.ctype == wantFile.ctype {
				cl = "multipart-content"
			}
			return v.fail(cl, "part sent: %+v; parts demanded: %+v and %+v", p, wantField, wantFile)
		}
	}
	if nFile != 1 || nField != 1 || len(o.parts) != 2 {
		return v.fail("multipart-parts", "parts sent: %+v; parts demanded: exactly %+v and %+v", o.parts, wantField, wantFile)
	}
	v.outcomes = append(v.outcomes, fmt.Sprintf("ladder:file:%d", sp.Len))
	return v
}

func checkLadder(c Case) verdict {
	if c.Ladder == nil {
		return verdict{outcomes: []string{"harness-error"}}
	}
	return guarded(6, "building and sending the large body", func() verdict { return judgeLadder(c, executeLadder(c)) })
}
