// C19 - API validation passes exactly when registrations match the description,
// reports the first failing category completely, and a validated API never fails
// a well-formed request for lack of a registered consumer, producer, handler or
// authenticator. Small-scope exhaustive enumeration (E1) of descriptions x
// registration sets x requests on the real untyped.API / middleware.Serve.
//
// Files: model.go (reference written from the property text), regs.go
// (registration sets), harness.go (driving the real code), main.go (description
// alphabets and the sweeps).
package main

import (
	"fmt"
	"os"
	"runtime/debug"
	"strings"
	"sync/atomic"
	"time"

	"github.com/go-openapi/loads"

	"verif/engine/apib"
	"verif/engine/enum"
	"verif/engine/report"
)

// ---- description alphabet ----

type shape struct {
	method, path string
	code         int
}

var shapes = []shape{
	{"POST", "/a", 200},
	{"GET", "/b/{id}", 200},
	{"PUT", "/b/{id}", 200},
	{"DELETE", "/a", 204},
	{"GET", "/a", 200},
}

func mkOp(sh shape, cons, prod []string, sec *[]map[string][]string) apib.Op {
	o := apib.Op{Method: sh.method, Path: sh.path, Consumes: cons, Produces: prod, Security: sec}
	if hasBodyMethod(sh.method) {
		o.Params = append(o.Params, map[string]any{"name": "body", "in": "body", "schema": map[string]any{"type": "object"}})
	}
	if sh.path != "" && containsParam(sh.path) {
		o.Params = append(o.Params, map[string]any{"name": "id", "in": "path", "required": true, "type": "string"})
	}
	if sh.code != 200 {
		o.Responses = map[string]any{fmt.Sprint(sh.code): map[string]any{"description": "done"}}
	}
	return o
}

func containsParam(p string) bool { return strings.Contains(p, "{") }

// subsets of a media alphabet as lists (nil first = absent)
func mediaSubsets(m []string, max int) [][]string {
	out := [][]string{nil}
	for _, idx := range enum.Subsets(len(m), 1, max) {
		var s []string
		for _, i := range idx {
			s = append(s, m[i])
		}
		out = append(out, s)
	}
	return out
}

type secCfg struct {
	defs   []string
	global []map[string][]string
}

func secDefs(names []string) map[string]any {
	if len(names) == 0 {
		return nil
	}
	d := map[string]any{}
	for _, n := range names {
		d[n] = map[string]any{"type": "apiKey", "in": "header", "name": "X-" + n}
	}
	return d
}

func alt(names ...string) map[string][]string {
	m := map[string][]string{}
	for _, n := range names {
		m[n] = []string{}
	}
	return m
}

type secList = []map[string][]string

func ptr(l secList) *secList { return &l }

// security alphabets per set of declared definitions: global lists and per-operation options (nil = inherit)
func secAlphabet(defs []string) (globals []secList, opOpts []*secList) {
	switch len(defs) {
	case 0:
		globals = []secList{nil, {alt()}}
		opOpts = []*secList{nil, ptr(secList{}), ptr(secList{alt()})}
	case 1:
		k := defs[0]
		globals = []secList{nil, {alt(k)}, {alt(k), alt()}}
		opOpts = []*secList{nil, ptr(secList{}), ptr(secList{alt(k)}), ptr(secList{alt()})}
	default:
		a, b := defs[0], defs[1]
		globals = []secList{nil, {alt(a)}, {alt(b)}, {alt(a), alt(b)}, {alt(a, b)}, {alt(a), alt()}}
		opOpts = []*secList{nil, ptr(secList{}), ptr(secList{alt(a)}), ptr(secList{alt(b)}), ptr(secList{alt(a, b)}), ptr(secList{alt(a), alt(b)})}
	}
	return
}

// mediaSweep: global consumes x global produces x 0..2 operations, each with own or inherited consumes / produces
// (opC/opP: options of a single or first operation, op2C/op2P: options of the second one; nil entry = inherit).
func mediaSweep(globC, globP, opC, opP [][]string, singles []int, pairs [][2]int, op2C, op2P [][]string, secs []secCfg) []apib.Spec {
	var out []apib.Spec
	for _, sc := range secs {
		for _, gc := range globC {
			for _, gp := range globP {
				base := apib.Spec{BasePath: "/", Consumes: gc, Produces: gp, SecurityDefs: secDefs(sc.defs), Security: sc.global}
				out = append(out, base)
				for _, si := range singles {
					for _, c := range opC {
						for _, p := range opP {
							s := base
							s.Ops = []apib.Op{mkOp(shapes[si], c, p, nil)}
							out = append(out, s)
						}
					}
				}
				for _, pr := range pairs {
					for _, c1 := range opC {
						for _, p1 := range opP {
							for _, c2 := range op2C {
								for _, p2 := range op2P {
									s := base
									s.Ops = []apib.Op{mkOp(shapes[pr[0]], c1, p1, nil), mkOp(shapes[pr[1]], c2, p2, nil)}
									out = append(out, s)
								}
							}
						}
					}
				}
			}
		}
	}
	return out
}

type mediaBase struct {
	gc, gp   []string
	c1, p1   []string
	c2, p2   []string
	sh1, sh2 int
}

// securitySweep: declared definitions x global requirement x per-operation requirement for 0..2 operations.
func securitySweep(bases []mediaBase) []apib.Spec {
	var out []apib.Spec
	for _, mb := range bases {
		for _, defs := range [][]string{nil, {"k1"}, {"k1", "K2"}} {
			globals, opOpts := secAlphabet(defs)
			for _, g := range globals {
				base := apib.Spec{BasePath: "/", Consumes: mb.gc, Produces: mb.gp, SecurityDefs: secDefs(defs), Security: g}
				out = append(out, base)
				for _, o1 := range opOpts {
					s := base
					s.Ops = []apib.Op{mkOp(shapes[mb.sh1], mb.c1, mb.p1, o1)}
					out = append(out, s)
					for _, o2 := range opOpts {
						s2 := base
						s2.Ops = []apib.Op{mkOp(shapes[mb.sh1], mb.c1, mb.p1, o1), mkOp(shapes[mb.sh2], mb.c2, mb.p2, o2)}
						out = append(out, s2)
					}
				}
			}
		}
	}
	return out
}

// pathSweep: base path x operation path shapes (the handler category is looked up by path at request time).
func pathSweep() []apib.Spec {
	var out []apib.Spec
	J := []string{jsonMime}
	type b struct {
		no   bool
		base string
	}
	for _, bp := range []b{{true, ""}, {false, ""}, {false, "/"}, {false, "/api"}, {false, "/api/"}, {false, "/api/v1"}} {
		for _, p := range []string{"/a", "/a/{id}", "/a/b", "/", "/a/"} {
			for _, m := range []string{"GET", "POST"} {
				s := apib.Spec{BasePath: bp.base, NoBasePath: bp.no, Consumes: J, Produces: J}
				s.Ops = []apib.Op{mkOp(shape{m, p, 200}, nil, nil, nil)}
				out = append(out, s)
			}
		}
	}
	return out
}

var oddMedia = []string{"Application/JSON", "text/plain; charset=utf-8", "text/*", "application/vnd.api+json", "TEXT/XML"}

// oddSweep: media types that are not lower-case / carry parameters / wildcards (validation clause only,
// the serving clause excludes them), one category at a time.
func oddSweep() []apib.Spec {
	var out []apib.Spec
	J := []string{jsonMime}
	glob := mediaSubsets(oddMedia, 2)
	own := mediaSubsets(oddMedia, 1)
	for _, g := range glob {
		for _, o := range own {
			if g == nil && o == nil {
				continue
			}
			s := apib.Spec{BasePath: "/", Consumes: g, Produces: J}
			s.Ops = []apib.Op{mkOp(shapes[0], o, nil, nil)}
			out = append(out, s)
			s = apib.Spec{BasePath: "/", Consumes: J, Produces: g}
			s.Ops = []apib.Op{mkOp(shapes[0], nil, o, nil)}
			out = append(out, s)
		}
	}
	for _, m := range oddMedia {
		s := apib.Spec{BasePath: "/", Consumes: []string{m}, Produces: []string{m}}
		s.Ops = []apib.Op{mkOp(shapes[0], nil, nil, nil)}
		out = append(out, s)
	}
	return out
}

// ---- exploration of one description ----

type stats struct {
	specs, ambiguous, regs, validated, requests, servedSpecs atomic.Int64
}

func anyNonEmpty(n needs, g registered) bool {
	if len(n.cons[1])+len(n.prod[1])+len(n.ops)+len(n.auth[1])+len(n.declared) > 0 {
		return true
	}
	for _, s := range g {
		if len(s) > 0 {
			return true
		}
	}
	return false
}

func explore(r *report.R, st *stats, s apib.Spec, level int, sampleIt bool) {
	doc, err := apib.Load(s)
	if err != nil {
		panic(fmt.Sprintf("harness: generated description does not load: %v\n%s", err, s.JSON()))
	}
	n := computeNeeds(s)
	st.specs.Add(1)
	if n.ambiguous() {
		st.ambiguous.Add(1)
	}
	regs := regSets(s, max(level, 0))
	if level == levelOrder {
		regs = orderRegs(s)
	}
	var evals, nontrivial int64
	outcomes := map[string]int64{}
	canServe := servable(s) && len(s.Ops) > 0
	served := false
	for ri, reg := range regs {
		rec := &recorder{}
		api := buildAPI(doc, s, reg, rec)
		vo := runValidate(api)
		evals++
		if anyNonEmpty(n, computeRegistered(reg)) {
			nontrivial++
		}
		switch {
		case vo.Panic != "":
			outcomes["validate:panic"]++
		case vo.Err == "":
			outcomes["validate:pass"]++
		default:
			outcomes["validate:fail:"+vo.Section]++
		}
		if cl, what := judgeValidate(s, reg, vo); cl != "" {
			r.Fail(cl, what, Case{Spec: s, Reg: reg})
		}
		if sampleIt && ri == len(regs)/2 && r.WantSample() {
			r.Sample(map[string]any{"case": Case{Spec: s, Reg: reg}, "observed": vo.String()})
		}
		if vo.Err != "" || vo.Panic != "" {
			continue
		}
		st.validated.Add(1)
		if !canServe {
			continue
		}
		h, perr := newServer(doc, api)
		if perr != "" {
			r.Fail("serve-setup-panic", "middleware.Serve panics on a validated API: "+perr, Case{Spec: s, Reg: reg, Req: &Req{}})
			continue
		}
		served = true
		for oi := range s.Ops {
			for _, q := range requestsFor(s, oi, r.Thorough()) {
				q := q
				so := serveOne(h, rec, s, q)
				evals++
				st.requests.Add(1)
				if so.Panic != "" {
					outcomes["serve:panic"]++
				} else {
					outcomes[fmt.Sprintf("serve:%d", so.Status)]++
				}
				if so.Panic != "" || (so.Status != 404 && so.Status != 405) {
					nontrivial++
				}
				if len(so.Consumer) > 0 {
					outcomes["serve:consumer-used"]++
				}
				if len(so.Producer) > 0 {
					outcomes["serve:producer-used"]++
				}
				if len(so.Auth) > 0 {
					outcomes["serve:authenticator-used"]++
				}
				if cl, what := judgeServe(s, reg, q, so); cl != "" {
					r.Fail(cl, what, Case{Spec: s, Reg: reg, Req: &q})
				}
				if sampleIt && ri == 0 && r.WantSample() {
					r.Sample(map[string]any{"case": Case{Spec: s, Reg: reg, Req: &q}, "observed": so.String()})
				}
			}
		}
	}
	if served {
		st.servedSpecs.Add(1)
	}
	st.regs.Add(int64(len(regs)))
	r.Eval(evals)
	r.Nontrivial(nontrivial)
	for k, v := range outcomes {
		r.Outcome(k, v)
	}
}

// historySweep: the sequences-on-one-API-value dimension (history.go). Runs first so that a budget cut never drops it.
func historySweep(r *report.R, stop func() bool) {
	descs := historyDescriptions(r.Thorough())
	depthDeep, depthRest, deep := 3, 3, 0
	if r.Thorough() {
		depthDeep, depthRest, deep = 4, 3, 3
	}
	type item struct {
		di, ii, first, depth int
	}
	var items []item
	docs := make([]*loads.Document, len(descs))
	alphas := make([][]Step, len(descs))
	inits := make([][]Reg, len(descs))
	for di, s := range descs {
		docs[di] = apib.MustLoad(s)
		alphas[di] = historyAlphabet(s)
		inits[di] = historyInits(s)
		for ii := range inits[di] {
			d := depthRest
			if ii < deep {
				d = depthDeep
			}
			for f := range alphas[di] {
				items = append(items, item{di, ii, f, d})
			}
		}
	}
	var sequences atomic.Int64
	enum.Parallel(len(items), stop, func(k int) {
		it := items[(k+int((r.Seed%int64(len(items))+int64(len(items)))%int64(len(items))))%len(items)]
		s, doc, alpha, init := descs[it.di], docs[it.di], alphas[it.di], inits[it.di][it.ii]
		st := &histStats{outcomes: map[string]int64{}}
		var n, evals, nontrivial int64
		run := func(seq []Step) {
			before := st.validates + st.requests
			cl, what := runHistory(doc, s, init, seq, alpha, r.Thorough(), st)
			n++
			e := st.validates + st.requests - before + 1 // + the fresh API of the differential
			evals += e
			if len(seq) > 0 {
				nontrivial += e
			}
			c := Case{Spec: s, Reg: init, History: true, Seq: append([]Step(nil), seq...), Thorough: r.Thorough()}
			if cl != "" {
				r.Fail(cl, what, c)
			} else if n%997 == 1 && r.WantSample() {
				r.Sample(map[string]any{"case": c, "observed": "every Validate() as the reference says, final verdict equals a fresh API's"})
			}
		}
		if it.first == 0 {
			run(nil)
		}
		forEachSeq(len(alpha), it.depth-1, func(idx []int) {
			seq := make([]Step, 0, len(idx)+1)
			seq = append(seq, alpha[it.first])
			for _, i := range idx {
				seq = append(seq, alpha[i])
			}
			run(seq)
		})
		sequences.Add(n)
		r.Eval(evals)
		r.Nontrivial(nontrivial)
		for k, v := range st.outcomes {
			r.Outcome(k, v)
		}
	})
	var nInits int
	for _, in := range inits {
		nInits += len(in)
	}
	r.Set("history", map[string]any{
		"descriptions":            len(descs),
		"initial_states":          nInits,
		"alphabet":                fmt.Sprint(alphas[0]),
		"alphabet_size":           len(alphas[0]),
		"depth":                   depthRest,
		"depth_first_states":      depthDeep,
		"states_with_first_depth": deep,
		"sequences_executed":      sequences.Load(),
	})
}

type sweep struct {
	name  string
	specs []apib.Spec
	level int
}

func main() {
	r := report.Start("C19", "exploration")
	// every registration set builds a fresh API (the analyzer pre-sizes ~25 maps of 150 slots):
	// keep the heap small instead of letting it grow 20x between collections
	debug.SetGCPercent(300)
	debug.SetMemoryLimit(3 << 30)
	if r.Replay != "" {
		var c Case
		r.LoadReplay(&c)
		cl, what := check(c)
		fmt.Printf("replay spec=%s\n  reg=%+v\n  req=%+v\n  class=%q %s\n", c.Spec.JSON(), c.Reg, c.Req, cl, what)
		if cl != "" {
			r.Fail(cl, what, c)
		}
		r.Eval(1)
		r.Nontrivial(2)
		r.Sample(c)
		r.Finish("replay of one case", false)
	}

	J, T, X := jsonMime, "text/plain", "application/xml"
	M2 := []string{J, T}
	M3 := []string{J, T, X}
	noSec := secCfg{}
	k1Sec := secCfg{defs: []string{"k1"}, global: secList{alt("k1")}}
	sub2, sub3 := mediaSubsets(M2, 2), mediaSubsets(M3, 3)
	onlyJ := [][]string{{J}}
	none := [][]string{nil}
	bases := []mediaBase{
		{gc: []string{J}, gp: []string{J}, sh1: 0, sh2: 1},
		{gc: []string{T}, gp: []string{T}, p1: []string{X}, c2: []string{X}, sh1: 0, sh2: 2},
	}
	var sweeps []sweep
	if r.Thorough() {
		nilT, nilJ := [][]string{nil, {T}}, [][]string{nil, {J}}
		noMedia := mediaBase{sh1: 3, sh2: 1}
		sweeps = []sweep{
			{"pairs-of-categories", mediaSweep(sub2, sub2, sub2, sub2, []int{0}, nil, nil, nil, []secCfg{noSec, k1Sec}), 2},
			{"security-pairs-of-categories", securitySweep(bases[:1]), 2},
			{"odd-media-types", oddSweep(), 1},
			{"paths", pathSweep(), 1},
			{"security", securitySweep([]mediaBase{bases[1], noMedia}), 1},
			{"media-2types-one-operation", mediaSweep(sub2, sub2, sub2, sub2, []int{0, 1, 2, 3, 4}, nil, nil, nil, []secCfg{noSec}), 1},
			{"media-2types-two-operations-full", mediaSweep(sub2, sub2, sub2, sub2, nil, [][2]int{{0, 1}}, sub2, sub2, []secCfg{noSec}), 1},
			{"media-2types-two-operations", mediaSweep(sub2, sub2, sub2, sub2, nil, [][2]int{{0, 3}, {1, 3}}, nilT, nilJ, []secCfg{noSec}), 1},
			{"media-2types-secured", mediaSweep(sub2, sub2, sub2, sub2, []int{0, 1}, [][2]int{{0, 1}}, nilT, nilJ, []secCfg{k1Sec}), 1},
			{"consumes-3types", mediaSweep(sub3, append(onlyJ, nil), sub3, none, []int{0, 1, 2}, [][2]int{{0, 1}}, sub3, none, []secCfg{noSec}), 1},
			{"produces-3types", mediaSweep(append(onlyJ, nil), sub3, none, sub3, []int{0, 1, 3}, [][2]int{{0, 1}}, none, sub3, []secCfg{noSec}), 1},
		}
	} else {
		nilT, nilJ := [][]string{nil, {T}}, [][]string{nil, {J}}
		sweeps = []sweep{
			{"odd-media-types", oddSweep(), 1},
			{"paths", pathSweep(), 1},
			{"security", securitySweep(bases[:1]), 1},
			{"consumes-3types", mediaSweep(sub3, onlyJ, sub3, none, []int{0}, nil, nil, nil, []secCfg{noSec}), 1},
			{"produces-3types", mediaSweep(onlyJ, sub3, none, sub3, []int{1}, nil, nil, nil, []secCfg{noSec}), 1},
			{"media-2types-one-operation", mediaSweep(sub2, sub2, sub2, sub2, []int{0, 1}, nil, nil, nil, []secCfg{noSec}), 1},
			{"media-2types-one-operation-204", mediaSweep(sub2, sub2, none, sub2, []int{3}, nil, nil, nil, []secCfg{noSec}), 1},
			{"media-2types-two-operations", mediaSweep(sub2, sub2, nilT, nilT, nil, [][2]int{{0, 1}}, nilT, nilJ, []secCfg{noSec}), 1},
		}
	}
	sweeps = append([]sweep{{"registration-order", orderDescriptions(), levelOrder}}, sweeps...)
	r.Set("registration_order", map[string]any{
		"descriptions":       len(orderDescriptions()),
		"operation_axis":     "every permutation of the operation registrations (3 operations, two or three of one method) x method spelling per registration from {UPPER, lower, Mixed}",
		"media_axis":         "every permutation of the consumer / producer registrations (2 types) x spelling per registration from {as written, UPPER}",
		"authenticator_axis": "every permutation of the authenticator registrations (2 schemes)",
	})
	r.Set("media_types", M3)
	r.Set("odd_media_types", oddMedia)
	r.Set("operation_shapes", fmt.Sprint(shapes))
	var st stats
	// own wall-clock budget (stops exploring, never an alarm): the run is then reported exhaustive:false
	limit := 180 * time.Second // quick: generous, so that a loaded machine does not cut the sweep short (the run budget is 4 min)
	if r.Thorough() {
		limit = 8 * time.Minute
	}
	if os.Getenv("VERIF_BUDGET_S") != "" {
		limit = 24 * time.Hour // the report front end's budget applies
	}
	began := time.Now()
	var cut atomic.Bool
	stop := func() bool {
		if r.OutOfTime() || time.Since(began) > limit {
			cut.Store(true)
			return true
		}
		return false
	}
	historySweep(r, stop)
	seenSpec := map[string]bool{}
	for _, sw := range sweeps {
		sw := sw
		// a description belongs to the first sweep that contains it (level-2 sweeps come first)
		uniq := sw.specs[:0:0]
		for _, s := range sw.specs {
			k := string(s.JSON())
			if !seenSpec[k] {
				seenSpec[k] = true
				uniq = append(uniq, s)
			}
		}
		sw.specs = uniq
		if len(sw.specs) == 0 {
			continue
		}
		before := st.regs.Load()
		enum.Parallel(len(sw.specs), stop, func(i int) {
			// rotate by the seed: the set is the same, the visiting order and the samples differ
			j := (i + int(r.Seed%int64(len(sw.specs))+int64(len(sw.specs)))) % len(sw.specs)
			explore(r, &st, sw.specs[j], sw.level, j%211 == int((r.Seed%211+211)%211))
		})
		r.Set("sweep_"+sw.name, map[string]any{"descriptions": len(sw.specs), "registration_sets": st.regs.Load() - before, "registration_level": sw.level})
	}
	r.Set("descriptions", st.specs.Load())
	r.Set("descriptions_where_readings_differ", st.ambiguous.Load())
	r.Set("registration_sets", st.regs.Load())
	r.Set("registration_sets_validated", st.validated.Load())
	r.Set("descriptions_served", st.servedSpecs.Load())
	r.Set("requests_served", st.requests.Load())
	r.Assume(
		"reference (props/c19/model.go): required sets are read off the description; where a global list is overridden by every operation both readings (declared / effectively used) are allowed",
		"media types and methods compare case-insensitively, paths and scheme names byte for byte",
		"every security requirement names a declared definition (Swagger 2.0 validity); an operation never carries an explicit empty consumes/produces list",
		"well-formed request = declared method and path, Content-Type drawn from the operation's consumes (body only on POST/PUT/PATCH with non-empty consumes), Accept absent, */* or drawn from its produces; authenticators accept every request",
		"descriptions with an upper-case, parameterised or wildcard media type are checked for the validation clause only (the property text excludes them from the serving clause)",
		"histories: the registrations present after a sequence of calls are what the API's own lookups (ConsumersFor, ProducersFor, OperationHandlerFor, AuthenticatorsFor) report for every name of the case's universe",
	)
	r.Finish("HISTORIES: every stated history description x every stated initial registration state x every sequence of calls of length 0..depth over {Validate, WithJSONDefaults, WithoutJSONDefaults, RegisterConsumer x2 types, RegisterProducer x2 types, RegisterOperation declared/undeclared/undeclared with the same method spelled lower-case, RegisterAuth declared/undeclared, HostileCaller = call ConsumersFor/ProducersFor/AuthenticatorsFor over the whole name universe, each single name and the empty list plus a Validate(), then delete every key of / add a foreign key to / overwrite every entry of each map and slice handed out or passed in} executed on ONE untyped.API value; a hostile-caller step must change neither the registrations the API reports nor Validate()'s verdict, a Register* step must make exactly its own item present and leave all other registrations as they were; every Validate() of the sequence and a final one are compared with the reference for the registrations present at that moment (read off the API through its public lookups), the final verdict is compared with a fresh API carrying the same registrations, and after a passing final Validate() every well-formed request is served. REGISTRATION ORDER: every stated order description (several operations of one method) x the exact registration set made in every permutation of the operation registrations x every vector of method spellings {UPPER, lower, Mixed}, every permutation x spelling {as written, UPPER} of the consumers and of the producers, every permutation of the authenticators, judged as any other registration set (Validate() must pass, then every well-formed request is served). FRESH INSTANCES: every description of the stated sweeps x every registration set of the stated level (exact, each single omission, each single addition, omit-all, swap, two additions, case variants of media types and methods, with and without the JSON defaults, products across categories) -> one Validate() on a fresh real untyped.API compared with the reference; for every set on which the real Validate() returns nil and whose description is lower-case/parameter-free/wildcard-free: every operation x every consumes entry x every produces entry (+ no Accept) through middleware.Serve. One evaluation = one Validate() or one served request. Non-trivial = a Validate() where some required or registered set is non-empty, or a request that got past routing (not 404/405). Cases are distinct by construction: descriptions are de-duplicated across sweeps and registration sets are de-duplicated per description.", !cut.Load())
}
