package main

// Registration sets enumerated for one description.

import (
	"encoding/json"
	"strings"

	"verif/engine/apib"
	"verif/engine/enum"
)

// variant of one category: the names handed to the Register* calls.
type variant struct {
	label string
	items []string
	core  bool // member of the small product over all four categories
}

func without(items []string, i int) []string {
	out := make([]string, 0, len(items))
	out = append(out, items[:i]...)
	return append(out, items[i+1:]...)
}
func with(items []string, more ...string) []string {
	out := make([]string, 0, len(items)+len(more))
	out = append(out, items...)
	return append(out, more...)
}

func mixedCase(s string) string {
	// upper-case the first letter of each '/'-separated part: application/json -> Application/Json
	parts := strings.Split(s, "/")
	for i, p := range parts {
		if p != "" {
			parts[i] = strings.ToUpper(p[:1]) + p[1:]
		}
	}
	return strings.Join(parts, "/")
}

// opCase changes the case of the method of "METHOD path".
func opCase(s string, f func(string) string) string {
	i := strings.IndexByte(s, ' ')
	return f(s[:i]) + s[i:]
}

func mapItems(items []string, f func(string) string) []string {
	out := make([]string, len(items))
	for i, s := range items {
		out[i] = f(s)
	}
	return out
}

// variantsOf: exact, every single omission, every single addition, omit-all,
// one omission together with one addition, and the case variants.
func variantsOf(exact, extras []string, caseVariants [][]string) []variant {
	vs := []variant{{"exact", exact, true}}
	for i := range exact {
		vs = append(vs, variant{"omit:" + exact[i], without(exact, i), i == 0})
	}
	for i, e := range extras {
		vs = append(vs, variant{"add:" + e, with(exact, e), i == 0})
	}
	if len(exact) >= 2 {
		vs = append(vs, variant{"omit-all", nil, false})
	}
	if len(exact) >= 1 && len(extras) >= 1 {
		vs = append(vs, variant{"swap:" + exact[0] + "->" + extras[0], with(without(exact, 0), extras[0]), false})
	}
	if len(extras) >= 2 {
		vs = append(vs, variant{"add-two", with(exact, extras[0], extras[1]), false})
	}
	for i, cv := range caseVariants {
		_ = i
		vs = append(vs, variant{"case-variant", cv, false})
	}
	return vs
}

func notIn(universe []string, s set, norm func(string) string) []string {
	var out []string
	for _, u := range universe {
		if !s[norm(u)] {
			out = append(out, u)
		}
	}
	return out
}

var extraMedia = []string{"application/json", "text/plain", "application/xml", "application/x-extra"}

func splitOp(s string) OpKey {
	i := strings.IndexByte(s, ' ')
	return OpKey{s[:i], s[i+1:]}
}

// asWritten returns, per media category, the spelling used by the description for each required (normalised) name.
func asWritten(s apib.Spec, cat int, need set) []string {
	seen := set{}
	var out []string
	for _, m := range mediaOfCat(s, cat) {
		if need[normMedia(m)] && !seen[normMedia(m)] {
			seen[normMedia(m)] = true
			out = append(out, m)
		}
	}
	return out
}

// regSets enumerates the registration sets for a description. Deterministic, no repetition.
//
//	level 0: exact sets only (both readings, with and without the JSON defaults)
//	level 1: + every variant of one category with the other three exact,
//	         + the product of the core variants {exact, first omission, first addition} over all four categories,
//	         + single deviations on top of the JSON defaults
//	level 2: + every pair of categories, full product of their variants
func regSets(s apib.Spec, level int) []Reg {
	n := computeNeeds(s)
	var out []Reg
	seen := map[string]bool{}
	emit := func(r Reg) {
		b, _ := json.Marshal(r)
		if !seen[string(b)] {
			seen[string(b)] = true
			out = append(out, r)
		}
	}
	mk := func(jd bool, c, p, o, a []string) Reg {
		r := Reg{JSONDefaults: jd, Consumers: c, Producers: p, Auths: a}
		for _, x := range o {
			r.Ops = append(r.Ops, splitOp(x))
		}
		return r
	}
	ops := n.ops.sorted()
	for rd := 1; rd >= 0; rd-- { // max reading first, then min when it differs
		if rd == 0 && !n.ambiguous() {
			break
		}
		cons := asWritten(s, catConsumers, n.cons[rd])
		prod := asWritten(s, catProducers, n.prod[rd])
		auth := n.auth[rd].sorted()
		emit(mk(false, cons, prod, ops, auth))
		emit(mk(true, cons, prod, ops, auth))
		// with the JSON defaults, the explicit JSON registrations are redundant
		emit(mk(true, notIn(cons, newSet(jsonMime), normMedia), notIn(prod, newSet(jsonMime), normMedia), ops, auth))
		if level == 0 {
			continue
		}
		var opExtras []string
		opExtras = append(opExtras, "GET /zzz")
		for _, o := range ops {
			k := splitOp(o)
			alt := "PATCH"
			if k.Method == "PATCH" {
				alt = "GET"
			}
			for _, e := range []string{alt + " " + k.Path, k.Method + " " + k.Path + "x", k.Method + " " + strings.ToUpper(k.Path)} {
				if !n.ops[e] {
					opExtras = append(opExtras, e)
				}
			}
		}
		authExtras := append(n.declared.minus(n.auth[rd]).sorted(), "kx")
		for _, a := range auth {
			// scheme names are plain names: a case variant is another name
			for _, v := range []string{strings.ToUpper(a), strings.ToLower(a)} {
				if v != a && !n.declared[v] {
					authExtras = append(authExtras, v)
				}
			}
		}
		var consCase, prodCase, opsCase [][]string
		if len(cons) > 0 {
			consCase = [][]string{mapItems(cons, strings.ToUpper), with(without(cons, 0), mixedCase(cons[0])), mapItems(cons, strings.ToLower)}
		}
		if len(prod) > 0 {
			prodCase = [][]string{mapItems(prod, strings.ToUpper), with(without(prod, 0), mixedCase(prod[0])), mapItems(prod, strings.ToLower)}
		}
		if len(ops) > 0 {
			lower := func(o string) string { return opCase(o, strings.ToLower) }
			mixed := func(o string) string {
				return opCase(o, func(m string) string { return m[:1] + strings.ToLower(m[1:]) })
			}
			opsCase = [][]string{mapItems(ops, lower), with(without(ops, 0), mixed(ops[0]))}
		}
		vs := [4][]variant{
			variantsOf(cons, notIn(extraMedia, n.cons[rd], normMedia), consCase),
			variantsOf(prod, notIn(extraMedia, n.prod[rd], normMedia), prodCase),
			variantsOf(ops, opExtras, opsCase),
			variantsOf(auth, authExtras, nil),
		}
		pick := func(idx [4]int) Reg {
			return mk(false, vs[0][idx[0]].items, vs[1][idx[1]].items, vs[2][idx[2]].items, vs[3][idx[3]].items)
		}
		// one category deviates
		for cat := 0; cat < 4; cat++ {
			for vi := range vs[cat] {
				var idx [4]int
				idx[cat] = vi
				emit(pick(idx))
				if cat == catConsumers || cat == catProducers {
					r := pick(idx)
					r.JSONDefaults = true
					emit(r)
				}
			}
		}
		// product of the core variants over all four categories
		var core [4][]int
		for cat := 0; cat < 4; cat++ {
			for vi, v := range vs[cat] {
				if v.core {
					core[cat] = append(core[cat], vi)
				}
			}
		}
		for _, a := range core[0] {
			for _, b := range core[1] {
				for _, c := range core[2] {
					for _, d := range core[3] {
						emit(pick([4]int{a, b, c, d}))
					}
				}
			}
		}
		if level < 2 {
			continue
		}
		for c1 := 0; c1 < 4; c1++ {
			for c2 := c1 + 1; c2 < 4; c2++ {
				for v1 := range vs[c1] {
					for v2 := range vs[c2] {
						var idx [4]int
						idx[c1], idx[c2] = v1, v2
						emit(pick(idx))
					}
				}
			}
		}
	}
	return out
}

// ---- order of registration ----

// levelOrder: the registration sets of a description are the orderRegs (below) instead of the regSets.
const levelOrder = -1

// orderRegs: the EXACT registration set of the description made in every order and spelling the
// property calls irrelevant: every permutation of the operation registrations x every vector of
// method spellings over {UPPER, lower, Mixed}; every permutation of the consumers (producers) x
// every vector of media-type spellings over {as written, UPPER}; every permutation of the
// authenticators. One category varies at a time, the others are registered as written.
// All of them are the same registrations, so the reference demands a passing Validate() and
// the serving clause applies to each.
func orderRegs(s apib.Spec) []Reg {
	exact := regSets(s, 0)[0]
	var out []Reg
	seen := map[string]bool{}
	emit := func(r Reg) {
		b, _ := json.Marshal(r)
		if !seen[string(b)] {
			seen[string(b)] = true
			out = append(out, r)
		}
	}
	emit(exact)
	methodSpell := []func(string) string{strings.ToUpper, strings.ToLower, func(m string) string { return strings.ToUpper(m[:1]) + strings.ToLower(m[1:]) }}
	mediaSpell := []func(string) string{func(m string) string { return m }, strings.ToUpper}
	sizes := func(n, k int) []int {
		z := make([]int, n)
		for i := range z {
			z[i] = k
		}
		return z
	}
	for _, perm := range enum.Perms(len(exact.Ops)) {
		enum.Product(sizes(len(exact.Ops), len(methodSpell)), func(idx []int) {
			r := exact
			r.Ops = nil
			for i, pi := range perm {
				o := exact.Ops[pi]
				r.Ops = append(r.Ops, OpKey{Method: methodSpell[idx[i]](o.Method), Path: o.Path})
			}
			emit(r)
		})
	}
	media := func(items []string, set func(r *Reg, v []string)) {
		for _, perm := range enum.Perms(len(items)) {
			enum.Product(sizes(len(items), len(mediaSpell)), func(idx []int) {
				var v []string
				for i, pi := range perm {
					v = append(v, mediaSpell[idx[i]](items[pi]))
				}
				r := exact
				set(&r, v)
				emit(r)
			})
		}
	}
	media(exact.Consumers, func(r *Reg, v []string) { r.Consumers = v })
	media(exact.Producers, func(r *Reg, v []string) { r.Producers = v })
	for _, perm := range enum.Perms(len(exact.Auths)) {
		r := exact
		r.Auths = nil
		for _, pi := range perm {
			r.Auths = append(r.Auths, exact.Auths[pi])
		}
		emit(r)
	}
	return out
}

// orderDescriptions: lower-case (servable) descriptions with several operations of the SAME method,
// two media types in both directions and two used security definitions.
func orderDescriptions() []apib.Spec {
	JT := []string{jsonMime, "text/plain"}
	getC := shape{"GET", "/c", 200}
	both := secList{alt("k1", "K2")}
	return []apib.Spec{
		{BasePath: "/", Produces: []string{jsonMime}, Ops: []apib.Op{mkOp(shapes[4], nil, nil, nil), mkOp(shapes[1], nil, nil, nil), mkOp(getC, nil, nil, nil)}},
		{BasePath: "/", Consumes: JT, Produces: JT, SecurityDefs: secDefs([]string{"k1", "K2"}), Security: both,
			Ops: []apib.Op{mkOp(shapes[0], nil, nil, nil), mkOp(shapes[4], nil, nil, nil), mkOp(shapes[1], nil, nil, nil)}},
		{BasePath: "/", Consumes: JT, Produces: JT,
			Ops: []apib.Op{mkOp(shapes[0], nil, nil, nil), mkOp(shape{"POST", "/c", 200}, nil, nil, nil), mkOp(shapes[2], nil, nil, nil)}},
	}
}
