package main

// History dimension: sequences of calls on ONE untyped.API value.
//
// The fresh-instance sweeps build a new API for every registration set, so state that
// survives a call (a remembered validation verdict, a cached list of registrations, tables
// built at the first Validate) is never exercised there. Here an API is first brought into an
// initial registration state and then driven through every sequence of length <= depth over
//
//	V          Validate()
//	WJ / WOJ   WithJSONDefaults() / WithoutJSONDefaults()
//	RC m, RP m RegisterConsumer / RegisterProducer (m from a two-type alphabet; registering a
//	           type that is present replaces its value: same key, different value)
//	RO o       RegisterOperation (a declared operation / one that is not declared)
//	RA a       RegisterAuth (a declared scheme / an undeclared one)
//	H          hostile caller: every accessor that hands out a map or slice (ConsumersFor,
//	           ProducersFor, AuthenticatorsFor over the whole universe, each single name and the
//	           empty list; the name lists of a failing Validate()) is called and the harness then
//	           scribbles over every value it was handed and every argument it passed in
//	           (all keys deleted, a foreign key added, list entries overwritten)
//
// RO additionally comes with a lower-case spelling of the method of an undeclared operation
// (same method as the upper-case one: the order of spellings is enumerated by the sequences).
//
// Frame oracle (needs no model): H changes neither the registrations the API's lookups report
// nor the verdict of Validate(); a Register* call makes exactly its own item present and leaves
// every other registration of every category as it was; the JSON-default toggles leave operations,
// authenticators and non-JSON codecs as they were.
//
// Oracle: at every V of the sequence and at a final V after it, Validate() must return what the
// reference (model.go) says for the registrations PRESENT AT THAT MOMENT. Those are read off
// the API itself through its public lookups (ConsumersFor, ProducersFor, OperationHandlerFor,
// AuthenticatorsFor over the whole name universe of the case), so the meaning of the JSON-default
// toggles for an explicitly registered JSON codec is not prescribed by the harness. In addition
// the final verdict must equal that of a FRESH API carrying the same registrations
// (differential), and when the final Validate() passes, every well-formed request must be served.

import (
	stderrors "errors"
	"fmt"
	"strings"

	oaerrors "github.com/go-openapi/errors"
	"github.com/go-openapi/loads"
	"github.com/go-openapi/runtime"
	"github.com/go-openapi/runtime/middleware/untyped"
	"github.com/go-openapi/spec"

	"verif/engine/apib"
)

// Step is one call on the shared API value.
type Step struct {
	K string `json:"k"`           // V, WJ, WOJ, RC, RP, RO, RA
	A string `json:"a,omitempty"` // media type, "METHOD path" or scheme name
}

func (s Step) String() string {
	if s.A == "" {
		return s.K
	}
	return s.K + "(" + s.A + ")"
}

func seqString(seq []Step) string {
	parts := make([]string, len(seq))
	for i, s := range seq {
		parts[i] = s.String()
	}
	return strings.Join(parts, " ")
}

func opHandler(rec *recorder, key string, noPayload bool) runtime.OperationHandler {
	return runtime.OperationHandlerFunc(func(interface{}) (interface{}, error) {
		rec.handler = append(rec.handler, key)
		if noPayload {
			return nil, nil
		}
		return "ok", nil
	})
}

func noPayloadOps(s apib.Spec) set {
	np := set{}
	for _, o := range s.Ops {
		if len(effMedia(o.Produces, s.Produces)) == 0 {
			np[normOp(o.Method, o.Path)] = true
		}
	}
	return np
}

// universe of names a history case can register: alphabet + description + initial state.
type universe struct {
	media []string
	ops   []OpKey
	auths []string
}

func universeOf(s apib.Spec, init Reg, alpha []Step) universe {
	m, o, a := newSet(jsonMime), set{}, set{}
	add := func(cat int, name string) {
		switch cat {
		case catConsumers:
			m[normMedia(name)] = true
		case catOps:
			o[normOpName(name)] = true
		case catAuths:
			a[name] = true
		}
	}
	for _, x := range mediaOfCat(s, catConsumers) {
		add(catConsumers, x)
	}
	for _, x := range mediaOfCat(s, catProducers) {
		add(catConsumers, x)
	}
	for _, x := range s.Ops {
		add(catOps, normOp(x.Method, x.Path))
	}
	for k := range s.SecurityDefs {
		add(catAuths, k)
	}
	for _, x := range init.Consumers {
		add(catConsumers, x)
	}
	for _, x := range init.Producers {
		add(catConsumers, x)
	}
	for _, x := range init.Ops {
		add(catOps, normOp(x.Method, x.Path))
	}
	for _, x := range init.Auths {
		add(catAuths, x)
	}
	for _, st := range alpha {
		switch st.K {
		case "RC", "RP":
			add(catConsumers, st.A)
		case "RO":
			add(catOps, st.A)
		case "RA":
			add(catAuths, st.A)
		}
	}
	u := universe{media: m.sorted(), auths: a.sorted()}
	for _, k := range o.sorted() {
		u.ops = append(u.ops, splitOp(k))
	}
	return u
}

// present reads the registrations off the API through its public lookups.
func present(api *untyped.API, u universe) (reg Reg, jsonDefaults bool) {
	for _, m := range apib.SortedKeys(api.ConsumersFor(u.media)) {
		reg.Consumers = append(reg.Consumers, m)
	}
	for _, m := range apib.SortedKeys(api.ProducersFor(u.media)) {
		reg.Producers = append(reg.Producers, m)
	}
	for _, k := range u.ops {
		if _, ok := api.OperationHandlerFor(k.Method, k.Path); ok {
			reg.Ops = append(reg.Ops, k)
		}
	}
	schemes := map[string]spec.SecurityScheme{}
	for _, a := range u.auths {
		schemes[a] = spec.SecurityScheme{}
	}
	reg.Auths = apib.SortedKeys(api.AuthenticatorsFor(schemes))
	return reg, api.DefaultProduces == jsonMime
}

func applyStep(api *untyped.API, st Step, rec *recorder, np set) {
	switch st.K {
	case "WJ":
		api.WithJSONDefaults()
	case "WOJ":
		api.WithoutJSONDefaults()
	case "RC":
		api.RegisterConsumer(st.A, consumerDouble(rec, normMedia(st.A)))
	case "RP":
		api.RegisterProducer(st.A, producerDouble(rec, normMedia(st.A)))
	case "RO":
		k := splitOp(st.A)
		key := normOp(k.Method, k.Path)
		api.RegisterOperation(k.Method, k.Path, opHandler(rec, key, np[key]))
	case "RA":
		api.RegisterAuth(st.A, authDouble(rec, st.A))
	}
}

// regAsSets: the registrations of a present() reading as normalised name sets per category.
func regAsSets(r Reg) [4]set {
	out := [4]set{set{}, set{}, set{}, set{}}
	for _, x := range r.Consumers {
		out[catConsumers][normMedia(x)] = true
	}
	for _, x := range r.Producers {
		out[catProducers][normMedia(x)] = true
	}
	for _, x := range r.Ops {
		out[catOps][normOp(x.Method, x.Path)] = true
	}
	for _, x := range r.Auths {
		out[catAuths][x] = true
	}
	return out
}

// frame: "" when the step changed the registrations exactly as its name says.
func frame(step Step, before, after Reg) string {
	b, a := regAsSets(before), regAsSets(after)
	switch step.K {
	case "RC":
		b[catConsumers][normMedia(step.A)] = true
	case "RP":
		b[catProducers][normMedia(step.A)] = true
	case "RO":
		b[catOps][normOpName(step.A)] = true
	case "RA":
		b[catAuths][step.A] = true
	case "WJ", "WOJ":
		// what the toggles do to the JSON codecs is not prescribed here
		for _, c := range []int{catConsumers, catProducers} {
			delete(b[c], jsonMime)
			delete(a[c], jsonMime)
		}
	default:
		return ""
	}
	for c := 0; c < 4; c++ {
		if !b[c].equal(a[c]) {
			return fmt.Sprintf("the registered %s are now %v, expected %v (the call registers its own item and nothing else changes)", catNames[c], a[c].sorted(), b[c].sorted())
		}
	}
	return ""
}

// hostileCaller: calls every accessor handing out a map or slice and scribbles over the results
// and over the arguments; neither the registrations nor the verdict of Validate() may change.
func hostileCaller(api *untyped.API, u universe, st *histStats) (string, string) {
	before, jdB := present(api, u)
	voB := runValidate(api)
	lists := [][]string{append([]string(nil), u.media...), nil}
	for _, m := range u.media {
		lists = append(lists, []string{m})
	}
	junkC, junkP, junkA := consumerDouble(&recorder{}, "scribble"), producerDouble(&recorder{}, "scribble"), authDouble(&recorder{}, "scribble")
	for _, l := range lists {
		arg := append([]string(nil), l...)
		cm := api.ConsumersFor(arg)
		for k := range cm {
			delete(cm, k)
		}
		cm["x-scribble/consumer"] = junkC
		for i := range arg {
			arg[i] = "x-scribble/arg"
		}
		arg = append([]string(nil), l...)
		pm := api.ProducersFor(arg)
		for k := range pm {
			delete(pm, k)
		}
		pm["x-scribble/producer"] = junkP
		for i := range arg {
			arg[i] = "x-scribble/arg"
		}
	}
	authLists := [][]string{append([]string(nil), u.auths...), nil}
	for _, a := range u.auths {
		authLists = append(authLists, []string{a})
	}
	for _, l := range authLists {
		schemes := map[string]spec.SecurityScheme{}
		for _, a := range l {
			schemes[a] = spec.SecurityScheme{}
		}
		am := api.AuthenticatorsFor(schemes)
		for k := range am {
			delete(am, k)
		}
		am["x-scribble-auth"] = junkA
		for k := range schemes {
			delete(schemes, k)
		}
		schemes["x-scribble-scheme"] = spec.SecurityScheme{}
	}
	func() {
		defer func() { _ = recover() }() // a panicking Validate() is judged by the V steps
		var vf *oaerrors.APIVerificationFailed
		if err := api.Validate(); err != nil && stderrors.As(err, &vf) && vf != nil {
			for i := range vf.MissingRegistration {
				vf.MissingRegistration[i] = "x-scribble"
			}
			for i := range vf.MissingSpecification {
				vf.MissingSpecification[i] = "x-scribble"
			}
		}
	}()
	after, jdA := present(api, u)
	voA := runValidate(api)
	if st != nil {
		st.validates += 3
		st.outcomes["history:hostile-caller"]++
	}
	if fmt.Sprintf("%+v", before) != fmt.Sprintf("%+v", after) || jdB != jdA {
		return "registrations-changed-through-handed-out-value", fmt.Sprintf("the caller only edited maps/slices it was handed by ConsumersFor/ProducersFor/AuthenticatorsFor/Validate, yet the registrations the API reports changed from %+v to %+v", before, after)
	}
	if !sameVerdict(voB, voA) {
		return "validate-changed-through-handed-out-value", fmt.Sprintf("the caller only edited maps/slices it was handed, yet Validate() changed from: %s to: %s", voB, voA)
	}
	return "", ""
}

func sameVerdict(a, b valObs) bool {
	if (a.Err == "") != (b.Err == "") || a.Panic != b.Panic || sectionCat(a.Section) != sectionCat(b.Section) {
		return false
	}
	oc := sectionCat(a.Section)
	if oc < 0 {
		return a.Err == b.Err
	}
	return normSet(oc, a.MissReg).equal(normSet(oc, b.MissReg)) && normSet(oc, a.MissSpc).equal(normSet(oc, b.MissSpc))
}

type histStats struct {
	validates, requests, passes int64
	outcomes                    map[string]int64
}

// runHistory executes one sequence on one API value; "" or the first failing clause.
func runHistory(doc *loads.Document, s apib.Spec, init Reg, seq []Step, alpha []Step, thorough bool, st *histStats) (string, string) {
	rec := &recorder{}
	np := noPayloadOps(s)
	u := universeOf(s, init, append(append([]Step(nil), alpha...), seq...))
	api := buildAPI(doc, s, init, rec)
	where := func(i int) string {
		return fmt.Sprintf("after [%s] on an API initialised with %+v", seqString(seq[:i]), init)
	}
	observe := func(i int) (valObs, Reg, bool, string, string) {
		vo := runValidate(api)
		reg, jd := present(api, u)
		if st != nil {
			st.validates++
			if vo.Err == "" && vo.Panic == "" {
				st.passes++
				st.outcomes["history:validate:pass"]++
			} else {
				st.outcomes["history:validate:fail"]++
			}
		}
		if cl, what := judgeValidate(s, reg, vo); cl != "" {
			return vo, reg, jd, "history/" + cl, where(i) + ": " + what
		}
		return vo, reg, jd, "", ""
	}
	for i, step := range seq {
		if step.K == "V" {
			if _, _, _, cl, what := observe(i); cl != "" {
				return cl, what
			}
			continue
		}
		if step.K == "H" {
			if cl, what := hostileCaller(api, u, st); cl != "" {
				return "history/" + cl, where(i) + ", then the hostile caller: " + what
			}
			continue
		}
		before, _ := present(api, u)
		applyStep(api, step, rec, np)
		after, _ := present(api, u)
		if what := frame(step, before, after); what != "" {
			return "history/registration-frame/" + step.K, fmt.Sprintf("%s, then %s: %s (before %+v, after %+v)", where(i), step, what, before, after)
		}
	}
	vo, reg, jd, cl, what := observe(len(seq))
	if cl != "" {
		return cl, what
	}
	// differential: a fresh API carrying the same registrations
	freshReg := reg
	freshReg.JSONDefaults = jd
	fresh := runValidate(buildAPI(doc, s, freshReg, &recorder{}))
	if !sameVerdict(vo, fresh) {
		return "history/validate-differs-from-fresh-api", fmt.Sprintf("%s: %s, but a fresh API with the same registrations %+v gives: %s", where(len(seq)), vo, freshReg, fresh)
	}
	if vo.Err != "" || !servable(s) || len(s.Ops) == 0 {
		return "", ""
	}
	h, perr := newServer(doc, api)
	if perr != "" {
		return "history/serve-setup-panic", where(len(seq)) + ": middleware.Serve panics on a validated API: " + perr
	}
	for oi := range s.Ops {
		for _, q := range requestsFor(s, oi, thorough) {
			so := serveOne(h, rec, s, q)
			if st != nil {
				st.requests++
				if so.Panic != "" {
					st.outcomes["history:serve:panic"]++
				} else {
					st.outcomes[fmt.Sprintf("history:serve:%d", so.Status)]++
				}
			}
			if cl, what := judgeServe(s, freshReg, q, so); cl != "" {
				return "history/" + cl, fmt.Sprintf("%s, Validate() = nil, then request %+v: %s", where(len(seq)), q, what)
			}
		}
	}
	return "", ""
}

// historyAlphabet: the calls enumerated for a description.
func historyAlphabet(s apib.Spec) []Step {
	declared := "POST /a"
	if len(s.Ops) > 0 {
		declared = normOp(s.Ops[0].Method, s.Ops[0].Path)
	}
	scheme := "k1"
	a := []Step{
		{K: "V"}, {K: "WJ"}, {K: "WOJ"},
		{K: "RC", A: jsonMime}, {K: "RC", A: "text/plain"},
		{K: "RP", A: jsonMime}, {K: "RP", A: "text/plain"},
		{K: "RO", A: declared}, {K: "RO", A: "GET /zzz"},
		{K: "RA", A: scheme}, {K: "RA", A: "kx"},
		{K: "H"}, {K: "RO", A: "get /zzy"},
	}
	return a
}

// historyInits: the initial registration states; the first `deep` of them get the full depth.
func historyInits(s apib.Spec) []Reg {
	var out []Reg
	seen := map[string]bool{}
	add := func(r Reg) {
		k := fmt.Sprintf("%+v", r)
		if !seen[k] {
			seen[k] = true
			out = append(out, r)
		}
	}
	exact := regSets(s, 0) // exact sets: without the JSON defaults, with them, with them and no explicit JSON codec
	if len(exact) > 0 {
		add(exact[0])
	}
	if len(exact) > 2 {
		add(exact[2])
	}
	add(Reg{JSONDefaults: true}) // bare NewAPI
	if len(exact) > 0 {
		r := exact[0]
		r.Ops = nil
		add(r) // exact but no operation handler
		r = exact[0]
		r.Consumers = nil
		add(r) // exact but no consumer
	}
	add(Reg{}) // NewAPI().WithoutJSONDefaults()
	return out
}

// historyDescriptions: small, lower-case (servable) descriptions chosen so that the JSON
// defaults are required (h1, h4), superfluous (h2, h6), half required (h3) or irrelevant (h5).
func historyDescriptions(thorough bool) []apib.Spec {
	J, T := []string{jsonMime}, []string{"text/plain"}
	k1 := secList{alt("k1")}
	ds := []apib.Spec{
		{BasePath: "/", Consumes: J, Produces: J, Ops: []apib.Op{mkOp(shapes[0], nil, nil, nil)}},
		{BasePath: "/", Consumes: T, Produces: T, Ops: []apib.Op{mkOp(shapes[0], nil, nil, nil)}},
		{BasePath: "/", Consumes: []string{jsonMime, "text/plain"}, Produces: T, Ops: []apib.Op{mkOp(shapes[0], nil, nil, nil), mkOp(shapes[1], nil, nil, nil)}},
		{BasePath: "/", Consumes: J, Produces: J, SecurityDefs: secDefs([]string{"k1"}), Security: k1, Ops: []apib.Op{mkOp(shapes[0], nil, nil, nil)}},
	}
	if thorough {
		ds = append(ds,
			apib.Spec{BasePath: "/", Ops: []apib.Op{mkOp(shapes[3], nil, nil, nil)}},
			apib.Spec{BasePath: "/", Consumes: T, Produces: J, SecurityDefs: secDefs([]string{"k1", "K2"}), Ops: []apib.Op{mkOp(shapes[0], nil, T, ptr(secList{alt("k1"), alt("K2")}))}},
		)
	}
	return ds
}

// sequences of length 0..depth over n symbols, as index lists, shortest first.
func forEachSeq(n, depth int, fn func(idx []int)) {
	for l := 0; l <= depth; l++ {
		idx := make([]int, l)
		for {
			fn(idx)
			k := l - 1
			for k >= 0 {
				idx[k]++
				if idx[k] < n {
					break
				}
				idx[k] = 0
				k--
			}
			if k < 0 {
				break
			}
		}
	}
}

// checkHistory: replay entry point for a case that carries a sequence.
func checkHistory(c Case) (string, string) {
	doc, err := apib.Load(c.Spec)
	if err != nil {
		return "", "description does not load: " + err.Error()
	}
	return runHistory(doc, c.Spec, c.Reg, c.Seq, historyAlphabet(c.Spec), c.Thorough, nil)
}
