package main

// Driving the real code: untyped.NewAPI + Register* + Validate, and
// middleware.Serve for the request-time consequence.

import (
	"bufio"
	stderrors "errors"
	"fmt"
	"io"
	"net/http"
	"net/http/httptest"
	"strings"

	oaerrors "github.com/go-openapi/errors"
	"github.com/go-openapi/loads"
	"github.com/go-openapi/runtime"
	"github.com/go-openapi/runtime/middleware"
	"github.com/go-openapi/runtime/middleware/untyped"

	"verif/engine/apib"
)

type OpKey struct {
	Method string `json:"method"`
	Path   string `json:"path"`
}

// Reg is a registration set: the calls made on a fresh untyped.NewAPI(doc).
type Reg struct {
	JSONDefaults bool     `json:"jsonDefaults"` // false: WithoutJSONDefaults() is called first
	Consumers    []string `json:"consumers,omitempty"`
	Producers    []string `json:"producers,omitempty"`
	Ops          []OpKey  `json:"ops,omitempty"`
	Auths        []string `json:"auths,omitempty"`
}

// Req is one well-formed request to a declared operation.
type Req struct {
	Op          int    `json:"op"`                    // index into Spec.Ops
	ContentType string `json:"contentType,omitempty"` // "" = no body
	Accept      string `json:"accept,omitempty"`      // "" = no Accept header
}

// Case: a description, a registration set and, for the serving clause, one request.
type Case struct {
	Spec apib.Spec `json:"spec"`
	Reg  Reg       `json:"reg"` // history cases: the initial registration state
	Req  *Req      `json:"req,omitempty"`
	// history cases (history.go): the calls made on the one API value after Reg was applied
	History  bool   `json:"history,omitempty"`
	Seq      []Step `json:"seq,omitempty"`
	Thorough bool   `json:"thoroughRequests,omitempty"`
}

// recorder collects what the doubles saw during one request.
type recorder struct {
	handler  []string
	consumer []string
	producer []string
	auth     []string
}

func (r *recorder) reset() { *r = recorder{} }

func consumerDouble(rec *recorder, name string) runtime.Consumer {
	return runtime.ConsumerFunc(func(rd io.Reader, v interface{}) error {
		rec.consumer = append(rec.consumer, name)
		b, err := io.ReadAll(rd)
		if err != nil {
			return err
		}
		switch t := v.(type) {
		case *map[string]interface{}:
			*t = map[string]interface{}{"raw": string(b)}
		case *interface{}:
			*t = string(b)
		case *string:
			*t = string(b)
		}
		return nil
	})
}

func producerDouble(rec *recorder, name string) runtime.Producer {
	return runtime.ProducerFunc(func(w io.Writer, v interface{}) error {
		rec.producer = append(rec.producer, name)
		_, err := fmt.Fprintf(w, "%v", v)
		return err
	})
}

func authDouble(rec *recorder, name string) runtime.Authenticator {
	return runtime.AuthenticatorFunc(func(interface{}) (bool, interface{}, error) {
		rec.auth = append(rec.auth, name)
		return true, "principal-" + name, nil
	})
}

// buildAPI performs the registrations on a fresh API. The operation handlers return the payload "ok",
// except for an operation of the description that has no (own or global) produces: with no media type
// to send a payload in, a well-behaved handler returns nothing.
func buildAPI(doc *loads.Document, s apib.Spec, reg Reg, rec *recorder) *untyped.API {
	noPayload := set{}
	for _, o := range s.Ops {
		if len(effMedia(o.Produces, s.Produces)) == 0 {
			noPayload[normOp(o.Method, o.Path)] = true
		}
	}
	api := untyped.NewAPI(doc)
	if !reg.JSONDefaults {
		api.WithoutJSONDefaults()
	}
	for _, c := range reg.Consumers {
		api.RegisterConsumer(c, consumerDouble(rec, normMedia(c)))
	}
	for _, p := range reg.Producers {
		api.RegisterProducer(p, producerDouble(rec, normMedia(p)))
	}
	for _, o := range reg.Ops {
		key := normOp(o.Method, o.Path)
		api.RegisterOperation(o.Method, o.Path, opHandler(rec, key, noPayload[key]))
	}
	for _, a := range reg.Auths {
		api.RegisterAuth(a, authDouble(rec, a))
	}
	return api
}

func runValidate(api *untyped.API) (o valObs) {
	defer func() {
		if e := recover(); e != nil {
			o = valObs{Panic: fmt.Sprint(e)}
		}
	}()
	err := api.Validate()
	if err == nil {
		return valObs{}
	}
	o.Err = err.Error()
	if o.Err == "" {
		o.Err = "(error with empty text)"
	}
	var vf *oaerrors.APIVerificationFailed
	if stderrors.As(err, &vf) && vf != nil {
		o.Typed = true
		o.Section = vf.Section
		o.MissReg = append([]string(nil), vf.MissingRegistration...)
		o.MissSpc = append([]string(nil), vf.MissingSpecification...)
	}
	return o
}

// ---- serving ----

type srvObs struct {
	Panic    string   `json:"panic,omitempty"`
	Status   int      `json:"status"`
	Body     string   `json:"body,omitempty"`
	Handler  []string `json:"handler,omitempty"`
	Consumer []string `json:"consumer,omitempty"`
	Producer []string `json:"producer,omitempty"`
	Auth     []string `json:"auth,omitempty"`
}

func (o srvObs) String() string {
	if o.Panic != "" {
		return fmt.Sprintf("panic: %s (handler calls %v)", o.Panic, o.Handler)
	}
	b := o.Body
	if len(b) > 160 {
		b = b[:160] + "..."
	}
	return fmt.Sprintf("status %d body %q handler calls %v consumers %v producers %v authenticators %v", o.Status, b, o.Handler, o.Consumer, o.Producer, o.Auth)
}

func hasBodyMethod(m string) bool {
	switch strings.ToUpper(m) {
	case "POST", "PUT", "PATCH":
		return true
	}
	return false
}

// requestText renders the request as net/http would receive it.
func requestText(s apib.Spec, q Req) string {
	op := s.Ops[q.Op]
	p := strings.ReplaceAll(op.Path, "{id}", "7")
	base := s.BasePath
	if s.NoBasePath {
		base = ""
	}
	if !strings.HasPrefix(base, "/") && base != "" {
		base = "/" + base
	}
	url := strings.TrimSuffix(base, "/") + p
	var b strings.Builder
	fmt.Fprintf(&b, "%s %s HTTP/1.1\r\nHost: example.test\r\n", strings.ToUpper(op.Method), url)
	if q.Accept != "" {
		fmt.Fprintf(&b, "Accept: %s\r\n", q.Accept)
	}
	if q.ContentType != "" {
		body := `{"a":1}`
		fmt.Fprintf(&b, "Content-Type: %s\r\nContent-Length: %d\r\n\r\n%s", q.ContentType, len(body), body)
	} else {
		b.WriteString("\r\n")
	}
	return b.String()
}

func serveOne(h http.Handler, rec *recorder, s apib.Spec, q Req) (o srvObs) {
	rec.reset()
	req, err := http.ReadRequest(bufio.NewReader(strings.NewReader(requestText(s, q))))
	if err != nil {
		panic("harness: request does not parse: " + err.Error())
	}
	w := httptest.NewRecorder()
	defer func() {
		if e := recover(); e != nil {
			o = srvObs{Panic: fmt.Sprint(e), Handler: rec.handler, Consumer: rec.consumer, Producer: rec.producer, Auth: rec.auth}
		}
	}()
	h.ServeHTTP(w, req)
	return srvObs{Status: w.Code, Body: w.Body.String(), Handler: rec.handler, Consumer: rec.consumer, Producer: rec.producer, Auth: rec.auth}
}

// servable: the precondition of the second sentence of the property.
func servable(s apib.Spec) bool {
	for _, cat := range []int{catConsumers, catProducers} {
		for _, m := range mediaOfCat(s, cat) {
			if hasUpper(m) || strings.ContainsAny(m, ";*") {
				return false
			}
		}
	}
	return true
}

func successCode(o apib.Op) int {
	if o.Responses == nil {
		return 200
	}
	for _, c := range []int{200, 201, 202, 204} {
		if _, ok := o.Responses[fmt.Sprint(c)]; ok {
			return c
		}
	}
	return 0
}

// judgeServe: the request went to an API on which Validate() returned nil.
func judgeServe(s apib.Spec, r Reg, q Req, o srvObs) (string, string) {
	op := s.Ops[q.Op]
	key := normOp(op.Method, op.Path)
	want := fmt.Sprintf("operation %s served (status %d, its handler called once)", key, successCode(op))
	class := ""
	switch {
	case o.Panic != "":
		lp := strings.ToLower(o.Panic)
		switch {
		case strings.Contains(lp, "producer"):
			class = "serve-no-producer"
			if len(effMedia(op.Produces, s.Produces)) == 0 && !r.JSONDefaults {
				class += "/operation-without-produces-and-no-default"
			}
		case strings.Contains(lp, "consumer"):
			class = "serve-no-consumer"
		default:
			class = "serve-panic"
		}
	case o.Status >= 500 && strings.Contains(strings.ToLower(o.Body), "consumer"):
		class = "serve-no-consumer"
	case o.Status >= 500 && strings.Contains(strings.ToLower(o.Body), "producer"):
		class = "serve-no-producer"
	case o.Status == 404 || o.Status == 405:
		class = fmt.Sprintf("serve-no-route-%d", o.Status)
		if pathNotClean(s, op) {
			class += "/operation-path-changed-by-cleaning"
		}
	case o.Status == 401 || o.Status == 403:
		class = fmt.Sprintf("serve-auth-failed-%d", o.Status)
	case o.Status >= 500:
		class = fmt.Sprintf("serve-status-%d", o.Status)
	case o.Status != successCode(op):
		class = fmt.Sprintf("serve-status-%d", o.Status)
	case len(o.Handler) != 1 || o.Handler[0] != key:
		class = "serve-wrong-handler"
	}
	if class == "" {
		return "", ""
	}
	return class, fmt.Sprintf("%s; expected: %s", o, want)
}

// pathNotClean: classifier predicate (over the input) of the route-dropping
// defect that C01 owns: the operation path is "/" below a non-root base path, or ends in "/".
func pathNotClean(s apib.Spec, op apib.Op) bool {
	base := s.BasePath
	if s.NoBasePath {
		base = ""
	}
	rootBase := base == "" || base == "/"
	if op.Path == "/" {
		return !rootBase
	}
	return strings.HasSuffix(op.Path, "/")
}

func newServer(doc *loads.Document, api *untyped.API) (h http.Handler, perr string) {
	defer func() {
		if e := recover(); e != nil {
			perr = fmt.Sprint(e)
		}
	}()
	return middleware.Serve(doc, api), ""
}

// requestsFor enumerates the well-formed requests to one operation.
func requestsFor(s apib.Spec, i int, thorough bool) []Req {
	op := s.Ops[i]
	cts := []string{""}
	if hasBodyMethod(op.Method) {
		if cons := effMedia(op.Consumes, s.Consumes); len(cons) > 0 {
			cts = nil
			for _, c := range cons {
				cts = append(cts, c)
				if thorough {
					cts = append(cts, c+"; charset=utf-8", strings.ToUpper(c))
				}
			}
		}
	}
	accs := []string{""}
	for _, p := range effMedia(op.Produces, s.Produces) {
		accs = append(accs, p)
	}
	if thorough {
		accs = append(accs, "*/*")
	}
	var out []Req
	for _, ct := range cts {
		for _, a := range accs {
			out = append(out, Req{Op: i, ContentType: ct, Accept: a})
		}
	}
	return out
}

// check is the pure per-case function used by the enumerator's replay path.
func check(c Case) (string, string) {
	if c.History {
		return checkHistory(c)
	}
	doc, err := apib.Load(c.Spec)
	if err != nil {
		return "", "description does not load: " + err.Error()
	}
	rec := &recorder{}
	api := buildAPI(doc, c.Spec, c.Reg, rec)
	vo := runValidate(api)
	if c.Req == nil {
		return judgeValidate(c.Spec, c.Reg, vo)
	}
	if vo.Err != "" || vo.Panic != "" {
		return "", "precondition not met, the API does not validate: " + vo.String()
	}
	if !servable(c.Spec) {
		return "", "precondition not met: a media type of the description is not lower-case, parameter-free and wildcard-free"
	}
	if c.Req.Op < 0 || c.Req.Op >= len(c.Spec.Ops) {
		return "", "bad replay file: no such operation"
	}
	h, perr := newServer(doc, api)
	if perr != "" {
		return "serve-setup-panic", "middleware.Serve panics on a validated API: " + perr
	}
	so := serveOne(h, rec, c.Spec, *c.Req)
	return judgeServe(c.Spec, c.Reg, *c.Req, so)
}
