package main

// Reference model of C19, written from the property text only.
//
// Five categories, in the order the text names them:
//   0 consumers   1 producers   2 operation handlers   3 authenticators
//   4 "every declared security definition is used"
//
// What "the API description requires" is read in two ways where the text
// leaves it open (a global list that every operation overrides):
//   max: everything the description mentions (global and per-operation lists)
//   min: only what some operation effectively uses (its own list, else the global one)
// An observation is accepted when it satisfies the oracle under at least one
// combination of readings; only what every reading forces is a MUST.
//
// Names: media types compare case-insensitively, the method of an operation
// compares case-insensitively, paths and security scheme names byte for byte
// (the quantifier of the property lists "case variants of media types and
// methods" as registration sets, which only has content if they are equivalent).

import (
	"fmt"
	"sort"
	"strings"

	"verif/engine/apib"
)

const (
	catConsumers = iota
	catProducers
	catOps
	catAuths
	catSecDefs
	nCats
)

var catNames = [nCats]string{"consumers", "producers", "operations", "authenticators", "security-definitions"}

type set map[string]bool

func newSet(items ...string) set {
	s := set{}
	for _, i := range items {
		s[i] = true
	}
	return s
}
func (s set) sorted() []string {
	out := make([]string, 0, len(s))
	for k := range s {
		out = append(out, k)
	}
	sort.Strings(out)
	return out
}
func (s set) equal(o set) bool {
	if len(s) != len(o) {
		return false
	}
	for k := range s {
		if !o[k] {
			return false
		}
	}
	return true
}
func (s set) minus(o set) set {
	out := set{}
	for k := range s {
		if !o[k] {
			out[k] = true
		}
	}
	return out
}
func (s set) union(o set) set {
	out := set{}
	for k := range s {
		out[k] = true
	}
	for k := range o {
		out[k] = true
	}
	return out
}

// normalisation of names per category
func normMedia(s string) string { return strings.ToLower(s) }
func normOp(method, path string) string {
	return strings.ToUpper(method) + " " + path
}
func normOpName(s string) string {
	if i := strings.IndexByte(s, ' '); i >= 0 {
		return strings.ToUpper(s[:i]) + s[i:]
	}
	return s
}
func normName(cat int, s string) string {
	switch cat {
	case catConsumers, catProducers:
		return normMedia(s)
	case catOps:
		return normOpName(s)
	}
	return s
}

// needs: the requirement sets of a description. [0]=min reading, [1]=max reading.
type needs struct {
	cons, prod, auth [2]set
	ops              set
	declared         set // declared security definitions
}

func effMedia(own, global []string) []string {
	if len(own) > 0 {
		return own
	}
	return global
}

func effSecurity(s apib.Spec, o apib.Op) []map[string][]string {
	if o.Security != nil {
		return *o.Security
	}
	return s.Security
}

func computeNeeds(s apib.Spec) needs {
	var n needs
	for i := 0; i < 2; i++ {
		n.cons[i], n.prod[i], n.auth[i] = set{}, set{}, set{}
	}
	n.ops, n.declared = set{}, set{}
	for _, m := range s.Consumes {
		n.cons[1][normMedia(m)] = true
	}
	for _, m := range s.Produces {
		n.prod[1][normMedia(m)] = true
	}
	for _, alt := range s.Security {
		for k := range alt {
			n.auth[1][k] = true
		}
	}
	for _, o := range s.Ops {
		n.ops[normOp(o.Method, o.Path)] = true
		for _, m := range o.Consumes {
			n.cons[1][normMedia(m)] = true
		}
		for _, m := range o.Produces {
			n.prod[1][normMedia(m)] = true
		}
		if o.Security != nil {
			for _, alt := range *o.Security {
				for k := range alt {
					n.auth[1][k] = true
				}
			}
		}
		for _, m := range effMedia(o.Consumes, s.Consumes) {
			n.cons[0][normMedia(m)] = true
		}
		for _, m := range effMedia(o.Produces, s.Produces) {
			n.prod[0][normMedia(m)] = true
		}
		for _, alt := range effSecurity(s, o) {
			for k := range alt {
				n.auth[0][k] = true
			}
		}
	}
	for k := range s.SecurityDefs {
		n.declared[k] = true
	}
	return n
}

// ambiguous: the two readings differ somewhere.
func (n needs) ambiguous() bool {
	return !n.cons[0].equal(n.cons[1]) || !n.prod[0].equal(n.prod[1]) || !n.auth[0].equal(n.auth[1])
}

// registered: the registration sets an API ends up with, per the documented
// meaning of the Register* calls (plus the JSON defaults of NewAPI).
type registered [4]set

const jsonMime = "application/json"

func computeRegistered(r Reg) registered {
	var g registered
	for i := range g {
		g[i] = set{}
	}
	if r.JSONDefaults {
		g[catConsumers][jsonMime] = true
		g[catProducers][jsonMime] = true
	}
	for _, c := range r.Consumers {
		g[catConsumers][normMedia(c)] = true
	}
	for _, p := range r.Producers {
		g[catProducers][normMedia(p)] = true
	}
	for _, o := range r.Ops {
		g[catOps][normOp(o.Method, o.Path)] = true
	}
	for _, a := range r.Auths {
		g[catAuths][a] = true
	}
	return g
}

// expectation under one combination of readings.
type expectation struct {
	cat         int // -1: validation must succeed
	missing     set // required, not registered
	superfluous set // registered, not required (cat 4: declared, not used)
}

type reading struct{ c, p, a int }

func (n needs) readings() []reading {
	var out []reading
	cs, ps, as := []int{1}, []int{1}, []int{1}
	if !n.cons[0].equal(n.cons[1]) {
		cs = []int{1, 0}
	}
	if !n.prod[0].equal(n.prod[1]) {
		ps = []int{1, 0}
	}
	if !n.auth[0].equal(n.auth[1]) {
		as = []int{1, 0}
	}
	for _, c := range cs {
		for _, p := range ps {
			for _, a := range as {
				out = append(out, reading{c, p, a})
			}
		}
	}
	return out // first element is the all-max reading
}

func expect(n needs, g registered, rd reading) expectation {
	req := [4]set{n.cons[rd.c], n.prod[rd.p], n.ops, n.auth[rd.a]}
	for cat := 0; cat < 4; cat++ {
		miss, sup := req[cat].minus(g[cat]), g[cat].minus(req[cat])
		if len(miss) > 0 || len(sup) > 0 {
			return expectation{cat, miss, sup}
		}
	}
	if unused := n.declared.minus(n.auth[rd.a]); len(unused) > 0 {
		return expectation{catSecDefs, set{}, unused}
	}
	return expectation{cat: -1}
}

// observation of API.Validate on the real code.
type valObs struct {
	Panic   string   `json:"panic,omitempty"`
	Err     string   `json:"err,omitempty"` // "" = nil error
	Typed   bool     `json:"typed"`         // error is an *errors.APIVerificationFailed
	Section string   `json:"section,omitempty"`
	MissReg []string `json:"missingRegistration,omitempty"`
	MissSpc []string `json:"missingSpecification,omitempty"`
}

func (o valObs) String() string {
	switch {
	case o.Panic != "":
		return "panic: " + o.Panic
	case o.Err == "":
		return "Validate() = nil"
	case o.Typed:
		return fmt.Sprintf("Validate() fails: section %q missing registrations %v, not in the description %v", o.Section, o.MissReg, o.MissSpc)
	}
	return "Validate() fails: " + o.Err
}

// sectionCat maps the section label of the report to a category; -1 = not recognisable (MAY).
func sectionCat(section string) int {
	s := strings.ToLower(section)
	switch {
	case strings.Contains(s, "security def"):
		return catSecDefs
	case strings.Contains(s, "consum"):
		return catConsumers
	case strings.Contains(s, "produc"):
		return catProducers
	case strings.Contains(s, "operation") || strings.Contains(s, "handler"):
		return catOps
	case strings.Contains(s, "auth") || strings.Contains(s, "scheme"):
		return catAuths
	}
	return -1
}

func normSet(cat int, items []string) set {
	s := set{}
	for _, i := range items {
		s[normName(cat, i)] = true
	}
	return s
}

// accepts: does the observation satisfy the expectation. kind names the first clause that fails.
func accepts(e expectation, o valObs) (ok bool, kind string) {
	if o.Panic != "" {
		return false, "validate-panic"
	}
	if e.cat < 0 {
		if o.Err == "" {
			return true, ""
		}
		return false, "validate-rejects-match"
	}
	if o.Err == "" {
		return false, "validate-accepts-mismatch"
	}
	if !o.Typed {
		// untyped report: every expected name must at least be mentioned
		for _, k := range e.missing.union(e.superfluous).sorted() {
			if !strings.Contains(strings.ToLower(o.Err), strings.ToLower(k)) {
				return false, "report-omits-item"
			}
		}
		return true, ""
	}
	if oc := sectionCat(o.Section); oc >= 0 && oc != e.cat {
		return false, "report-wrong-category"
	}
	mr, ms := normSet(e.cat, o.MissReg), normSet(e.cat, o.MissSpc)
	if e.cat == catSecDefs {
		// which of the two lists carries an unused definition is not fixed by the text
		all := mr.union(ms)
		if len(e.superfluous.minus(all)) > 0 {
			return false, "report-omits-superfluous"
		}
		if len(all.minus(e.superfluous)) > 0 {
			return false, "report-extra-item"
		}
		return true, ""
	}
	if len(e.missing.minus(mr)) > 0 {
		return false, "report-omits-missing"
	}
	if len(e.superfluous.minus(ms)) > 0 {
		return false, "report-omits-superfluous"
	}
	if len(mr.minus(e.missing)) > 0 || len(ms.minus(e.superfluous)) > 0 {
		return false, "report-extra-item"
	}
	return true, ""
}

func hasUpper(s string) bool { return strings.ToLower(s) != s }

// mediaOfCat: the media types the description mentions for consumers / producers, as written.
func mediaOfCat(s apib.Spec, cat int) []string {
	var out []string
	if cat == catConsumers {
		out = append(out, s.Consumes...)
		for _, o := range s.Ops {
			out = append(out, o.Consumes...)
		}
	} else if cat == catProducers {
		out = append(out, s.Produces...)
		for _, o := range s.Ops {
			out = append(out, o.Produces...)
		}
	}
	return out
}

// caseArtifact is the classifier predicate of the one defect of the pinned tree
// seen in the validation clause: the report is about a media-type category for
// which the description spells a media type with an upper-case letter, and
// the report names the same media type both as missing and as superfluous,
// differing in case only: a name reported as missing is spelled with an upper-case
// letter and its lower-case form is registered.
func caseArtifact(s apib.Spec, g registered, o valObs) bool {
	if !o.Typed {
		return false
	}
	oc := sectionCat(o.Section)
	if oc != catConsumers && oc != catProducers {
		return false
	}
	up := false
	for _, m := range mediaOfCat(s, oc) {
		if hasUpper(m) {
			up = true
		}
	}
	if !up {
		return false
	}
	for _, m := range o.MissReg {
		if hasUpper(m) && g[oc][normMedia(m)] {
			return true
		}
	}
	return false
}

// judgeValidate: "" when the observation is allowed by some reading, else (class, what).
func judgeValidate(s apib.Spec, r Reg, o valObs) (string, string) {
	n := computeNeeds(s)
	g := computeRegistered(r)
	rds := n.readings()
	var first expectation
	var firstKind string
	for i, rd := range rds {
		e := expect(n, g, rd)
		ok, kind := accepts(e, o)
		if ok {
			return "", ""
		}
		if i == 0 {
			first, firstKind = e, kind
		}
	}
	class := firstKind
	var want string
	if first.cat < 0 {
		want = "registrations coincide with the description and every security definition is used: Validate must succeed"
		if oc := sectionCat(o.Section); oc >= 0 {
			class += "/" + catNames[oc]
		}
	} else {
		want = fmt.Sprintf("first failing category %s: missing %v, superfluous %v", catNames[first.cat], first.missing.sorted(), first.superfluous.sorted())
		switch firstKind {
		case "validate-accepts-mismatch":
			switch {
			case len(first.missing) > 0 && len(first.superfluous) > 0:
				class += "/" + catNames[first.cat] + "-missing-and-superfluous"
			case len(first.missing) > 0:
				class += "/" + catNames[first.cat] + "-missing"
			default:
				class += "/" + catNames[first.cat] + "-superfluous"
			}
		case "report-wrong-category":
			class += "/" + catNames[first.cat] + "-reported-as-" + catNames[sectionCat(o.Section)]
		default:
			class += "/" + catNames[first.cat]
		}
	}
	if firstKind != "validate-panic" && caseArtifact(s, g, o) {
		class = "validate-reports-registered-type-missing/uppercase-media-type-in-description"
	}
	return class, fmt.Sprintf("%s; expected: %s (registered: consumers %v producers %v operations %v authenticators %v)", o, want,
		g[0].sorted(), g[1].sorted(), g[2].sorted(), g[3].sorted())
}
