package main

// Driving the real code: the negotiation functions, Context.ResponseFormat, the
// header parser, and the full API handler.

import (
	"bufio"
	"fmt"
	"io"
	"math"
	"net/http"
	"net/http/httptest"
	"net/url"
	"strings"

	"github.com/go-openapi/runtime"
	"github.com/go-openapi/runtime/middleware"
	"github.com/go-openapi/runtime/middleware/header"
	"github.com/go-openapi/runtime/middleware/untyped"

	"verif/engine/apib"
)

var theURL = &url.URL{Path: "/x"}

// newReq: the request carrying the header; built once per prepared header (the code under
// test does not modify the request it is given).
func newReq(key string, p *prepared) *http.Request {
	k := 0
	if key != "Accept" {
		k = 1
	}
	if p.req[k] == nil {
		h := http.Header{}
		if !p.absent {
			h[key] = p.lines
		}
		p.req[k] = &http.Request{Method: "GET", URL: theURL, Header: h}
	}
	return p.req[k]
}

var fmtCtx = middleware.NewContext(nil, nil, nil)

func runType(p *prepared, offers []string, def string) (got string, pan string) {
	defer func() {
		if e := recover(); e != nil {
			pan = fmt.Sprint(e)
		}
	}()
	return middleware.NegotiateContentType(newReq("Accept", p), offers, def), ""
}

func runFormat(p *prepared, offers []string) (got string, pan string) {
	defer func() {
		if e := recover(); e != nil {
			pan = fmt.Sprint(e)
		}
	}()
	got, _ = fmtCtx.ResponseFormat(newReq("Accept", p), offers)
	return got, ""
}

func runEncoding(p *prepared, offers []string) (got string, pan string) {
	defer func() {
		if e := recover(); e != nil {
			pan = fmt.Sprint(e)
		}
	}()
	return middleware.NegotiateContentEncoding(newReq("Accept-Encoding", p), offers), ""
}

func runParse(p *prepared, key string) (specs []header.AcceptSpec, pan string) {
	defer func() {
		if e := recover(); e != nil {
			pan = fmt.Sprint(e)
		}
	}()
	h := http.Header{}
	if !p.absent {
		h[key] = p.lines
	}
	return header.ParseAccept(h, key), ""
}

func specsString(specs []header.AcceptSpec) string {
	var b strings.Builder
	for i, s := range specs {
		if i > 0 {
			b.WriteString(" ")
		}
		fmt.Fprintf(&b, "%s;q=%v", s.Value, s.Q)
	}
	return "[" + b.String() + "]"
}

func badQ(specs []header.AcceptSpec) bool {
	for _, s := range specs {
		if math.IsNaN(s.Q) || math.IsInf(s.Q, 0) {
			return true
		}
	}
	return false
}

// ---- full handler ----

type api struct {
	h     http.Handler
	ctx   *middleware.Context
	calls *int
	// routeProduces is the offer list this instance really negotiates on. It is the declared
	// produces list in the order analysis.ProducesFor returned it (a Go map iteration order,
	// i.e. not the declared order) plus the API default when not declared.
	routeProduces []string
	builds        int  // instances built until the declared order was realised
	declaredOrder bool // routeProduces starts with the declared list in the declared order
}

var tinyProducer = runtime.ProducerFunc(func(w io.Writer, _ interface{}) error {
	_, err := w.Write([]byte("x"))
	return err
})

// buildAPI: one GET /x operation producing `produces`; API default media type def ("" = none).
// A producer is registered for every media type involved, so the only thing that can
// refuse a request is the negotiation.
func buildAPI(produces []string, def string) *api {
	var a *api
	for n := 1; n <= 200; n++ {
		a = buildAPIOnce(produces, def)
		a.builds = n
		a.declaredOrder = len(a.routeProduces) >= len(produces)
		for i := range produces {
			if a.declaredOrder && a.routeProduces[i] != produces[i] {
				a.declaredOrder = false
			}
		}
		if a.declaredOrder {
			break
		}
	}
	return a
}

func buildAPIOnce(produces []string, def string) *api {
	op := apib.Op{Method: "GET", Path: "/x", ID: "getx"}
	if len(produces) > 0 {
		op.Produces = produces
	}
	doc := apib.MustLoad(apib.Spec{BasePath: "/", Ops: []apib.Op{op}})
	a := untyped.NewAPI(doc).WithoutJSONDefaults()
	for _, mt := range produces {
		a.RegisterProducer(mt, tinyProducer)
	}
	if def != "" {
		a.RegisterProducer(def, tinyProducer)
		a.DefaultProduces = def
	}
	calls := new(int)
	a.RegisterOperation("GET", "/x", runtime.OperationHandlerFunc(func(interface{}) (interface{}, error) {
		*calls++
		return "v", nil
	}))
	ctx := middleware.NewContext(doc, a, nil)
	res := &api{h: ctx.APIHandler(nil), ctx: ctx, calls: calls}
	if route, ok := ctx.LookupRoute(&http.Request{Method: "GET", URL: theURL}); ok {
		res.routeProduces = append([]string(nil), route.Produces...)
	}
	return res
}

type handlerResult struct {
	status      int
	contentType string
	calls       int
	pan         string
	undelivered string // net/http refused to parse the request text
}

func (r handlerResult) String() string {
	if r.pan != "" {
		return "panic: " + r.pan
	}
	return fmt.Sprintf("status %d, Content-Type %q, handler calls %d", r.status, r.contentType, r.calls)
}

// runHandler sends GET /x with the header lines, parsed from text as net/http would deliver it.
func runHandler(a *api, p *prepared) (res handlerResult) {
	var b strings.Builder
	b.WriteString("GET /x HTTP/1.1\r\nHost: h\r\n")
	if !p.absent {
		for _, l := range p.lines {
			b.WriteString("Accept: ")
			b.WriteString(l)
			b.WriteString("\r\n")
		}
	}
	b.WriteString("\r\n")
	req, err := http.ReadRequest(bufio.NewReader(strings.NewReader(b.String())))
	if err != nil {
		res.undelivered = err.Error()
		return res
	}
	*a.calls = 0
	rec := httptest.NewRecorder()
	defer func() {
		if e := recover(); e != nil {
			res.pan = fmt.Sprint(e)
			res.calls = *a.calls
		}
	}()
	a.h.ServeHTTP(rec, req)
	res.status = rec.Code
	res.contentType = rec.Header().Get("Content-Type")
	res.calls = *a.calls
	return res
}
