package main

// The exported parsers judged directly: header.ParseAccept (the parser the negotiation
// uses) and header.ParseAccept2 (the ParseList / parseValueAndParams based parser) must
// both read a header of the structured alphabet as the ranges and q-values it denotes.
// Same oracle as everywhere: the reference negotiation is run over the specs the parser
// returned, and its choice must be one the reference admits for the abstract header;
// in addition a q that denotes a smaller number is never reported above one denoting a
// larger number, and a q that denotes 0 is reported as 0.
// Also the typed-server entry point Context.BindValidRequest (format check).

import (
	"fmt"
	"math"
	"net/http"
	"sort"
	"strings"

	"github.com/go-openapi/errors"
	"github.com/go-openapi/runtime/middleware"
	"github.com/go-openapi/runtime/middleware/header"
)

func runParse2(p *prepared, key string) (specs []header.AcceptSpec, pan string) {
	defer func() {
		if e := recover(); e != nil {
			pan = fmt.Sprint(e)
		}
	}()
	h := http.Header{}
	if !p.absent {
		h[key] = p.lines
	}
	return header.ParseAccept2(h, key), ""
}

// runListParsers: totality of ParseList and ParseValueAndParams on verbatim values
func runListParsers(p *prepared, key string) (pan string) {
	defer func() {
		if e := recover(); e != nil {
			pan = fmt.Sprint(e)
		}
	}()
	h := http.Header{}
	if !p.absent {
		h[key] = p.lines
	}
	_ = header.ParseList(h, key)
	_, _ = header.ParseValueAndParams(h, key)
	return ""
}

// fromSpecs: the parsed specs as the reference sees ranges (q ranked by its float value)
func fromSpecs(specs []header.AcceptSpec, encoding bool) (*prepared, bool) {
	p := &prepared{structured: true}
	var qs []float64
	for _, s := range specs {
		if math.IsNaN(s.Q) || math.IsInf(s.Q, 0) || s.Q < 0 {
			return nil, false
		}
		qs = append(qs, s.Q)
	}
	sort.Float64s(qs)
	for _, s := range specs {
		r := rng{}
		if s.Q > 0 {
			r.q = 1 + sort.SearchFloat64s(qs, s.Q)
		}
		if encoding {
			r.typ, r.spec = s.Value, 2
			if s.Value == "*" {
				r.spec = 0
			}
		} else {
			var found bool
			r.typ, r.sub, found = strings.Cut(s.Value, "/")
			switch {
			case !found:
				r.typ, r.sub, r.spec = s.Value, "\x00", 2 // matches nothing
			case r.typ == "*" && r.sub == "*":
				r.spec = 0
			case r.sub == "*":
				r.spec = 1
			default:
				r.spec = 2
			}
		}
		p.ranges = append(p.ranges, r)
	}
	return p, true
}

var (
	parserTypeOffers = []offerList{
		{raw: []string{"a/b", "a/c", "c/d"}}, {raw: []string{"c/d", "a/c", "a/b"}}, {raw: []string{"a/c"}}, {raw: []string{"a/b; charset=utf-8", "a/b"}},
	}
	parserEncOffers = [][]string{{"gzip", "br", "identity"}, {"identity", "br", "gzip"}, {"br"}}
)

func init() {
	for i := range parserTypeOffers {
		parserTypeOffers[i].parsed = parseOffers(parserTypeOffers[i].raw)
	}
}

// judgeParsed judges the specs one parser returned for a structured header.
func judgeParsed(name string, c *Case, p *prepared, specs []header.AcceptSpec, pan string) (class, what string) {
	where := fmt.Sprintf("%s(%s)", name, headerText(p))
	if pan != "" {
		return name + "-panic" + suffix(p), where + ": panic: " + pan
	}
	if !p.structured || p.may != "" || p.absent {
		return "", ""
	}
	encoding := c.Via == "encoding"
	got := specsString(specs)
	sp, ok := fromSpecs(specs, encoding)
	if !ok {
		return name + "-bad-q" + suffix(p), where + " = " + got + ": a quality that is negative, infinite or not a number"
	}
	// aligned: the parser returned the ranges one by one; compare the qualities as numbers
	if len(specs) == len(p.ranges) {
		aligned := true
		for i, s := range specs {
			v := p.ranges[i].typ
			if !encoding {
				v += "/" + p.ranges[i].sub
			}
			if s.Value != v {
				aligned = false
			}
		}
		if aligned {
			for i := range specs {
				if p.ranges[i].q == 0 && specs[i].Q != 0 {
					return name + "-q-order" + suffix(p), fmt.Sprintf("%s = %s: range %d is written with quality 0 and reported with %v", where, got, i+1, specs[i].Q)
				}
				for j := range specs {
					if p.ranges[i].q < p.ranges[j].q && specs[i].Q > specs[j].Q {
						return name + "-q-order" + suffix(p), fmt.Sprintf("%s = %s: the q of range %d denotes a smaller number than the q of range %d and is reported above it", where, got, i+1, j+1)
					}
				}
			}
		}
	}
	// the reference negotiation over the returned specs must choose what the header admits
	if encoding {
		for _, ol := range parserEncOffers {
			e := expectEncoding(p, ol)
			e2 := expectEncoding(sp, ol)
			if e.anyMember || e2.anyMember {
				continue
			}
			if !e.has(e2.allowed[0]) {
				return name + "-wrong-encoding" + suffix(p), fmt.Sprintf("%s = %s: negotiating over these specs with offers %q gives %q, the header admits %s", where, got, ol, e2.allowed[0], e)
			}
		}
		return "", ""
	}
	for i := range parserTypeOffers {
		ol := &parserTypeOffers[i]
		e := expectType(p, ol.parsed, "")
		if e.anyMember {
			continue
		}
		pick := ""
		if k, _, _ := refType(sp, ol.parsed, false); k >= 0 {
			pick = ol.raw[k]
		}
		if !e.has(pick) {
			return name + "-wrong-choice" + suffix(p), fmt.Sprintf("%s = %s: negotiating over these specs with offers %q gives %q, the header admits %s", where, got, ol.raw, pick, e)
		}
	}
	return "", ""
}

// checkParsers runs both parsers on one header (via parse1 / parse2 for replay).
func checkParser(c Case) (class, what, observed string) {
	p := prepare(&c)
	key := "Accept"
	cc := c
	if c.Default == "Accept-Encoding" {
		key = c.Default
		cc.Via = "encoding"
		p = prepare(&cc)
	}
	var specs []header.AcceptSpec
	var pan string
	name := "ParseAccept"
	if c.Via == "parse2" {
		name = "ParseAccept2"
		specs, pan = runParse2(p, key)
	} else {
		specs, pan = runParse(p, key)
	}
	class, what = judgeParsed(name, &cc, p, specs, pan)
	return class, what, specsString(specs) + " " + pan
}

// parsersOnHeader is called once per structured header by the sweeps.
func parsersOnHeader(fail func(class, what string, c any), c Case, p *prepared, t *tally) {
	key, enc := "Accept", ""
	if c.Via == "encoding" {
		key, enc = "Accept-Encoding", "Accept-Encoding"
	}
	specs, pan := runParse(p, key)
	t.evals++
	if cl, what := judgeParsed("ParseAccept", &c, p, specs, pan); cl != "" {
		fail(cl, what, Case{Via: "parse1", Absent: c.Absent, Lines: c.Lines, WS: c.WS, Default: enc})
	}
	specs, pan = runParse2(p, key)
	t.evals++
	if cl, what := judgeParsed("ParseAccept2", &c, p, specs, pan); cl != "" {
		fail(cl, what, Case{Via: "parse2", Absent: c.Absent, Lines: c.Lines, WS: c.WS, Default: enc})
	}
	if p.structured && p.may == "" && !p.absent {
		t.nontrivial += 2
	}
}

// ---- Context.BindValidRequest (typed servers): the format check ----

type countingBinder struct{ calls int }

func (b *countingBinder) BindRequest(*http.Request, *middleware.MatchedRoute) error {
	b.calls++
	return nil
}

type bindResult struct {
	code  int // 0: no error; else the code of the first nested error (or of the error)
	binds int
	pan   string
}

func (b bindResult) String() string {
	if b.pan != "" {
		return "panic: " + b.pan
	}
	return fmt.Sprintf("error code %d, binder calls %d", b.code, b.binds)
}

func runBindValid(a *api, p *prepared) (res bindResult) {
	defer func() {
		if e := recover(); e != nil {
			res.pan = fmt.Sprint(e)
		}
	}()
	req := newReq("Accept", p)
	route, ok := a.ctx.LookupRoute(req)
	if !ok {
		res.pan = "route not found"
		return res
	}
	b := &countingBinder{}
	err := a.ctx.BindValidRequest(req, route, b)
	res.binds = b.calls
	if err != nil {
		res.code = -1
		if ce, ok := err.(*errors.CompositeError); ok && len(ce.Errors) > 0 {
			err = ce.Errors[0]
		}
		if e, ok := err.(errors.Error); ok {
			res.code = int(e.Code())
		}
	}
	return res
}

// judgeBindValid: a body-less request whose Accept header admits none of the route's types
// is refused with 406 and the binder does not run; otherwise no error and one binder call.
func judgeBindValid(p *prepared, a *api, produces []string, def string, res bindResult) (class, what string) {
	ctx := fmt.Sprintf("BindValidRequest: Accept %s produces %q (as routed %q) API default %q: %s", headerText(p), produces, a.routeProduces, def, res)
	if res.pan != "" {
		return "bindvalid-panic" + suffix(p), ctx
	}
	switch {
	case res.code == 406 && res.binds == 0, res.code == 0 && res.binds == 1:
	default:
		return "bindvalid-inconsistent" + suffix(p), ctx + "; expected either 406 without binding or no error with one binder call"
	}
	e := expectType(p, parseOffers(a.routeProduces), "")
	if e.anyMember {
		return "", ""
	}
	noneAll := e.n == 1 && e.allowed[0] == ""
	someAll := !e.has("")
	switch {
	case noneAll && res.code != 406:
		return "bindvalid-406-missing" + suffix(p), ctx + "; the Accept header admits none of the route's types: expected 406"
	case someAll && res.code == 406:
		return "bindvalid-406-spurious" + suffix(p), ctx + fmt.Sprintf("; the Accept header admits %s: expected no error", e)
	}
	return "", ""
}
