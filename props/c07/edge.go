package main

// Edge values: rare but legal values of every axis, judged by the same reference.
//   - q: more than three fractional digits where they matter, positive values below 0.001,
//     differences of 1e-10, digit strings at integer bounds (in the q alphabets of main.go)
//   - ranges / offers: '.', '-', '+' in type names, a 2000-byte subtype
//   - parameter names: '.', '-', names that are prefixes of each other or differ in case
//     only, names starting with q (q1, qs)
//   - quoted parameter values: multi-byte runes (also beyond the BMP), invalid UTF-8,
//     U+FEFF / U+2028, text that looks like syntax (%s ; = , { } \ "), 20000 bytes
//   - judged for totality and membership only (the text does not fix their meaning):
//     q spellings with sign / exponent / other digits / leading zeros, upper case types
//   - header-line lists and offer lists that are nil, empty, or hold empty strings

import (
	"strings"

	"verif/engine/report"
)

func edgeSweeps(r *report.R, defs []string) {
	long := "a/" + strings.Repeat("b", 2000)
	ranges := []string{"a/b", "x.y/z-w+v", long, "*/*"}
	qs := []string{"", "0", "0.5", "0.0005", "0.5001", "0.5009"}
	pres := [][]string{nil, {"a.b=1"}, {"a-b=1"}, {"a=1", "ab=2"}, {"a=1", "A=2"}, {"q1=0"}, {"qs=0"},
		{"a=\"é\""}, {"a=\"\xff,\\\"\U0001F600\""}, {`a="%s;=\\{}"`}, {"a=\"\ufeff\u2028\""}, {`a="` + strings.Repeat("x", 20000) + `"`}}
	elems := elemProduct(ranges, qs, pres, [][]string{nil})
	partners := []Elem{{Range: "a/b", Q: "0.5"}, {Range: "*/*", Q: "0.5009"}, {Range: "x.y/z-w+v"}}
	var seqs [][]Elem
	for _, e := range elems {
		seqs = append(seqs, []Elem{e})
		for _, p := range partners {
			seqs = append(seqs, []Elem{e, p}, []Elem{p, e})
		}
	}
	offers := offerLists([]string{"a/b", "x.y/z-w+v", long, "c/d"}, 2)
	typeSweep(r, "edge-values", false, space{elems: elems, wss: []int{0, 3}, allSplits: true, explicit: seqs}, offers, defs)
	r.Set("edge_params_before_q", len(pres))

	// meaning not fixed by the text: totality and membership only
	qOdd := []string{"-0", "+0.5", "1e400", "1e-1", "0x1", "00.5", "01", "1.0001", "2", "0,5", "NaN", "Inf", ".5", "٠.٥", "0.5.1", "0.-5"}
	odd := elemProduct([]string{"a/b", "*/*", "A/B", "a/B"}, append([]string{"", "0.5"}, qOdd...), [][]string{nil, {"Q=0"}}, [][]string{nil})
	typeSweep(r, "edge-values-meaning-open", false, headers(odd, 1, 2, []int{1}, false, func(seq []Elem, ws, nLines int) bool {
		for _, e := range seq { // at least one odd feature, otherwise the header belongs to another sweep
			if strings.ToLower(e.Range) != e.Range || len(e.Pre) > 0 || (e.Q != "" && e.Q != "0.5") {
				return true
			}
		}
		return false
	}), offerLists([]string{"a/b", "A/B", "c/d"}, 2), defs)
	r.Set("q_spellings_meaning_open", qOdd)

	// nil / empty / empty-string collections
	rawSweep(r, "edge-header-lists", rawSpace{alpha: []string{"(explicit)"}, l2: -1, explicit: [][]string{{}, {""}, {" "}, {"", ""}, {"a/a", ""}, {"", "a/a"}, {" ", "a/a"}, {"a/a", "a/a"}}})
	var t tally
	for _, lines := range [][]string{{}, {""}, {"*/*"}, {"a/a"}} {
		for _, ofs := range [][]string{nil, {}, {""}, {"", "a/a"}, {"a/a", ""}} {
			for _, def := range defs {
				c := Case{Via: "type", Raw: lines, Offers: ofs, Default: def}
				cl, what := check(c)
				t.evals++
				if cl != "" {
					r.Fail(cl, what, c)
				}
			}
			c := Case{Via: "encoding", Raw: lines, Offers: ofs}
			cl, what := check(c)
			t.evals++
			if cl != "" {
				r.Fail(cl, what, c)
			}
		}
	}
	t.flush(r, "")
}
