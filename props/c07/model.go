package main

// Abstract Accept / Accept-Encoding values, their concrete renderings, and the
// reference negotiation written from the property text (DESIGN.md A.3).
// Nothing in this file parses a header: the oracle is computed from the
// abstract value with exact rationals.

import (
	"fmt"
	"math/big"
	"net/http"
	"sort"
	"strings"
)

// Elem is one element of an abstract header value.
type Elem struct {
	Range string   `json:"range"`          // media range a/b, a/*, */* (or a content coding for via=encoding)
	Pre   []string `json:"pre,omitempty"`  // media-type parameters written before q, literal name=value text
	Q     string   `json:"q,omitempty"`    // spelling after "q="; "" = no q parameter (quality 1)
	Post  []string `json:"post,omitempty"` // accept-ext parameters written after q, literal text
}

// Case is one replayable case.
type Case struct {
	Via     string   `json:"via"`              // type | format | encoding | handler | parse
	Absent  bool     `json:"absent,omitempty"` // the header is not sent at all
	Lines   [][]Elem `json:"lines,omitempty"`  // abstract value: one element list per header line
	WS      int      `json:"ws,omitempty"`     // whitespace variant used to render Lines (0..3)
	Raw     []string `json:"raw,omitempty"`    // verbatim header lines (totality sweep); when set, Lines is ignored
	Offers  []string `json:"offers"`           // offers (via=handler: the operation's produces list)
	Default string   `json:"default"`          // default offer (via=handler: the API default media type); "" = none
	// via=history: Seq is executed in order in one process (handler steps on one shared API
	// instance per configuration); every step must give what it gives when run alone.
	Seq  []Case `json:"seq,omitempty"`
	Salt int    `json:"salt,omitempty"` // the range s<Salt>/s (coding s<Salt>), which matches no offer, is appended to every header of Seq
}

var (
	paramSep = [4]string{";", "; ", " ;", " \t; \t"}
	elemSep  = [4]string{",", ", ", " ,", " \t, \t"}
)

func (e Elem) render(ws int) string {
	sp := paramSep[ws&3]
	var b strings.Builder
	b.WriteString(e.Range)
	for _, p := range e.Pre {
		b.WriteString(sp)
		b.WriteString(p)
	}
	if e.Q != "" {
		b.WriteString(sp)
		b.WriteString("q=")
		b.WriteString(e.Q)
	}
	for _, p := range e.Post {
		b.WriteString(sp)
		b.WriteString(p)
	}
	return b.String()
}

func renderLine(elems []Elem, ws int) string {
	parts := make([]string, len(elems))
	for i, e := range elems {
		parts[i] = e.render(ws)
	}
	return strings.Join(parts, elemSep[ws&3])
}

// input predicates: the classes of known defects are named after them
const (
	fQLong     = 1 << iota // some q has 19 or more digits after the point
	fPost                  // some element has a parameter after q
	fQuotedQC              // some parameter before q is a quoted string containing "q=" or ","
	fNameEndsQ             // some parameter before q has a name of 2+ bytes ending in 'q'
)

func featureName(f uint) string {
	switch {
	case f&fQLong != 0:
		return "q-over-18-digits"
	case f&fPost != 0:
		return "param-after-q"
	case f&fQuotedQC != 0:
		return "quoted-param-with-q-or-comma"
	case f&fNameEndsQ != 0:
		return "param-name-ending-in-q"
	}
	return ""
}

// rng is one range of the abstract value as the reference sees it.
type rng struct {
	typ, sub string // "*" = wildcard; for encodings typ is the coding and sub is ""
	spec     int    // 0 = */* (or "*"), 1 = t/*, 2 = exact
	q        int    // rank of the exact rational among the header's distinct q values; 0 = quality zero
	pre      string // media-type parameters, "" when none
}

// prepared is a header ready to be executed and judged.
type prepared struct {
	absent     bool
	lines      []string // what is put in the header map
	structured bool     // false: verbatim bytes, only totality / membership is judged
	ranges     []rng
	anyPre     bool
	feat       uint
	may        string // non-empty: a reason why the text forces only membership for this header
	req        [2]*http.Request
}

var ten = big.NewInt(10)

// parseQ gives the exact number a q spelling denotes. ok=false for spellings outside
// ("0"|"1") ["." *DIGIT] - the check makes no claim about those.
func parseQ(s string) (v *big.Rat, fracDigits int, ok bool) {
	if s == "" {
		return big.NewRat(1, 1), 0, true
	}
	if s[0] != '0' && s[0] != '1' {
		return nil, 0, false
	}
	v = big.NewRat(int64(s[0]-'0'), 1)
	if len(s) == 1 {
		return v, 0, true
	}
	if s[1] != '.' {
		return nil, 0, false
	}
	frac := s[2:]
	for i := 0; i < len(frac); i++ {
		if frac[i] < '0' || frac[i] > '9' {
			return nil, 0, false
		}
	}
	if len(frac) == 0 {
		return v, 0, true
	}
	n, _ := new(big.Int).SetString(frac, 10)
	d := new(big.Int).Exp(ten, big.NewInt(int64(len(frac))), nil)
	return v.Add(v, new(big.Rat).SetFrac(n, d)), len(frac), true
}

var nearTie = big.NewRat(1, 1_000_000_000_000) // 1e-12: an implementation may keep 12 exact decimal digits of q and no more
var one = big.NewRat(1, 1)

func paramFeatures(p string) uint {
	var f uint
	name, val, _ := strings.Cut(p, "=")
	if strings.HasPrefix(val, `"`) {
		if strings.Contains(val, "q=") || strings.Contains(val, ",") {
			f |= fQuotedQC
		}
	}
	if len(name) > 1 && strings.HasSuffix(name, "q") {
		f |= fNameEndsQ
	}
	return f
}

func prepare(c *Case) *prepared {
	p := &prepared{absent: c.Absent}
	if c.Absent {
		p.structured = true
		return p
	}
	if c.Raw != nil {
		p.lines = c.Raw
		return p
	}
	p.structured = true
	var qs []*big.Rat
	for _, line := range c.Lines {
		p.lines = append(p.lines, renderLine(line, c.WS))
		for _, e := range line {
			q, digits, ok := parseQ(e.Q)
			switch {
			case !ok:
				p.may = "q spelling outside (0|1)[.digits]"
				q = one
			case q.Cmp(one) > 0:
				p.may = "q denotes a number above 1"
			}
			if digits >= 19 {
				p.feat |= fQLong
			}
			if len(e.Post) > 0 {
				p.feat |= fPost
				if e.Q == "" {
					p.may = "parameter after q without q"
				}
			}
			for _, pp := range e.Pre {
				p.feat |= paramFeatures(pp)
				if n, _, _ := strings.Cut(pp, "="); strings.EqualFold(n, "q") {
					p.may = "a parameter named q or Q before q: the text does not say whether Q is the quality"
				}
			}
			r := rng{pre: strings.Join(e.Pre, ";")}
			if r.pre != "" {
				p.anyPre = true
			}
			if c.Via == "encoding" {
				r.typ = e.Range
				r.spec = 2
				if e.Range == "*" {
					r.spec = 0
				}
			} else {
				var found bool
				r.typ, r.sub, found = strings.Cut(e.Range, "/")
				switch {
				case !found || r.typ == "" || r.sub == "" || (r.typ == "*" && r.sub != "*"):
					p.may = "not a media range"
				case r.typ == "*":
					r.spec = 0
				case r.sub == "*":
					r.spec = 1
				default:
					r.spec = 2
				}
			}
			if strings.ToLower(e.Range) != e.Range {
				p.may = "upper case in a range: the text does not say whether types compare case-insensitively"
			}
			p.ranges = append(p.ranges, r)
			qs = append(qs, q)
		}
	}
	if len(p.ranges) == 0 {
		p.may = "header present without any range"
	}
	// rank the distinct q values exactly
	uniq := append([]*big.Rat(nil), qs...)
	sort.Slice(uniq, func(i, j int) bool { return uniq[i].Cmp(uniq[j]) < 0 })
	k := 0
	for i, v := range uniq {
		if i == 0 || v.Cmp(uniq[k-1]) != 0 {
			uniq[k] = v
			k++
		}
	}
	uniq = uniq[:k]
	zero := new(big.Rat)
	for i := 1; i < len(uniq); i++ {
		if new(big.Rat).Sub(uniq[i], uniq[i-1]).Cmp(nearTie) < 0 {
			p.may = "two distinct q values closer than 1e-12"
		}
	}
	if len(uniq) > 0 && uniq[0].Sign() > 0 && uniq[0].Cmp(nearTie) < 0 {
		p.may = "positive q below 1e-12"
	}
	for i, q := range qs {
		if q.Cmp(zero) == 0 {
			p.ranges[i].q = 0
			continue
		}
		for j, v := range uniq {
			if v.Cmp(q) == 0 {
				p.ranges[i].q = j + 1
			}
		}
	}
	return p
}

// ---- offers ----

type offer struct {
	raw, typ, sub, params string
	upper                 bool // upper case in the media type: matching is not fixed by the text
}

func parseOffer(raw string) offer {
	o := offer{raw: raw}
	mt := raw
	if i := strings.IndexByte(raw, ';'); i >= 0 {
		mt = raw[:i]
		o.params = strings.TrimSpace(raw[i+1:])
	}
	o.typ, o.sub, _ = strings.Cut(strings.TrimSpace(mt), "/")
	o.upper = strings.ToLower(mt) != mt
	return o
}

func parseOffers(raw []string) []offer {
	out := make([]offer, len(raw))
	for i, r := range raw {
		out[i] = parseOffer(r)
	}
	return out
}

func (r *rng) matchesType(o *offer) bool {
	switch r.spec {
	case 0:
		return true
	case 1:
		return r.typ == o.typ
	}
	return r.typ == o.typ && r.sub == o.sub
}

// refType is the reference of the property text: the first offer whose best
// (q, specificity) over the matching ranges of positive quality is maximal; the
// default if no offer is matched. strict selects the reading in which a range
// that carries media-type parameters matches only offers carrying the same
// parameters (and is then more specific than a bare exact range); the text does
// not say which reading applies, so both answers are admissible.
// Returns the index of the chosen offer (-1 for the default), the specificity of the
// deciding range, and whether any range (of any quality) matched any offer.
func refType(p *prepared, offers []offer, strict bool) (best, bestS int, matched bool) {
	best, bestS = -1, -1
	bestQ := 0
	for i := range offers {
		o := &offers[i]
		for k := range p.ranges {
			r := &p.ranges[k]
			if !r.matchesType(o) {
				continue
			}
			matched = true
			if r.q == 0 {
				continue
			}
			s := r.spec
			if strict && r.pre != "" {
				if r.pre != o.params {
					continue
				}
				s = 3
			}
			if r.q > bestQ || (r.q == bestQ && s > bestS) {
				best, bestQ, bestS = i, r.q, s
			}
		}
	}
	return best, bestS, matched
}

// verdict of the reference for NegotiateContentType-like entry points
type expect struct {
	anyMember bool      // only membership in offers+default is forced
	allowed   [2]string // admissible answers (n of them)
	n         int
	why       string
	kind      int  // outcome kind of the reference answer (kDefault...)
	matched   bool // some range matched some offer: the selection had a candidate
}

const (
	kMay = iota
	kNoHeader
	kDefault
	kFullWildcard
	kSubtypeWildcard
	kExact
	kExactWithParams
	nKinds
)

var kindName = [nKinds]string{"may:text-forces-only-membership", "first-offer:no-header", "default:nothing-acceptable",
	"offer:by-*/*", "offer:by-type/*", "offer:by-exact-range", "offer:by-exact-range-with-params"}

func (e *expect) add(s string) {
	for i := 0; i < e.n; i++ {
		if e.allowed[i] == s {
			return
		}
	}
	if e.n < len(e.allowed) {
		e.allowed[e.n] = s
		e.n++
	}
}

func (e *expect) has(s string) bool {
	for i := 0; i < e.n; i++ {
		if e.allowed[i] == s {
			return true
		}
	}
	return false
}

func expectType(p *prepared, offers []offer, def string) expect {
	var e expect
	if !p.structured || p.may != "" {
		e.anyMember = true
		e.why = p.may
		return e
	}
	for i := range offers {
		if offers[i].upper && !p.absent {
			e.anyMember = true
			e.why = "upper case in an offer"
			return e
		}
	}
	if p.absent {
		e.why = "no header: first offer"
		e.kind = kNoHeader
		if len(offers) > 0 {
			e.add(offers[0].raw)
		} else {
			e.add(def)
		}
		return e
	}
	pick := func(i int) string {
		if i < 0 {
			return def
		}
		return offers[i].raw
	}
	i, s, m := refType(p, offers, false)
	e.add(pick(i))
	e.matched = m
	e.kind = kDefault
	if i >= 0 {
		e.kind = kFullWildcard + s
	}
	if p.anyPre {
		i, _, _ = refType(p, offers, true)
		e.add(pick(i))
	}
	return e
}

// describeType explains why got is wrong (fine-grained symptom for the report text).
func describeType(p *prepared, offers []offer, def, got string) string {
	idx := -1
	for i := range offers {
		if offers[i].raw == got {
			idx = i
			break
		}
	}
	if idx < 0 {
		return "the default was returned although an offer is acceptable"
	}
	o := &offers[idx]
	bq, bs, zero := 0, -1, false
	for k := range p.ranges {
		r := &p.ranges[k]
		if !r.matchesType(o) {
			continue
		}
		if r.q == 0 {
			zero = true
			continue
		}
		if r.q > bq || (r.q == bq && r.spec > bs) {
			bq, bs = r.q, r.spec
		}
	}
	ref, _, _ := refType(p, offers, false)
	switch {
	case bq == 0 && zero:
		return "the returned offer is matched only by ranges of quality 0"
	case bq == 0:
		return "the returned offer is matched by no range"
	case ref < 0:
		return "unexpected"
	}
	rq, rs := 0, -1
	for k := range p.ranges {
		r := &p.ranges[k]
		if r.q > 0 && r.matchesType(&offers[ref]) && (r.q > rq || (r.q == rq && r.spec > rs)) {
			rq, rs = r.q, r.spec
		}
	}
	switch {
	case bq < rq:
		return "an offer matched with a smaller q outranks one matched with a larger q"
	case bs < rs:
		return "equal q: an offer matched by a less specific range outranks one matched by a more specific range"
	}
	return "equal q and specificity: a later offer outranks an earlier one"
}

// ---- encodings ----

// expectEncoding: the text only forces, for Accept-Encoding, totality, membership and
// the ordering by q. Admissible: the first offer of maximal positive q (offer order),
// or the first such offer matched by an exact coding when specificity is used as the
// first tie-break. Without a positive match: "" or "identity".
func expectEncoding(p *prepared, offers []string) (e expect) {
	if !p.structured || p.may != "" || p.absent {
		e.anyMember = true
		e.why = p.may
		return e
	}
	bestQ := 0
	type m struct{ q, spec int }
	per := make([]m, len(offers))
	for i, o := range offers {
		zeroExact := false
		for k := range p.ranges {
			r := &p.ranges[k]
			if r.typ != "*" && r.typ != o {
				continue
			}
			if r.q == 0 {
				if r.spec == 2 {
					zeroExact = true
				}
				continue
			}
			if r.q > per[i].q || (r.q == per[i].q && r.spec > per[i].spec) {
				per[i] = m{r.q, r.spec}
			}
		}
		if zeroExact && per[i].q > 0 {
			// refused by name and admitted by the wildcard: RFC 7231 and "highest q wins" disagree
			e.anyMember = true
			e.why = "coding refused by name but admitted by *"
			return e
		}
		if per[i].q > bestQ {
			bestQ = per[i].q
		}
	}
	for i := range offers {
		for k := range p.ranges {
			if p.ranges[k].typ == "*" || p.ranges[k].typ == offers[i] {
				e.matched = true
			}
		}
	}
	e.kind = kDefault
	if bestQ == 0 {
		e.add("")
		e.add("identity")
		return e
	}
	first, firstExact := -1, -1
	for i := range offers {
		if per[i].q == bestQ {
			if first < 0 {
				first = i
			}
			if firstExact < 0 && per[i].spec == 2 {
				firstExact = i
			}
		}
	}
	e.add(offers[first])
	e.kind = kFullWildcard
	if per[first].spec == 2 {
		e.kind = kExact
	}
	if firstExact >= 0 {
		e.add(offers[firstExact])
	}
	return e
}

func (e expect) String() string {
	if e.anyMember {
		return "any offer or the default (" + e.why + ")"
	}
	return fmt.Sprintf("%q", e.allowed[:e.n])
}
