package main

// Long headers: N ranges of which exactly one decides (all others match no offer, have
// quality 0, or match with a lower quality), the decider last, in the middle or first,
// the ranges on one line or spread over several header lines. Expected values come from
// the same reference as everywhere else.

import (
	"fmt"

	"verif/engine/report"
)

var longNs = []int{31, 32, 33, 34, 40, 64, 65, 100, 129, 257, 1000}

// layouts: ranges per header line (0 = all on one line; -1 = the decider alone on its own line)
var longLayouts = []int{0, 1, 10, -1}

func longLines(filler, decider Elem, n, pos, layout int) [][]Elem {
	all := make([]Elem, n)
	for i := range all {
		all[i] = filler
	}
	all[pos] = decider
	switch {
	case layout == 0:
		return [][]Elem{all}
	case layout < 0:
		var lines [][]Elem
		if pos > 0 {
			lines = append(lines, all[:pos])
		}
		lines = append(lines, all[pos:pos+1])
		if pos+1 < n {
			lines = append(lines, all[pos+1:])
		}
		return lines
	}
	var lines [][]Elem
	for i := 0; i < n; i += layout {
		j := i + layout
		if j > n {
			j = n
		}
		lines = append(lines, all[i:j])
	}
	return lines
}

func longSweep(r *report.R) {
	type fam struct {
		via     string
		fillers []Elem
		decider Elem
		offers  [][]string
		defs    []string
	}
	fams := []fam{
		{"type", []Elem{{Range: "z/z"}, {Range: "a/c", Q: "0"}, {Range: "*/*", Q: "0.1"}}, Elem{Range: "a/c", Q: "0.9"},
			[][]string{{"a/b", "a/c"}, {"a/c"}, {"a/c", "a/b"}, {"c/d"}}, []string{"", "d/d"}},
		{"format", []Elem{{Range: "z/z"}, {Range: "a/c", Q: "0"}, {Range: "*/*", Q: "0.1"}}, Elem{Range: "a/c", Q: "0.9"},
			[][]string{{"a/b", "a/c"}, {"a/c"}, {"a/c", "a/b"}, {"c/d"}}, []string{""}},
		{"encoding", []Elem{{Range: "zz"}, {Range: "identity", Q: "0"}, {Range: "*", Q: "0.1"}}, Elem{Range: "br", Q: "0.9"},
			[][]string{{"gzip", "br"}, {"br"}}, []string{""}},
		// handler: produces lists; the API default (c/d) last / absent
		{"handler", []Elem{{Range: "z/z"}, {Range: "a/c", Q: "0"}, {Range: "*/*", Q: "0.1"}}, Elem{Range: "a/c", Q: "0.9"},
			[][]string{{"a/b", "a/c"}, {"a/c"}, {"a/b"}}, []string{"", "c/d"}},
	}
	var cases []Case
	for _, f := range fams {
		for _, n := range longNs {
			for _, fl := range f.fillers {
				for _, pos := range []int{n - 1, n / 2, 0} {
					for _, layout := range longLayouts {
						for _, o := range f.offers {
							for _, d := range f.defs {
								cases = append(cases, Case{Via: f.via, Lines: longLines(fl, f.decider, n, pos, layout), WS: 1, Offers: o, Default: d})
							}
						}
					}
				}
			}
		}
	}
	// handler cases share one API instance per configuration
	apis := map[string]*api{}
	for i := range cases {
		if c := &cases[i]; c.Via == "handler" && apis[apiKey(c)] == nil {
			apis[apiKey(c)] = buildAPI(c.Offers, c.Default)
		}
	}
	var t tally
	for i := range cases {
		c := cases[i]
		var cl, what string
		var e expect
		if c.Via == "handler" {
			p := prepare(&c)
			res := runHandler(apis[apiKey(&c)], p)
			if res.undelivered != "" {
				t.add("long/undeliverable-by-net/http")
				continue
			}
			cl, what, e = judgeHandler(p, apis[apiKey(&c)], c.Offers, c.Default, res)
			t.add(fmt.Sprintf("long/handler-%d", res.status))
		} else {
			cl, what, _, e = checkFull(c)
			if e.kind == kDefault {
				t.add("long/" + c.Via + ":default")
			} else {
				t.add("long/" + c.Via + ":offer")
			}
		}
		t.evals++
		if !e.anyMember {
			t.nontrivial++
		}
		if cl != "" {
			if len(what) > 600 {
				what = what[:300] + " ... " + what[len(what)-280:]
			}
			r.Fail(cl+"/long-header", what, c)
		}
	}
	t.flush(r, "")
	r.Set("sweep_long_headers", map[string]any{"ranges_per_header": longNs, "cases": len(cases),
		"fillers":          "no offer matched (z/z) | same type with q=0 | */* with lower q (encoding: zz | identity;q=0 | *;q=0.1)",
		"decider_position": "last, middle, first", "ranges_per_line": "all on one line, 1, 10, decider alone on its line",
		"entry_points": "type (4 offer lists x 2 defaults), format, encoding (2 offer lists), handler (3 produces lists x API default present/absent)"})
}
