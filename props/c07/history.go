package main

// History dimension: negotiation must not depend on what was negotiated before in the
// same process (process-wide state: caches, pools, memoised outcomes) nor on what the
// same API instance served before. Differential oracle: a step executed after other
// steps must give exactly what it gives when run alone; no expected values are needed
// (the steps are also judged by the reference, like any other case).
//
// "Alone" for process-wide state: every sequence carries its own salt, a range
// s<N>/s (coding s<N>) appended to each header. It matches no offer, so it is neutral
// under every reading of the text, and it makes the header text unique per sequence, so
// state keyed on the inputs cannot leak from one sequence into another.

import (
	"fmt"
	"strings"
	"time"

	"verif/engine/report"
)

func salted(step Case, salt int) Case {
	c := step
	if c.Absent || len(c.Lines) == 0 {
		return c
	}
	e := Elem{Range: fmt.Sprintf("s%d/s", salt)}
	if c.Via == "encoding" {
		e.Range = fmt.Sprintf("s%d", salt)
	}
	// every line carries the salt: two requests of one sequence that share a line of the
	// alphabet still share it after salting
	lines := make([][]Elem, len(c.Lines))
	for i, l := range c.Lines {
		lines[i] = append(append([]Elem(nil), l...), e)
	}
	c.Lines = lines
	return c
}

func apiKey(c *Case) string { return strings.Join(c.Offers, "|") + "||" + c.Default }

// observe executes one (salted) step; shared == nil: handler steps get a fresh API instance.
func observe(c Case, shared map[string]*api) (obs, class, what string) {
	p := prepare(&c)
	switch c.Via {
	case "type":
		got, pan := runType(p, c.Offers, c.Default)
		class, what, _ = judgeType("NegotiateContentType", p, parseOffers(c.Offers), c.Offers, c.Default, got, pan)
		obs = fmt.Sprintf("%q %s", got, pan)
	case "format":
		got, pan := runFormat(p, c.Offers)
		class, what, _ = judgeType("Context.ResponseFormat", p, parseOffers(c.Offers), c.Offers, "", got, pan)
		obs = fmt.Sprintf("%q %s", got, pan)
	case "encoding":
		got, pan := runEncoding(p, c.Offers)
		class, what, _ = judgeEncoding(p, c.Offers, got, pan)
		obs = fmt.Sprintf("%q %s", got, pan)
	case "handler":
		var a *api
		if shared != nil {
			a = shared[apiKey(&c)]
		}
		if a == nil {
			a = buildAPI(c.Offers, c.Default)
			if shared != nil {
				shared[apiKey(&c)] = a
			}
		}
		res := runHandler(a, p)
		if res.undelivered != "" {
			return "undeliverable", "", ""
		}
		class, what, _ = judgeHandler(p, a, c.Offers, c.Default, res)
		obs = res.String()
	default:
		return "", "bad-case", "history step with via " + c.Via
	}
	return obs, class, what
}

const soloSaltBase = 1 << 24

// checkHistory runs c.Seq with salt c.Salt on shared state and compares every step with
// its solo run. solos: precomputed solo observations (nil: computed here, each with its
// own salt and, for handler steps, a fresh API instance).
func checkHistory(c Case, shared map[string]*api, solos []string) (class, what string, nEval int64) {
	if solos == nil {
		solos = make([]string, len(c.Seq))
		for i, st := range c.Seq {
			var cl, w string
			solos[i], cl, w = observe(salted(st, soloSaltBase+c.Salt*8+i), nil)
			nEval++
			if cl != "" {
				return cl, "run alone: " + w, nEval
			}
		}
	}
	if shared == nil {
		shared = map[string]*api{}
	}
	var trace []string
	for i, st := range c.Seq {
		sc := salted(st, c.Salt)
		obs, cl, w := observe(sc, shared)
		nEval++
		trace = append(trace, fmt.Sprintf("%s %s offers %q default %q -> %s", sc.Via, headerText(prepare(&sc)), sc.Offers, sc.Default, obs))
		if obs != solos[i] {
			return "history-dependent/" + st.Via, fmt.Sprintf("step %d of the sequence [%s] gives %s, but %s when run alone", i+1, strings.Join(trace, "; "), obs, solos[i]), nEval
		}
		if cl != "" { // same as alone and still wrong: an ordinary failure, replayable on its own
			return cl, w, nEval
		}
	}
	return "", "", nEval
}

// historyAlphabet: cases chosen to collide. Header-line lists that share lines (L1 = a/b,
// L2 = a/c;q=0.5, L3 = c/d, each with a different best offer), the same header with
// different offers, the same header and offers with different defaults, four entry points.
// The lists with several lines come first (see the order of the sequences below).
func historyAlphabet() []Case {
	l1 := []Elem{{Range: "a/b"}}
	l2 := []Elem{{Range: "a/c", Q: "0.5"}}
	l3 := []Elem{{Range: "c/d"}}
	hs := []Case{
		{Lines: [][]Elem{l1, l2}, WS: 1},
		{Lines: [][]Elem{l2, l1}, WS: 1},
		{Lines: [][]Elem{l1, l2, l3}, WS: 1},
		{Lines: [][]Elem{l3, l2}, WS: 1},
		{Lines: [][]Elem{l1}, WS: 1},
		{Lines: [][]Elem{l2}, WS: 1},
		{Lines: [][]Elem{l3}, WS: 1},
		{Lines: [][]Elem{{{Range: "a/c", Q: "0.5"}, {Range: "*/*", Q: "0.1"}}}, WS: 1},
		{Lines: [][]Elem{{{Range: "a/b", Q: "0"}}}, WS: 1},
		{Absent: true},
	}
	offers := [][]string{{"a/c", "a/b"}, {"a/b"}, {"a/b", "a/c"}, nil}
	var out []Case
	add := func(h Case, via string, o []string, d string) {
		h.Via, h.Offers, h.Default = via, o, d
		out = append(out, h)
	}
	for _, h := range hs {
		for _, o := range offers {
			for _, d := range []string{"", "d/d", "e/e"} {
				add(h, "type", o, d)
			}
			add(h, "format", o, "")
		}
	}
	for _, h := range hs {
		add(h, "handler", []string{"a/b"}, "")    // routed [a/b]; Respond negotiates on [a/b ""]
		add(h, "handler", []string{"a/c"}, "a/b") // routed [a/c a/b]
	}
	g1 := []Elem{{Range: "gzip"}}
	g2 := []Elem{{Range: "br", Q: "0.5"}}
	g3 := []Elem{{Range: "identity"}}
	for _, h := range []Case{
		{Lines: [][]Elem{g1, g2}, WS: 1},
		{Lines: [][]Elem{g2, g1}, WS: 1},
		{Lines: [][]Elem{g1, g2, g3}, WS: 1},
		{Lines: [][]Elem{g1}, WS: 1},
		{Lines: [][]Elem{g2}, WS: 1},
		{Lines: [][]Elem{g3}, WS: 1},
		{Lines: [][]Elem{{{Range: "br", Q: "0.5"}, {Range: "*", Q: "0.1"}}}, WS: 1},
		{Lines: [][]Elem{{{Range: "gzip", Q: "0"}}}, WS: 1},
		{Absent: true},
	} {
		add(h, "encoding", []string{"br", "gzip"}, "")
		add(h, "encoding", []string{"gzip"}, "")
	}
	return out
}

// differ counts the attributes (entry point, header, offers, default) in which two cases differ.
func differ(a, b *Case) int {
	n := 0
	if a.Via != b.Via {
		n++
	}
	if a.Absent != b.Absent || fmt.Sprint(a.Lines) != fmt.Sprint(b.Lines) {
		n++
	}
	if strings.Join(a.Offers, "|") != strings.Join(b.Offers, "|") {
		n++
	}
	if a.Default != b.Default {
		n++
	}
	return n
}

// historySweep runs first (the process-wide state is then untouched) and sequentially
// (so that state which is not keyed on the inputs cannot make the run nondeterministic).
func historySweep(r *report.R, thorough bool) {
	t0 := time.Now()
	cases := historyAlphabet()
	n := len(cases)
	shared := map[string]*api{}
	salt := 0
	var t tally
	solos := make([]string, n)
	for i, st := range cases {
		salt++
		sc := salted(st, soloSaltBase+salt)
		var cl, w string
		solos[i], cl, w = observe(sc, nil)
		t.evals++
		if cl != "" {
			r.Fail(cl, w, sc)
		}
	}
	run := func(idx ...int) {
		salt++
		c := Case{Via: "history", Salt: salt}
		so := make([]string, len(idx))
		for k, i := range idx {
			c.Seq = append(c.Seq, cases[i])
			so[k] = solos[i]
		}
		cl, w, ne := checkHistory(c, shared, so)
		t.evals += ne
		t.nontrivial += ne - 1 // the steps executed after another step of the same sequence
		if cl != "" {
			r.Fail(cl, w, c)
			t.add("history/differs-from-solo-run")
		} else {
			t.add("history/same-as-solo-run")
		}
		if len(idx) == 2 && salt%3001 == 17 {
			r.Sample(map[string]any{"case": c, "observed": "every step as when run alone"})
		}
	}
	// all ordered pairs. First those that differ in at most one attribute (they collide on
	// everything else), case by case in list order, so that state of bounded size is
	// exercised before the salted sequences have filled it; then the others by increasing
	// distance in the case list.
	near := make([][]bool, n)
	for a := 0; a < n; a++ {
		near[a] = make([]bool, n)
		for b := 0; b < n; b++ {
			if differ(&cases[a], &cases[b]) <= 1 {
				near[a][b] = true
				run(a, b)
			}
		}
	}
	for d := 0; d < n; d++ {
		for a := 0; a < n; a++ {
			if b := (a + d) % n; !near[a][b] {
				run(a, b)
			}
		}
	}
	// the whole list as one history, forward and backward
	fwd := make([]int, n)
	bwd := make([]int, n)
	for i := range fwd {
		fwd[i], bwd[i] = i, n-1-i
	}
	run(fwd...)
	run(bwd...)
	triples := 0
	if thorough {
		// all ordered triples of a sub-alphabet: every header, offers [a/c a/b] and [a/b],
		// defaults "" and d/d, entry points type / format / encoding
		var small []int
		for i, c := range cases {
			if c.Via != "handler" && len(c.Offers) > 0 && c.Offers[len(c.Offers)-1] != "a/c" && c.Default != "e/e" {
				small = append(small, i)
			}
		}
		m := len(small)
		for d1 := 0; d1 < m && !r.OutOfTime(); d1++ {
			for d2 := 0; d2 < m; d2++ {
				for a := 0; a < m; a++ {
					run(small[a], small[(a+d1)%m], small[(a+d1+d2)%m])
					triples++
				}
			}
		}
	}
	t.flush(r, "")
	r.Set("sweep_history", map[string]any{"case_alphabet": n, "entry_points": "type 120 (10 header-line lists sharing lines x 4 offer lists x 3 defaults), format 40, handler 20 (2 API configurations x 10 headers, one shared instance each), encoding 18 (9 headers x 2 offer lists)",
		"ordered_pairs": n * n, "whole_list_forward_and_backward": 2, "ordered_triples_of_sub_alphabet": triples, "wall_s": time.Since(t0).Seconds()})
}
