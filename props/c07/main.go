// C07 - Accept negotiation picks the best acceptable offer and only an offer.
//
// Bounded exhaustive enumeration (E1) of abstract Accept / Accept-Encoding values
// (ranges x exact rational q x parameters before/after q), rendered in several
// whitespace spellings and header-line splits, x ordered offer lists x default,
// executed on the real NegotiateContentType / Context.ResponseFormat /
// NegotiateContentEncoding / header.ParseAccept and through the full API handler,
// compared with the reference of model.go. Plus a totality sweep over every short
// byte string.
package main

import (
	"fmt"
	"strings"
	"sync/atomic"
	"time"

	"verif/engine/enum"
	"verif/engine/report"
)

// ---- judging ----

func suffix(p *prepared) string {
	if p.structured && p.feat != 0 {
		return "/" + featureName(p.feat)
	}
	return ""
}

func headerText(p *prepared) string {
	if p.absent {
		return "(no header)"
	}
	return fmt.Sprintf("%q", p.lines)
}

func judgeType(via string, p *prepared, offers []offer, raw []string, def, got, pan string) (class, what string, e expect) {
	e = expectType(p, offers, def)
	if pan != "" {
		return "panic" + suffix(p), fmt.Sprintf("%s: Accept %s offers %q default %q: panic: %s", via, headerText(p), raw, def, pan), e
	}
	member := got == def
	for _, o := range raw {
		if o == got {
			member = true
		}
	}
	if !member {
		return "not-an-offer" + suffix(p), fmt.Sprintf("%s: Accept %s offers %q default %q: returned %q, which is neither an offer nor the default", via, headerText(p), raw, def, got), e
	}
	if e.anyMember || e.has(got) {
		return "", "", e
	}
	if p.absent {
		return "no-header-not-first-offer", fmt.Sprintf("%s: no Accept header, offers %q default %q: returned %q, expected %s", via, raw, def, got, e), e
	}
	return "wrong-choice" + suffix(p), fmt.Sprintf("%s: Accept %s offers %q default %q: returned %q, expected %s: %s", via, headerText(p), raw, def, got, e, describeType(p, offers, def, got)), e
}

func judgeEncoding(p *prepared, offers []string, got, pan string) (class, what string, e expect) {
	e = expectEncoding(p, offers)
	if pan != "" {
		return "panic" + suffix(p), fmt.Sprintf("encoding: Accept-Encoding %s offers %q: panic: %s", headerText(p), offers, pan), e
	}
	member := got == "" || got == "identity"
	for _, o := range offers {
		if o == got {
			member = true
		}
	}
	if !member {
		return "encoding-not-an-offer" + suffix(p), fmt.Sprintf("encoding: Accept-Encoding %s offers %q: returned %q, which is neither an offer nor identity nor empty", headerText(p), offers, got), e
	}
	if e.anyMember || e.has(got) {
		return "", "", e
	}
	return "wrong-encoding" + suffix(p), fmt.Sprintf("encoding: Accept-Encoding %s offers %q: returned %q, expected %s", headerText(p), offers, got, e), e
}

// handlerOffers: "its produces list plus the API's default type, last", over the produces
// list as the running instance holds it: the default is the last offer wherever (and
// whether) the operation declares it. asRouted is only shown in messages.
func handlerOffers(routeProduces []string, def string) (movedLast, asRouted []string) {
	for _, p := range routeProduces {
		if p != def {
			movedLast = append(movedLast, p)
		}
	}
	if def != "" {
		movedLast = append(movedLast, def)
	}
	return movedLast, routeProduces
}

func judgeHandler(p *prepared, a *api, produces []string, def string, res handlerResult) (class, what string, e expect) {
	o1, _ := handlerOffers(a.routeProduces, def)
	e = expectType(p, parseOffers(o1), "")
	ctx := fmt.Sprintf("handler: Accept %s produces %q (as routed %q) API default %q: %s", headerText(p), produces, a.routeProduces, def, res)
	if res.pan != "" {
		return "handler-panic" + suffix(p), ctx, e
	}
	inOffers := false
	for _, o := range o1 {
		if o == res.contentType {
			inOffers = true
		}
	}
	switch res.status {
	case 406:
		if res.calls != 0 {
			return "handler-ran-despite-406" + suffix(p), ctx + "; the operation handler must not run on a 406", e
		}
	case 200:
		if res.calls != 1 {
			return "handler-call-count" + suffix(p), ctx + "; expected exactly one call of the operation handler", e
		}
		if !inOffers {
			return "handler-content-type-not-an-offer" + suffix(p), ctx + "; the response type is not one of the offered types", e
		}
	default:
		return "handler-status" + suffix(p), ctx + "; expected 200 or 406", e
	}
	if e.anyMember {
		return "", "", e
	}
	// acceptability does not depend on the offer order, but may depend on the reading of
	// ranges that carry parameters
	noneAll := e.n == 1 && e.allowed[0] == ""
	someAll := !e.has("")
	switch {
	case noneAll && res.status != 406:
		return "handler-406-missing" + suffix(p), ctx + "; the Accept header admits none of the declared types: expected 406 and no handler call", e
	case someAll && res.status == 406:
		return "handler-406-spurious" + suffix(p), ctx + fmt.Sprintf("; the Accept header admits %s: expected 200", e), e
	case res.status == 200 && !e.has(res.contentType):
		return "handler-wrong-content-type" + suffix(p), ctx + fmt.Sprintf("; expected Content-Type %s (offers %q: the route's types, the API default last)", e, o1), e
	}
	return "", "", e
}

// check executes one case on the real code and judges it: "" or (class, what).
func check(c Case) (string, string) {
	cl, what, _, _ := checkFull(c)
	return cl, what
}

func checkFull(c Case) (class, what, observed string, e expect) {
	p := prepare(&c)
	switch c.Via {
	case "type":
		got, pan := runType(p, c.Offers, c.Default)
		class, what, e = judgeType("NegotiateContentType", p, parseOffers(c.Offers), c.Offers, c.Default, got, pan)
		observed = fmt.Sprintf("%q %s", got, pan)
	case "format":
		got, pan := runFormat(p, c.Offers)
		class, what, e = judgeType("Context.ResponseFormat", p, parseOffers(c.Offers), c.Offers, "", got, pan)
		observed = fmt.Sprintf("%q %s", got, pan)
	case "encoding":
		got, pan := runEncoding(p, c.Offers)
		class, what, e = judgeEncoding(p, c.Offers, got, pan)
		observed = fmt.Sprintf("%q %s", got, pan)
	case "handler":
		a := buildAPI(c.Offers, c.Default)
		res := runHandler(a, p)
		if res.undelivered != "" {
			return "", "", "net/http does not deliver this request: " + res.undelivered, expect{anyMember: true, why: "undeliverable"}
		}
		class, what, e = judgeHandler(p, a, c.Offers, c.Default, res)
		observed = res.String()
	case "parse":
		key := "Accept"
		if c.Default == "Accept-Encoding" {
			key = c.Default
		}
		specs, pan := runParse(p, key)
		observed = specsString(specs) + " " + pan
		e = expect{anyMember: true, why: "parser totality"}
		if pan != "" {
			class, what = "panic"+suffix(p), fmt.Sprintf("ParseAccept(%s %s): panic: %s", key, headerText(p), pan)
		}
	case "parse1", "parse2":
		class, what, observed = checkParser(c)
		e = expect{anyMember: true, why: "the reference negotiation over the returned specs must choose what the header admits; q order as numbers"}
	case "bindvalid":
		a := buildAPI(c.Offers, c.Default)
		res := runBindValid(a, p)
		class, what = judgeBindValid(p, a, c.Offers, c.Default, res)
		observed = res.String()
		e = expect{anyMember: true, why: "406 without binding iff the header admits none of the route's types"}
	case "history":
		class, what, _ = checkHistory(c, nil, nil)
		observed = "see below"
		e = expect{anyMember: true, why: "every step as when run alone"}
	default:
		return "bad-case", "unknown via " + c.Via, "", e
	}
	return class, what, observed, e
}

// ---- tallies ----

type tally struct {
	evals, nontrivial int64
	kinds             [nKinds]int64
	other             map[string]int64
}

func (t *tally) add(label string) {
	if t.other == nil {
		t.other = map[string]int64{}
	}
	t.other[label]++
}

func (t *tally) flush(r *report.R, prefix string) {
	r.Eval(t.evals)
	r.Nontrivial(t.nontrivial)
	for k, n := range t.kinds {
		if n > 0 {
			r.Outcome(prefix+kindName[k], n)
		}
	}
	for k, n := range t.other {
		r.Outcome(k, n)
	}
	*t = tally{}
}

// ---- enumeration helpers ----

type hdr struct {
	absent bool
	lines  [][]Elem
	ws     int
}

type offerList struct {
	raw    []string
	parsed []offer
}

func offerLists(alpha []string, maxLen int) []offerList {
	var out []offerList
	for _, seq := range enum.Seqs(len(alpha), 0, maxLen) {
		raw := make([]string, len(seq))
		for i, k := range seq {
			raw[i] = alpha[k]
		}
		out = append(out, offerList{raw, parseOffers(raw)})
	}
	return out
}

// splits: every way of cutting the element sequence into consecutive header lines
func splits(seq []Elem, all bool) [][][]Elem {
	n := len(seq)
	if n == 0 {
		return [][][]Elem{{{}}} // one empty line
	}
	if !all {
		return [][][]Elem{{seq}}
	}
	var out [][][]Elem
	for mask := 0; mask < 1<<(n-1); mask++ {
		var lines [][]Elem
		start := 0
		for i := 0; i < n-1; i++ {
			if mask&(1<<i) != 0 {
				lines = append(lines, seq[start:i+1])
				start = i + 1
			}
		}
		lines = append(lines, seq[start:])
		out = append(out, lines)
	}
	return out
}

// space: every sequence of minLen..maxLen elements x whitespace variants x line splits,
// enumerated lazily: item i is the i-th element sequence with all its renderings.
type space struct {
	elems          []Elem
	minLen, maxLen int
	wss            []int
	allSplits      bool
	keep           func(seq []Elem, ws int, nLines int) bool
	explicit       [][]Elem // when set: exactly these element sequences instead of all sequences over elems
}

func headers(elems []Elem, minLen, maxLen int, wss []int, allSplits bool, keep func(seq []Elem, ws int, nLines int) bool) space {
	return space{elems, minLen, maxLen, wss, allSplits, keep, nil}
}

func (s *space) n() int {
	if s.explicit != nil {
		return len(s.explicit)
	}
	total, p := 0, 1
	for l := 0; l <= s.maxLen; l++ {
		if l >= s.minLen {
			total += p
		}
		p *= len(s.elems)
	}
	return total
}

func (s *space) seq(i int) []Elem {
	if s.explicit != nil {
		return s.explicit[i]
	}
	p := 1
	for l := 0; l < s.minLen; l++ {
		p *= len(s.elems)
	}
	l := s.minLen
	for i >= p {
		i -= p
		p *= len(s.elems)
		l++
	}
	seq := make([]Elem, l)
	for k := l - 1; k >= 0; k-- {
		seq[k] = s.elems[i%len(s.elems)]
		i /= len(s.elems)
	}
	return seq
}

// each calls fn for every rendering of sequence i (distinct texts only).
func (s *space) each(i int, fn func(h *hdr)) {
	seq := s.seq(i)
	var seen map[string]bool // different whitespace variants can render the same text: keep one
	for _, sp := range splits(seq, s.allSplits) {
		for _, ws := range s.wss {
			if s.keep != nil && !s.keep(seq, ws, len(sp)) {
				continue
			}
			if len(s.wss) > 1 {
				var key strings.Builder
				for _, l := range sp {
					key.WriteString(renderLine(l, ws))
					key.WriteByte('\n')
				}
				if seen == nil {
					seen = map[string]bool{}
				}
				if seen[key.String()] {
					continue
				}
				seen[key.String()] = true
			}
			fn(&hdr{lines: sp, ws: ws})
		}
	}
}

func (s *space) expand() []hdr {
	var out []hdr
	for i, n := 0, s.n(); i < n; i++ {
		s.each(i, func(h *hdr) { out = append(out, *h) })
	}
	return out
}

func elemProduct(ranges, qs []string, pres, posts [][]string) []Elem {
	var out []Elem
	for _, rg := range ranges {
		for _, q := range qs {
			for _, pre := range pres {
				for _, post := range posts {
					if q == "" && len(post) > 0 {
						continue // accept-ext exists only after q
					}
					out = append(out, Elem{Range: rg, Pre: pre, Q: q, Post: post})
				}
			}
		}
	}
	return out
}

func rep(s string, n int) string { return strings.Repeat(s, n) }

const chunk = 32

// own wall-clock budget (never part of an oracle): when it trips the remaining sweeps are
// skipped and the run is reported exhaustive:false.
var (
	started   = time.Now()
	budget    time.Duration
	budgetCut atomic.Bool
)

func outOfBudget(r *report.R) func() bool {
	return func() bool {
		if r.OutOfTime() || time.Since(started) > budget {
			budgetCut.Store(true)
			return true
		}
		return false
	}
}

// parallelChunks runs fn over [0,n) in chunks on all cores; seed rotates the visiting order only.
func parallelChunks(r *report.R, n int, fn func(i int, t *tally), prefix string) {
	nch := (n + chunk - 1) / chunk
	rot := 0
	if nch > 0 {
		rot = int(uint64(r.Seed) % uint64(nch))
	}
	enum.Parallel(nch, outOfBudget(r), func(ci int) {
		ci = (ci + rot) % nch
		var t tally
		for i := ci * chunk; i < (ci+1)*chunk && i < n; i++ {
			fn(i, &t)
		}
		t.flush(r, prefix)
	})
}

// typeSweep: every header x every offer list x every default through NegotiateContentType
// (and through Context.ResponseFormat when the default is "").
func typeSweep(r *report.R, name string, withAbsent bool, sp space, ols []offerList, defs []string) {
	var nHeaders atomic.Int64
	var sampled atomic.Int32 // at most 2 samples per sweep
	one := func(h *hdr, i int, t *tally) {
		nHeaders.Add(1)
		c := Case{Via: "type", Absent: h.absent, Lines: h.lines, WS: h.ws}
		p := prepare(&c)
		parsersOnHeader(r.Fail, c, p, t)
		for oi := range ols {
			ol := &ols[oi]
			for _, def := range defs {
				got, pan := runType(p, ol.raw, def)
				cl, what, e := judgeType("NegotiateContentType", p, ol.parsed, ol.raw, def, got, pan)
				t.evals++
				t.kinds[e.kind]++
				if e.matched && !e.anyMember {
					t.nontrivial++
				}
				if cl != "" {
					cc := c
					cc.Offers, cc.Default = ol.raw, def
					r.Fail(cl, what, cc)
				}
				if def == "" {
					got, pan = runFormat(p, ol.raw)
					cl, what, e = judgeType("Context.ResponseFormat", p, ol.parsed, ol.raw, "", got, pan)
					t.evals++
					if e.matched && !e.anyMember {
						t.nontrivial++
					}
					if cl != "" {
						cc := c
						cc.Via, cc.Offers, cc.Default = "format", ol.raw, ""
						r.Fail(cl, what, cc)
					}
				}
			}
		}
		if len(ols) > 0 && (i+int(uint64(r.Seed)%499))%499 == 7 && sampled.Add(1) <= 2 {
			ol := &ols[(i*7)%len(ols)]
			cc := c
			cc.Offers, cc.Default = ol.raw, defs[0]
			got, _ := runType(p, ol.raw, defs[0])
			r.Sample(map[string]any{"case": cc, "header": p.lines, "observed": got})
		}
	}
	if withAbsent {
		var t tally
		one(&hdr{absent: true}, 1, &t)
		t.flush(r, "type/")
	}
	parallelChunks(r, sp.n(), func(i int, t *tally) {
		sp.each(i, func(h *hdr) { one(h, i, t) })
	}, "type/")
	r.Set("sweep_"+name, map[string]any{"element_alphabet": len(sp.elems), "min_ranges": sp.minLen, "max_ranges": sp.maxLen, "whitespace_variants": sp.wss, "all_line_splits": sp.allSplits,
		"headers": nHeaders.Load(), "offer_lists": len(ols), "defaults": len(defs)})
}

func encodingSweep(r *report.R, name string, withAbsent bool, sp space, ols [][]string) {
	var nHeaders atomic.Int64
	one := func(h *hdr, t *tally) {
		if n := nHeaders.Add(1); n == 700+r.Seed%100 && len(ols) > 5 {
			c := Case{Via: "encoding", Absent: h.absent, Lines: h.lines, WS: h.ws, Offers: ols[5]}
			_, _, observed, _ := checkFull(c)
			r.Sample(map[string]any{"case": c, "header": prepare(&c).lines, "observed": observed})
		}
		c := Case{Via: "encoding", Absent: h.absent, Lines: h.lines, WS: h.ws}
		p := prepare(&c)
		parsersOnHeader(r.Fail, c, p, t)
		for _, ol := range ols {
			got, pan := runEncoding(p, ol)
			cl, what, e := judgeEncoding(p, ol, got, pan)
			t.evals++
			t.kinds[e.kind]++
			if e.matched && !e.anyMember {
				t.nontrivial++
			}
			if cl != "" {
				cc := c
				cc.Offers = ol
				r.Fail(cl, what, cc)
			}
		}
	}
	if withAbsent {
		var t tally
		one(&hdr{absent: true}, &t)
		t.flush(r, "encoding/")
	}
	parallelChunks(r, sp.n(), func(i int, t *tally) {
		sp.each(i, func(h *hdr) { one(h, t) })
	}, "encoding/")
	r.Set("sweep_"+name, map[string]any{"element_alphabet": len(sp.elems), "min_ranges": sp.minLen, "max_ranges": sp.maxLen, "whitespace_variants": sp.wss, "all_line_splits": sp.allSplits,
		"headers": nHeaders.Load(), "offer_lists": len(ols)})
}

func handlerSweep(r *report.R, name string, configs []Case, hs []hdr) {
	var realised, builds atomic.Int64
	var sampled atomic.Int32
	enum.Parallel(len(configs), outOfBudget(r), func(ci int) {
		cfg := configs[ci]
		a := buildAPI(cfg.Offers, cfg.Default)
		builds.Add(int64(a.builds))
		if a.declaredOrder {
			realised.Add(1)
		}
		var t tally
		for i := range hs {
			h := &hs[i]
			c := Case{Via: "handler", Absent: h.absent, Lines: h.lines, WS: h.ws, Offers: cfg.Offers, Default: cfg.Default}
			if h.ws < 0 { // verbatim header
				c.Raw, c.Lines, c.WS = []string{h.lines[0][0].Range}, nil, 0
			}
			p := prepare(&c)
			res := runHandler(a, p)
			if res.undelivered != "" {
				t.add("handler/undeliverable-by-net/http")
				continue
			}
			cl, what, e := judgeHandler(p, a, cfg.Offers, cfg.Default, res)
			t.evals++
			if !e.anyMember {
				t.nontrivial++
			}
			switch {
			case res.pan != "":
				t.add("handler/panic")
			case e.anyMember:
				t.add(fmt.Sprintf("handler/%d:may", res.status))
			default:
				t.add(fmt.Sprintf("handler/%d", res.status))
			}
			if cl != "" {
				r.Fail(cl, what, c)
			}
			// the same request through the typed-server entry point
			bres := runBindValid(a, p)
			t.evals++
			if p.structured && p.may == "" {
				t.nontrivial++
			}
			t.add(fmt.Sprintf("bindvalid/%d", bres.code))
			if cl, what := judgeBindValid(p, a, cfg.Offers, cfg.Default, bres); cl != "" {
				cb := c
				cb.Via = "bindvalid"
				r.Fail(cl, what, cb)
			}
			if (ci*len(hs)+i+int(uint64(r.Seed)%4099))%4099 == 11 && sampled.Add(1) <= 3 {
				r.Sample(map[string]any{"case": c, "header": p.lines, "observed": res.String()})
			}
		}
		t.flush(r, "")
	})
	r.Set("sweep_"+name, map[string]any{"api_configurations": len(configs), "headers": len(hs),
		"configurations_routed_in_declared_order": realised.Load(), "api_instances_built": builds.Load()})
}

// rawSpace: verbatim header values, enumerated lazily.
type rawSpace struct {
	alpha    []string
	l1, l2   int        // one line of length <= l1; l2 >= 0: a second line of length <= l2
	explicit [][]string // when set: exactly these header-line lists
}

func nStrings(k, maxLen int) int {
	total, p := 0, 1
	for l := 0; l <= maxLen; l++ {
		total += p
		p *= k
	}
	return total
}

func nthString(alpha []string, i int) string {
	p, l := 1, 0
	for i >= p {
		i -= p
		p *= len(alpha)
		l++
	}
	parts := make([]string, l)
	for k := l - 1; k >= 0; k-- {
		parts[k] = alpha[i%len(alpha)]
		i /= len(alpha)
	}
	return strings.Join(parts, "")
}

func (s rawSpace) n() int {
	if s.explicit != nil {
		return len(s.explicit)
	}
	n := nStrings(len(s.alpha), s.l1)
	if s.l2 >= 0 {
		n *= nStrings(len(s.alpha), s.l2)
	}
	return n
}

func (s rawSpace) value(i int) []string {
	if s.explicit != nil {
		return s.explicit[i]
	}
	if s.l2 < 0 {
		return []string{nthString(s.alpha, i)}
	}
	n2 := nStrings(len(s.alpha), s.l2)
	return []string{nthString(s.alpha, i/n2), nthString(s.alpha, i%n2)}
}

// rawSweep: no panic; the result is an offer or the default.
func rawSweep(r *report.R, name string, sp rawSpace) {
	r.Set("sweep_"+name, map[string]any{"header_values": sp.n(), "alphabet": len(sp.alpha), "max_len_line1": sp.l1, "max_len_line2": sp.l2})
	typeOffers := []offerList{{nil, nil}, {[]string{"a/a"}, nil}, {[]string{"a/q", "a/a"}, nil}}
	for i := range typeOffers {
		typeOffers[i].parsed = parseOffers(typeOffers[i].raw)
	}
	encOffers := [][]string{{"a", "q"}, {"identity"}}
	parallelChunks(r, sp.n(), func(i int, t *tally) {
		c := Case{Via: "parse", Raw: sp.value(i)}
		p := prepare(&c)
		for _, key := range []string{"Accept", "Accept-Encoding"} {
			specs, pan := runParse(p, key)
			t.evals++
			if pan != "" {
				cc := c
				cc.Default = key
				r.Fail("panic", fmt.Sprintf("ParseAccept(%s %s): panic: %s", key, headerText(p), pan), cc)
				t.add("raw/panic")
				continue
			}
			if key == "Accept" {
				switch {
				case len(specs) == 0:
					t.add("raw/parsed-0-ranges")
				case badQ(specs):
					t.add("raw/parsed-NaN-or-Inf-q")
					t.nontrivial++
				case len(specs) > 3:
					t.add("raw/parsed-4+-ranges")
					t.nontrivial++
				default:
					t.add(fmt.Sprintf("raw/parsed-%d-ranges", len(specs)))
					t.nontrivial++
				}
			}
		}
		for _, key := range []string{"Accept", "Accept-Encoding"} {
			_, pan := runParse2(p, key)
			t.evals++
			if pan == "" && key == "Accept" { // ParseList and ParseValueAndParams do not depend on the key
				pan = runListParsers(p, key)
				t.evals += 2
			}
			if pan != "" {
				cc := c
				cc.Via, cc.Default = "parse2", ""
				if key != "Accept" {
					cc.Default = key
				}
				r.Fail("panic", fmt.Sprintf("ParseAccept2 / ParseList / ParseValueAndParams(%s %s): panic: %s", key, headerText(p), pan), cc)
			}
		}
		for oi := range typeOffers {
			ol := &typeOffers[oi]
			for _, def := range []string{"", "d/d"} {
				got, pan := runType(p, ol.raw, def)
				t.evals++
				if cl, what, _ := judgeType("NegotiateContentType", p, ol.parsed, ol.raw, def, got, pan); cl != "" {
					cc := c
					cc.Via, cc.Offers, cc.Default = "type", ol.raw, def
					r.Fail(cl, what, cc)
				}
				if got == def {
					t.add("raw/type:default")
				} else {
					t.add("raw/type:offer")
				}
			}
		}
		for _, ol := range encOffers {
			got, pan := runEncoding(p, ol)
			t.evals++
			if cl, what, _ := judgeEncoding(p, ol, got, pan); cl != "" {
				cc := c
				cc.Via, cc.Offers = "encoding", ol
				r.Fail(cl, what, cc)
			}
		}
		if (i+int(uint64(r.Seed)%99991))%99991 == 4242 && i > 0 {
			specs, _ := runParse(p, "Accept")
			r.Sample(map[string]any{"case": c, "observed": specsString(specs)})
		}
	}, "")
}

func main() {
	r := report.Start("C07", "exploration")
	if r.Replay != "" {
		var c Case
		r.LoadReplay(&c)
		cl, what, observed, e := checkFull(c)
		p := prepare(&c)
		fmt.Printf("replay via=%s header=%s offers=%q default=%q\n  observed: %s\n  expected: %s\n  class=%q %s\n", c.Via, headerText(p), c.Offers, c.Default, observed, e, cl, what)
		if cl != "" {
			r.Fail(cl, what, c)
		}
		r.Eval(1)
		r.Nontrivial(2)
		r.Sample(c)
		r.Finish("replay of one case", false)
	}
	thorough := r.Thorough()
	none := [][]string{nil}
	budget = 180 * time.Second // quick: generous, so that a loaded machine does not cut the sweep short (the run budget is 4 min)
	if thorough {
		budget = 9 * time.Minute
	}

	// ---- alphabets ----
	offers4 := []string{"a/b", "a/c", "c/d", "a/b; charset=utf-8"}
	offers5 := append(append([]string{}, offers4...), "a/c;v=1")
	defs := []string{"", "d/d"}
	ranges5 := []string{"a/b", "a/c", "a/*", "c/d", "*/*"}
	ranges6 := []string{"a/b", "a/c", "a/*", "c/d", "c/*", "*/*"}
	q4 := []string{"", "0", "0.5", "0.9"}
	q6 := []string{"", "0", "0.5", "0.9", "1", "0.50"}
	inS1 := map[string]bool{}
	for _, q := range q4 {
		inS1[q] = true
	}
	if thorough {
		inS1["1"], inS1["0.50"] = true, true
	}
	// the spellings denote 0, 0.001, 0.1000000000000000001, 0.111..1 (64 digits), 0.25, 0.5, 0.9, 1 and the edge values listed at the end
	qFull := []string{"", "0", "0.", "0.0", "0.000", "0.001", "0.25", "0.5", "0.50", "0.500", "0.5000", "0.9", "1", "1.", "1.0", "1.000",
		"0.5" + rep("0", 16), "0.5" + rep("0", 17), // 17 and 18 digits
		"0.5" + rep("0", 18), "0.9" + rep("0", 18), "0.1" + rep("0", 17) + "1", "0.001" + rep("0", 16), // 19 digits
		"0.5" + rep("0", 19), "0.5" + rep("0", 63), "0.9" + rep("0", 69), // 20, 64, 70 digits
		"0." + rep("0", 19), "0." + rep("0", 64), "1." + rep("0", 19), "1." + rep("0", 64),
		"0." + rep("1", 64), // 0.111..1: on the pinned tree n/0 = +Inf
		// digits beyond the third matter; positive values below 0.001; differences of 1e-10 / 1e-11; digit strings at integer bounds
		"0.9991", "0.9999", "0.5001", "0.5009", "0.0005", "0.0009", "0.50000000001", "0.50000000002", "0.00000000001", "0.999999999",
		"0.2147483647", "0.2147483648", "0.9007199254740993", "0.9223372036854775807", "0.9223372036854775808"}
	q12 := []string{"", "0", "0.5", "0.50", "0.9", "1.0", "0.001", "0.5" + rep("0", 17), "0.5" + rep("0", 18), "0.5" + rep("0", 63), "0." + rep("0", 64), "1." + rep("0", 64), "0." + rep("1", 64)}
	r.Set("q_spellings", map[string]any{"select": q6, "full": qFull})
	r.Set("offer_alphabet", offers5)
	r.Set("range_alphabet", ranges6)
	r.Set("defaults", defs)
	r.Set("whitespace_variants", []string{"a/b;p=1;q=0.5,c/d", "a/b; p=1; q=0.5, c/d", "a/b ;p=1 ;q=0.5 ,c/d", "a/b \\t; \\tp=1 \\t; \\tq=0.5 \\t, \\tc/d"})

	// ---- S0: histories on shared state; first, while the process-wide state is untouched ----
	historySweep(r, thorough)

	// ---- long headers ----
	longSweep(r)

	// ---- S1: selection logic (plain ranges and q) ----
	if !thorough {
		typeSweep(r, "select", true, headers(elemProduct(ranges5, q4, none, none), 0, 3, []int{1}, false, nil), offerLists(offers5, 3), defs)
	} else {
		typeSweep(r, "select", true, headers(elemProduct(ranges6, q6, none, none), 0, 3, []int{1}, false, nil), offerLists(offers5, 3), defs)
		typeSweep(r, "select-4-ranges", false, headers(elemProduct(ranges5, []string{"", "0", "0.5"}, none, none), 4, 4, []int{1}, false, nil), offerLists(offers4, 3), defs)
	}

	// ---- S2: q spellings (digits, long fractions), whitespace, line splits ----
	notInS1 := func(seq []Elem, ws, nLines int) bool {
		if ws != 1 || nLines > 1 {
			return true
		}
		for _, e := range seq {
			if !inS1[e.Q] {
				return true
			}
		}
		return false
	}
	if !thorough {
		typeSweep(r, "q-spellings", false, headers(elemProduct([]string{"a/b", "a/c", "*/*"}, qFull, none, none), 1, 2, []int{0, 1}, true, notInS1), offerLists(offers4, 2), defs)
	} else {
		typeSweep(r, "q-spellings", false, headers(elemProduct([]string{"a/b", "a/c", "a/*", "*/*"}, qFull, none, none), 1, 2, []int{0, 1, 2, 3}, true, notInS1), offerLists(offers4, 2), defs)
		typeSweep(r, "q-spellings-3-ranges", false, headers(elemProduct([]string{"a/b", "a/c", "*/*"}, q12, none, none), 3, 3, []int{1}, true, notInS1), offerLists(offers4, 2), defs)
	}

	// ---- S3: parameters before and after q, quoted strings, whitespace, line splits ----
	pres := [][]string{nil, {"level=1"}, {"charset=utf-8"}, {"xq=0"}, {`a="x,y"`}, {`a="q=0"`}, {`b="x\"y"`}, {`b="x\\"`}} // the last two: quoted pairs \" and \\
	offers3p := []string{"a/b", "a/c", "a/b; charset=utf-8"}                                                               // quick parameter sweep: c/d, matched by */* only, adds nothing here
	posts := [][]string{nil, {"ext=1"}, {"ext"}, {`ext="x,y"`}, {`ext="q=0"`}}
	withParams := func(seq []Elem, ws, nLines int) bool {
		for _, e := range seq {
			if len(e.Pre)+len(e.Post) > 0 {
				return true
			}
		}
		return false
	}
	s3 := func() {
		if !thorough {
			typeSweep(r, "parameters", false, headers(elemProduct([]string{"a/b", "a/c", "*/*"}, []string{"", "0", "0.5"}, pres, posts), 1, 2, []int{0, 1, 3}, true, withParams), offerLists(offers3p, 2), defs)
		} else {
			pres = append(pres, []string{"level=1", "charset=utf-8"}, []string{`a="x;q=0"`})
			posts = append(posts, []string{"ext=1", "e2=2"}, []string{`ext="x\"y"`})
			typeSweep(r, "parameters", false, headers(elemProduct([]string{"a/b", "a/c", "a/*", "*/*"}, []string{"", "0", "0.5"}, pres, posts), 1, 2, []int{0, 1, 2, 3}, true, withParams), offerLists(offers4, 2), defs)
			typeSweep(r, "parameters-3-ranges", false, headers(elemProduct([]string{"a/b", "a/c", "*/*"}, []string{"", "0", "0.5"}, [][]string{nil, {"level=1"}, {"xq=0"}, {`a="x,y"`}}, [][]string{nil, {"ext=1"}}), 3, 3, []int{1}, true, withParams), offerLists(offers4, 2), defs)
		}
		r.Set("params_before_q", pres)
		r.Set("params_after_q", posts)
	}

	// ---- S4: Accept-Encoding ----
	codings := []string{"gzip", "br", "identity", "*"}
	encOffers := [][]string{}
	for _, ol := range offerLists([]string{"gzip", "br", "identity"}, 3) {
		encOffers = append(encOffers, ol.raw)
	}
	qEnc := []string{"", "0", "0.5", "0.9", "0.50", "0.5" + rep("0", 18), "0.5" + rep("0", 63), "0." + rep("0", 64), "0." + rep("1", 64), "0.0005", "0.5001", "0.5009"}
	if !thorough {
		encodingSweep(r, "encoding", true, headers(elemProduct(codings, qEnc, none, none), 0, 2, []int{1}, false, nil), encOffers)
		encodingSweep(r, "encoding-3-codings", false, headers(elemProduct(codings, []string{"", "0", "0.5"}, none, none), 3, 3, []int{0}, false, nil), encOffers)
	} else {
		encodingSweep(r, "encoding", true, headers(elemProduct(codings, qEnc, none, none), 0, 3, []int{1}, false, nil), encOffers)
		encodingSweep(r, "encoding-whitespace-params", false, headers(elemProduct(codings, []string{"", "0", "0.5"}, none, [][]string{nil, {"ext=1"}}), 1, 2, []int{0, 2, 3}, true, nil), encOffers)
	}
	r.Set("coding_alphabet", codings)

	// ---- S5: full handler ----
	var configs []Case
	ptypes := []string{"a/b", "a/c", "c/d"}
	for _, def := range []string{"c/d", ""} {
		for _, seq := range enum.Seqs(len(ptypes), 0, 3) {
			seen := map[int]bool{}
			dup := false
			var prod []string
			for _, k := range seq {
				if seen[k] {
					dup = true
				}
				seen[k] = true
				prod = append(prod, ptypes[k])
			}
			if dup || (len(prod) == 0 && def == "") {
				continue
			}
			configs = append(configs, Case{Offers: prod, Default: def})
		}
	}
	plain := elemProduct(ranges5, q4, none, none)
	hh := []hdr{{absent: true}}
	var s1, s2 space
	if !thorough {
		s1 = headers(plain, 0, 2, []int{1}, false, nil)
		s2 = headers(elemProduct([]string{"a/b", "c/d", "*/*"}, []string{"", "0", "0.5"}, [][]string{nil, {"level=1"}}, none), 2, 2, []int{0, 3}, true, nil)
	} else {
		s1 = headers(plain, 0, 3, []int{1}, false, nil)
		s2 = headers(elemProduct(ranges5, []string{"", "0", "0.5"}, [][]string{nil, {"level=1"}}, none), 2, 2, []int{0, 2, 3}, true, nil)
	}
	hh = append(append(hh, s1.expand()...), s2.expand()...)
	// q values whose digits beyond the third matter, positive values below 0.001
	sq := headers(elemProduct([]string{"a/b", "c/d", "*/*"}, []string{"0.0005", "0.5001", "0.5009"}, none, none), 1, 2, []int{1}, false, nil)
	hh = append(hh, sq.expand()...)
	// verbatim values through the handler: totality of the whole chain
	for _, s := range enum.Strings([]string{"a", "/", "*", ";", ",", "=", "q", "0", "\"", " ", "\xe9"}, 3) {
		hh = append(hh, hdr{lines: [][]Elem{{{Range: s}}}, ws: -1})
	}
	handlerSweep(r, "handler", configs, hh)

	// ---- S6: totality over verbatim bytes ----
	alpha := []string{"a", "/", "*", ";", ",", "=", "q", ".", "0", "1", "\"", "\\", " "}
	r.Set("raw_alphabet", alpha)
	// wide alphabet: octets outside US-ASCII (0x80, 0xFF, a two-byte UTF-8 character), controls, other separators
	wide := append(append([]string{}, alpha...), "\x80", "\xff", "\u00e9", "\t")
	if !thorough {
		rawSweep(r, "raw-bytes", rawSpace{alpha: alpha, l1: 5, l2: -1})
		rawSweep(r, "raw-two-lines", rawSpace{alpha: alpha, l1: 2, l2: 2})
		r.Set("raw_alphabet_wide", wide)
		rawSweep(r, "raw-bytes-wide", rawSpace{alpha: wide, l1: 4, l2: -1})
	} else {
		rawSweep(r, "raw-bytes", rawSpace{alpha: alpha, l1: 6, l2: -1})
		rawSweep(r, "raw-two-lines", rawSpace{alpha: alpha, l1: 3, l2: 2})
		wide = append(wide, "(", "A", "\x00", "\r", "\n")
		r.Set("raw_alphabet_wide", wide)
		rawSweep(r, "raw-bytes-wide", rawSpace{alpha: wide, l1: 4, l2: -1})
	}

	// edge atoms as verbatim bytes: controls, DEL, invalid UTF-8, runes beyond the BMP, U+FEFF, U+2028, text that looks like syntax
	edgeAtoms := []string{"a", "/", ";", "=", "q", "0", ",", "\"", "\x00", "\x7f", "\r", "\n", "\t", "\xff", "\u00e9", "\U0001F600", "\ufeff", "\u2028",
		"%", "%s", "{", "}", "..", ":", "#", "?", "&", "+", "[", "]", "(", "A"}
	r.Set("raw_alphabet_edge_atoms", edgeAtoms)
	rawSweep(r, "raw-edge-atoms", rawSpace{alpha: edgeAtoms, l1: 3, l2: -1})
	edgeSweeps(r, defs)

	// the largest sweep last: a budget cut then leaves the other sweeps complete
	s3()
	r.Set("completed_all_sweeps", !budgetCut.Load())

	r.Assume("the reference negotiation of props/c07/model.go is the meaning of the property text: score of an offer = maximum over the matching ranges of positive q of (exact rational q, specificity), first offer of maximal score wins, default when no offer has a score, first offer without header",
		"a range carrying media-type parameters is judged under both readings (parameters ignored / must equal the offer's parameters); q spellings outside (0|1)[.digits], q above 1, distinct q values closer than 1e-12, an Accept header without any range and Accept-Encoding corner cases (no header, coding refused by name but admitted by *) are judged for totality and membership only",
		"handler level: the declared media types are a/b, a/c, c/d without parameters and a producer is registered for each; the offer order is the one the running instance holds (go-openapi/analysis returns the declared list in map order), read from the matched route")
	r.Finish("every abstract header of the stated element alphabets and lengths x whitespace variants x line splits x every ordered offer list (with duplicates) up to the stated length x default present/absent, each negotiated by the real code and compared with the reference; every byte string up to the stated length as a verbatim header value for totality and membership; every API configuration x header through the real API handler. One evaluation = one call of NegotiateContentType, Context.ResponseFormat, NegotiateContentEncoding, ParseAccept, ParseAccept2, ParseList, ParseValueAndParams, Context.BindValidRequest or one request through the handler. Both parsers are judged on every structured header: the reference negotiation over the specs they return must choose what the header admits, and their q values must be ordered as the numbers written. Non-trivial = the oracle was fully decisive and the mechanism was reached: structured header in which at least one range matches at least one offer (type/format/encoding), every fully judged request (handler), at least one range parsed (raw), every step executed after another step of its sequence (history). Edge values: q with digits beyond the third that matter, positive q below 0.001, q differing by 1e-10, digit strings at integer bounds; type and parameter names with . - +, prefix / case-only differing names, 2000-byte subtypes, quoted values with multi-byte / invalid UTF-8 / syntax-like text / 20000 bytes; nil, empty and empty-string header-line and offer lists; signed, exponent and non-ASCII-digit q spellings and upper-case types for totality and membership only. Long headers: 31..1000 ranges of which one decides, at the end, in the middle or first, on one or many header lines, through all entry points. History dimension: every ordered pair (thorough: also every ordered triple of a 78-case sub-alphabet without handler steps) of a 198-case collision alphabet (header-line lists that share lines, same header and offers with different defaults, same header with different offers, the four entry points), plus the whole list forward and backward, each sequence executed in one process under its own neutral salt range and on one shared API instance per configuration; each step must give exactly what it gives when run alone. The sweeps are disjoint by construction (filters notInS1 / withParams, distinct entry points, renderings deduplicated by text), so no (entry point, header text, offers, default) tuple is evaluated twice", !budgetCut.Load())
}
