package main

// The other ways a user - or the library itself - consumes request.Body. Every one of them is an
// operation of the histories and is judged by the same byte-queue model as Read: what comes out is the
// next bytes of the original sequence, and the way the consumption ends is the stream's own terminal
// condition (io.Copy, io.ReadAll and WriteTo report io.EOF as a nil error; every other terminal condition
// must come through). Optional interfaces of the body that HasBody installs are discovered by type
// assertion when the operation runs, so an interface the body gains tomorrow is exercised at once.

import (
	"bufio"
	"bytes"
	"errors"
	"fmt"
	"io"
	"net/http"
	"sync"

	"github.com/go-openapi/runtime"
	"github.com/go-openapi/runtime/middleware"
	"github.com/go-openapi/runtime/middleware/untyped"

	"verif/engine/apib"
)

// plainWriter is an io.Writer and nothing else (no ReaderFrom): io.Copy falls back on the source.
type plainWriter struct{ b []byte }

func (w *plainWriter) Write(p []byte) (int, error) {
	w.b = append(w.b, p...)
	return len(p), nil
}

const (
	bulkAll    = iota // consumes to the end; io.EOF is reported as nil
	bulkAllRaw        // consumes to the end; the terminal condition is returned as it is
	bulkPrefix        // consumes at most `limit` bytes; a short result ends with the terminal condition as it is
)

// judgeBulk judges one consumption of the body that produced `out` and ended with err.
func (q *sess) judgeBulk(label string, out []byte, err error, kind, limit int) (string, string) {
	m, st, step := &q.m, q.x.st, q.x.step
	B, T := q.cfg.data, q.cfg.term
	if q.x.logf != nil {
		show := ""
		if len(out) > 0 && len(out) <= 4 {
			show = fmt.Sprintf(" % x", out)
		}
		q.x.logf("  %-28s -> %d byte(s)%s, err=%v", label, len(out), show, err)
	}
	if m.closed {
		if len(out) > 0 {
			return "stale-data-after-close", fmt.Sprintf("step %d %s after Close produced %d byte(s) % x, err=%v", step, label, len(out), out[:min(len(out), 8)], err)
		}
		st.outcomes[oBulkAfterClose]++ // whether the failure surfaces as an error depends on the consumer (io.Copy hides io.EOF): not forced
		return "", ""
	}
	if len(out) > 0 {
		if m.termSeen {
			return "bytes-after-terminal", fmt.Sprintf("step %d %s produced %d byte(s) % x after the terminal condition had been yielded", step, label, len(out), out[:min(len(out), 8)])
		}
		if m.pos+len(out) > len(B) {
			return "fabricated-bytes", fmt.Sprintf("step %d %s produced %d byte(s) at offset %d of a %d-byte body", step, label, len(out), m.pos, len(B))
		}
		if !bytes.Equal(out, B[m.pos:m.pos+len(out)]) {
			i := 0
			for out[i] == B[m.pos+i] {
				i++
			}
			return "wrong-bytes", fmt.Sprintf("step %d %s: byte at body offset %d is %#x, original is %#x", step, label, m.pos+i, out[i], B[m.pos+i])
		}
		m.pos += len(out)
	}
	if m.termSeen {
		st.outcomes[oBulkPastTerminal]++
		return "", ""
	}
	if kind == bulkPrefix {
		if len(out) > limit {
			return "read-count-out-of-range", fmt.Sprintf("step %d %s produced %d bytes, limit %d", step, label, len(out), limit)
		}
		if len(out) == limit {
			st.outcomes[oBulkPrefix]++
			return "", ""
		}
	}
	// the consumer reached what it takes for the end of the body
	if m.pos < len(B) {
		return "premature-terminal", fmt.Sprintf("step %d %s ended (err=%v) after %d of %d bytes: %d byte(s) lost", step, label, err, m.pos, len(B), len(B)-m.pos)
	}
	if err == nil {
		if T != io.EOF {
			return "terminal-lost", fmt.Sprintf("step %d %s ended with a nil error, but the stream ends with %q after its %d bytes: the consumer takes a cut body for a complete one", step, label, T, len(B))
		}
	} else if !errors.Is(err, T) {
		return "wrong-terminal", fmt.Sprintf("step %d %s ended the body with %q, the original terminal condition is %q", step, label, err, T)
	}
	m.termSeen = true
	st.outcomes[oBulkComplete]++
	return "", ""
}

// consume executes one of the operations opCopy .. opBindUntyped.
func (q *sess) consume(op uint8, label string) (string, string) {
	st := q.x.st
	if op == opBindTyped || op == opBindUntyped {
		return q.bind(op, label)
	}
	if op == opPredicates {
		before, reads := q.req.Body, 0
		if q.env != nil {
			reads = q.env.reads
		}
		_ = runtime.IsSafe(q.req)
		_ = runtime.AllowsBody(q.req)
		_ = runtime.CanHaveBody(q.req.Method)
		if q.req.Body != before || (q.env != nil && q.env.reads != reads) {
			return "predicate-touches-body", fmt.Sprintf("step %d %s: IsSafe/AllowsBody/CanHaveBody replaced or read the request body", q.x.step, label)
		}
		st.outcomes[oPredicates]++
		return "", ""
	}
	if q.kind() == kindNil {
		st.outcomes[oOpOnNilBodySkipped]++
		if q.x.logf != nil {
			q.x.logf("  %-28s -> skipped, request body is nil", label)
		}
		return "", ""
	}
	if q.kind() == kindReplaced && q.wrapped {
		q.served = true
	}
	body := q.req.Body
	switch op {
	case opCopy:
		var w plainWriter
		_, err := io.Copy(&w, body)
		return q.judgeBulk(label, w.b, err, bulkAll, 0)
	case opCopyRF:
		var w bytes.Buffer
		_, err := io.Copy(&w, body)
		return q.judgeBulk(label, w.Bytes(), err, bulkAll, 0)
	case opReadAll:
		out, err := io.ReadAll(body)
		return q.judgeBulk(label, out, err, bulkAll, 0)
	case opCopyN2:
		var w plainWriter
		_, err := io.CopyN(&w, body, 2)
		return q.judgeBulk(label, w.b, err, bulkPrefix, 2)
	case opBufioBytes:
		br := bufio.NewReader(body)
		var out []byte
		var err error
		for limit := len(q.cfg.data) + q.x.zb + 16; ; limit-- {
			if limit < 0 {
				return "stall", fmt.Sprintf("step %d %s: bufio.Reader.ReadByte keeps succeeding beyond the length of the body", q.x.step, label)
			}
			var c byte
			if c, err = br.ReadByte(); err != nil {
				break
			}
			out = append(out, c)
		}
		return q.judgeBulk(label, out, err, bulkAllRaw, 0)
	case opBufioWrTo:
		var w plainWriter
		_, err := bufio.NewReader(body).WriteTo(&w)
		return q.judgeBulk(label, w.b, err, bulkAll, 0)
	case opOptional:
		any := false
		if sk, ok := body.(io.Seeker); ok {
			any = true
			st.outcomes[oIfaceSeeker]++
			_, _ = sk.Seek(0, io.SeekCurrent) // a seek that asks for no movement: what is read next must not change
		}
		if _, ok := body.(io.ReaderFrom); ok {
			any = true
			st.outcomes[oIfaceReaderFrom]++ // writing INTO a request body has no meaning the property could judge: seen, not called
		}
		if br, ok := body.(io.ByteReader); ok {
			any = true
			st.outcomes[oIfaceByteReader]++
			var out []byte
			c, err := br.ReadByte()
			if err == nil {
				out = []byte{c}
			}
			if cl, w := q.judgeBulk(label+"/ReadByte", out, err, bulkPrefix, 1); cl != "" {
				return cl, w
			}
		}
		if wt, ok := body.(io.WriterTo); ok {
			any = true
			st.outcomes[oIfaceWriterTo]++
			var w plainWriter
			_, err := wt.WriteTo(&w)
			if cl, wh := q.judgeBulk(label+"/WriteTo", w.b, err, bulkAll, 0); cl != "" {
				return cl, wh
			}
		}
		if !any {
			st.outcomes[oIfaceNone]++
			if q.x.logf != nil {
				q.x.logf("  %-28s -> the body (%T) implements none of WriterTo, ByteReader, Seeker, ReaderFrom", label, body)
			}
		}
	}
	return "", ""
}

// ---------------------------------------------------------------------------
// the library's own callers of the probe

type libHarness struct {
	ctx *middleware.Context
}

var (
	libOnce sync.Once
	lib     *libHarness
	// what the binder / consumer of the operation in progress saw (one execution at a time per process)
	bindSeen struct {
		invoked bool
		data    []byte
		err     error
	}
)

func readAllInto(r io.Reader) {
	bindSeen.invoked = true
	if r == nil {
		return
	}
	bindSeen.data, bindSeen.err = io.ReadAll(r)
}

// recordingConsumer reads everything it is given.
var recordingConsumer = runtime.ConsumerFunc(func(r io.Reader, _ interface{}) error {
	readAllInto(r)
	return nil
})

// readAllBinder is a RequestBinder of the typed flavour that reads the request body.
type readAllBinder struct{}

func (readAllBinder) BindRequest(r *http.Request, _ *middleware.MatchedRoute) error {
	if r.Body == nil {
		bindSeen.invoked = true
		return nil
	}
	readAllInto(r.Body)
	return nil
}

func theLib() *libHarness {
	libOnce.Do(func() {
		doc := apib.MustLoad(apib.Spec{BasePath: "/", Consumes: []string{"application/octet-stream", "application/json"}, Produces: []string{"application/json"},
			Ops: []apib.Op{{Method: "POST", Path: "/up", ID: "up", Params: []map[string]any{
				{"name": "body", "in": "body", "required": false, "schema": map[string]any{"type": "string", "format": "binary"}},
			}}}})
		api := untyped.NewAPI(doc)
		api.RegisterConsumer("application/octet-stream", recordingConsumer)
		api.RegisterConsumer("application/json", recordingConsumer)
		api.RegisterOperation("POST", "/up", runtime.OperationHandlerFunc(func(interface{}) (interface{}, error) { return nil, nil }))
		lib = &libHarness{ctx: middleware.NewContext(doc, api, nil)}
		_ = lib.ctx.APIHandler(nil) // builds the router the context looks routes up in
	})
	return lib
}

// bind hands the request to Context.BindValidRequest (typed flavour, with a RequestBinder that reads the body)
// or to Context.BindAndValidate (untyped flavour, whose binder gives the body to the consumer). Both probe
// the request with HasBody on their way. What the binder / consumer reads is judged like io.ReadAll; when it
// is not invoked nothing is judged here and the bytes must still be there for the operations that follow.
// The request the library returns (a shallow copy carrying its context values) is the one used from then on.
func (q *sess) bind(op uint8, label string) (string, string) {
	l := theLib()
	st := q.x.st
	route, rq, ok := l.ctx.RouteInfo(q.req)
	if !ok {
		panic("harness: route not found")
	}
	q.req = rq
	bindSeen.invoked, bindSeen.data, bindSeen.err = false, nil, nil
	var err error
	if op == opBindTyped {
		err = l.ctx.BindValidRequest(q.req, route, readAllBinder{})
	} else {
		_, q.req, err = l.ctx.BindAndValidate(q.req, route)
	}
	if q.kind() == kindReplaced && q.orig != nil {
		q.wrapped = true
		q.served = true
	}
	if !bindSeen.invoked {
		if op == opBindTyped {
			st.outcomes[oBinderNotInvoked]++
		} else {
			st.outcomes[oConsumerNotInvoked]++
		}
		if q.x.logf != nil {
			q.x.logf("  %-28s -> err=%v; binder/consumer not invoked", label, err)
		}
		return "", ""
	}
	if op == opBindTyped {
		st.outcomes[oBinderInvoked]++
	} else {
		st.outcomes[oConsumerInvoked]++
	}
	if q.cfg.bodyLen < 0 && len(bindSeen.data) == 0 {
		return "", "" // no body object at all: nothing to read, nothing read
	}
	return q.judgeBulk(label+"/body-read", bindSeen.data, bindSeen.err, bulkAll, 0)
}
