package main

// Exploration driver. The executions run in WORKER PROCESSES, one goroutine each:
//
//   - an implementation that keeps process-wide state between requests (a pool, a cache) must meet
//     the executions of one worker strictly one after the other, so that what it does is a function
//     of the history being explored and a recorded case replays in a fresh process;
//   - a case that kills the process (unrecoverable stack overflow, runtime fatal error) costs one
//     worker, is attributed to the (configuration, history, choices) it was executing, reported as a
//     failure of class "crash", and the worker is restarted behind it.
//
// The parent merges the workers' counters, failures and state sets and talks to engine/report.

import (
	"bufio"
	"encoding/json"
	"fmt"
	"io"
	"os"
	osexec "os/exec"
	"path/filepath"
	"runtime"
	"runtime/debug"
	"strconv"
	"strings"
	"sync"
	"time"

	"verif/engine/choice"
	"verif/engine/enum"
	"verif/engine/report"
)

const maxStack = 16 << 20 // a runaway recursion dies after 16 MiB instead of 1 GiB (the histories here nest a handful of frames)

func buildSweeps(thorough bool) []sweep {
	small := []int{-1, 0, 1, 2, 3}
	big := []int{4095, 4096, 4097, 8193}
	undeclared := []string{modeAbsent0, modeAbsentMinus}
	declared := []string{modeZero, modePositive, modePositiveNH}
	wire := []string{modeWireCL, modeWireChunked, modeWireChunked2, modeWireNone}
	// bodies that collide when something is shared between requests: byte-less (EOF at once / error before the
	// first byte) next to bodies with content (contents of A, B, C are disjoint)
	collide := []bodySpec{{0, io.EOF}, {0, errInjected}, {1, io.EOF}, {3, io.EOF}, {2, errInjected}}
	collideNil := append([]bodySpec{{-1, io.EOF}}, collide...)
	declBodies := append(append([]int{}, small...), 4097)
	// content axis: body byte 0 (the byte a probe peeks at) - pattern byte 0x00, a letter, LF, CR, blank, 0xFF
	firstAll := []int{-1, 'a', '\n', '\r', ' ', 0xFF}
	firstOthers := firstAll[1:]
	// context axis: cancellation of the request does not change what the stream holds
	ctxPlain := []string{ctxCancellable, ctxCancelBefore, ctxExpired, ctxCancelAfter}
	ctxBlock := []string{ctxCancellable, ctxCancelBefore, ctxExpired, ctxCancelBlocked}
	// the exported surface: the other consumers of request.Body and the library's own callers of the probe
	consumers := []uint8{opCopy, opCopyRF, opReadAll, opCopyN2, opBufioBytes, opBufioWrTo, opOptional, opPredicates}
	consumeAlpha := append([]uint8{opHasBody, opRead1, opRead4096, opClose}, consumers...)
	binders := []uint8{opBindTyped, opBindUntyped}
	bindAlpha := append([]uint8{opHasBody, opRead1, opClose, opReadAll}, binders...)
	terms3 := []error{io.EOF, errInjected, io.ErrUnexpectedEOF}
	libModes := []string{modeJSONRequest, modeAbsent0, modeAbsentMinus, modeZero, modePositive}
	// edge values (round 12): declared lengths at and around the bit-size boundaries, far larger than what the stream
	// delivers (the answer for a positive declared length does not depend on reading); shapes of declared / not declared
	hugeDecl := []int64{1, 1<<31 - 1, 1 << 31, 1 << 32, 1<<53 + 1, 1<<63 - 1}
	edgeFirst := []int{'\t', 0x7f, 0xEF, '%', '{'}
	if thorough {
		return []sweep{
			{name: "small-bodies/undeclared/every-chunking", bodies: small, modes: undeclared, maxLen: 5, bound: -1, zeroBudget: 2},
			{name: "small-bodies/undeclared/first-byte", bodies: []int{1, 2, 3}, modes: undeclared, maxLen: 5, bound: 2, zeroBudget: 1, firsts: firstOthers},
			{name: "buffer-sized-bodies/undeclared/first-byte", bodies: big, modes: undeclared, maxLen: 4, bound: 1, zeroBudget: 1, firsts: firstOthers},
			{name: "consumers/undeclared", bodies: []int{-1, 0, 1, 2, 3, 4097}, modes: undeclared, terms: terms3, alphabet: consumeAlpha, need: consumers, minLen: 1, maxLen: 3, bound: 2, zeroBudget: 1},
			{name: "consumers/undeclared/len4", bodies: []int{0, 1, 3}, modes: undeclared[1:], terms: terms3, alphabet: consumeAlpha, need: consumers, minLen: 4, maxLen: 4, bound: 1, zeroBudget: 1},
			{name: "edge-values/declared-length", bodies: []int{-1, 0, 1, 3, 4097}, modes: []string{modePositive, modePositiveNH, modePositiveLZ}, terms: terms3, decls: hugeDecl, maxLen: 4, bound: 1, zeroBudget: 1},
			{name: "edge-values/declared-length/net-http", bodies: []int{0, 1, 3, 4097}, modes: []string{modeWireCLHuge}, terms: terms3[2:], decls: []int64{1 << 31, 1<<53 + 1, 1<<63 - 1}, maxLen: 4, bound: 1, zeroBudget: 1},
			{name: "edge-values/declared-shapes", bodies: []int{-1, 0, 1, 3}, modes: []string{modeAbsentEmptyHdr, modeAbsentNilHdr, modeZero00, modePositiveLZ}, maxLen: 4, bound: 1, zeroBudget: 1},
			{name: "edge-values/body-bytes", bodies: []int{1, 3, 4097, 65537}, modes: undeclared[1:], maxLen: 3, bound: 1, zeroBudget: 1, firsts: edgeFirst},
			{name: "edge-values/library-callers", bodies: []int{1, 4097}, modes: []string{modePositive}, terms: terms3[2:], decls: hugeDecl[2:], alphabet: bindAlpha, need: binders, minLen: 1, maxLen: 2, bound: 1, zeroBudget: 1},
			{name: "library-callers", bodies: []int{-1, 0, 1, 3, 4097, 8193}, modes: libModes, terms: terms3, alphabet: bindAlpha, need: binders, minLen: 1, maxLen: 4, bound: 1, zeroBudget: 1},
			{name: "cancellation/blocking-first-read", bodies: []int{0, 1, 3, 4097}, modes: undeclared[1:], maxLen: 2, bound: 1, zeroBudget: 0, ctxs: ctxBlock, blocking: true, waitMs: 200},
			{name: "cancellation/non-blocking", bodies: []int{-1, 0, 1, 3, 4097}, modes: undeclared, maxLen: 4, bound: 1, zeroBudget: 1, ctxs: ctxPlain},
			{name: "two-requests/undeclared", nreq: 2, multi: collideNil, maxLen: 5, bound: 1, zeroBudget: 1},
			{name: "three-requests/undeclared", nreq: 3, multi: collide[:4], maxLen: 4, bound: 1, zeroBudget: 0},
			{name: "buffer-sized-bodies/undeclared", bodies: big, modes: undeclared, maxLen: 5, bound: 2, zeroBudget: 1},
			{name: "declared-length", bodies: declBodies, modes: declared, maxLen: 5, bound: 1, zeroBudget: 1},
			{name: "net/http-delivered", bodies: []int{0, 1, 2, 3, 4096, 4097}, modes: wire, maxLen: 5, bound: 1, zeroBudget: 1},
			{name: "net/http-delivered/first-byte", bodies: []int{1, 3, 4097}, modes: wire[:3], maxLen: 4, bound: 1, zeroBudget: 1, firsts: firstOthers},
			{name: "extended-read-sizes/undeclared", bodies: []int{0, 1, 3, 4095, 4096, 4097, 8193, 12289}, modes: undeclared, minLen: 1, maxLen: 4, extended: true, bound: 1, zeroBudget: 1},
			{name: "small-bodies/undeclared/len6", bodies: small, modes: undeclared, minLen: 6, maxLen: 6, bound: 2, zeroBudget: 1},
			{name: "small-bodies/undeclared/len7", bodies: small, modes: undeclared[1:], minLen: 7, maxLen: 7, bound: 1, zeroBudget: 1},
		}
	}
	return []sweep{
		{name: "small-bodies/undeclared", bodies: small, modes: undeclared, maxLen: 5, bound: 2, zeroBudget: 1},
		{name: "small-bodies/undeclared/first-byte", bodies: []int{1, 2, 3}, modes: undeclared, maxLen: 4, bound: 1, zeroBudget: 1, firsts: firstOthers},
		{name: "consumers/undeclared", bodies: []int{-1, 0, 1, 2, 3, 4097}, modes: undeclared, terms: terms3, alphabet: consumeAlpha, need: consumers, minLen: 1, maxLen: 3, bound: 1, zeroBudget: 1},
		{name: "edge-values/declared-length", bodies: []int{-1, 0, 3}, modes: []string{modePositive, modePositiveNH, modePositiveLZ}, decls: hugeDecl, maxLen: 3, bound: 1, zeroBudget: 1},
		{name: "edge-values/declared-length/net-http", bodies: []int{0, 3}, modes: []string{modeWireCLHuge}, terms: terms3[2:], decls: []int64{1 << 31, 1<<63 - 1}, maxLen: 3, bound: 1, zeroBudget: 1},
		{name: "edge-values/declared-shapes", bodies: []int{-1, 0, 1, 3}, modes: []string{modeAbsentEmptyHdr, modeAbsentNilHdr, modeZero00, modePositiveLZ}, maxLen: 3, bound: 1, zeroBudget: 1},
		{name: "edge-values/body-bytes", bodies: []int{1, 3, 4097}, modes: undeclared[1:], maxLen: 2, bound: 1, zeroBudget: 1, firsts: edgeFirst},
		{name: "edge-values/library-callers", bodies: []int{1, 4097}, modes: []string{modePositive}, terms: terms3[2:], decls: hugeDecl[2:4], alphabet: bindAlpha, need: binders, minLen: 1, maxLen: 2, bound: 1, zeroBudget: 1},
		{name: "library-callers", bodies: []int{-1, 0, 1, 3, 4097, 8193}, modes: libModes, terms: []error{io.EOF, io.ErrUnexpectedEOF}, alphabet: bindAlpha, need: binders, minLen: 1, maxLen: 3, bound: 1, zeroBudget: 1},
		{name: "cancellation/blocking-first-read", bodies: []int{0, 3, 4097}, modes: undeclared[1:], maxLen: 1, bound: 0, zeroBudget: 0, ctxs: ctxBlock, blocking: true, waitMs: 100},
		{name: "cancellation/non-blocking", bodies: []int{-1, 0, 1, 3}, modes: undeclared[1:], maxLen: 3, bound: 1, zeroBudget: 1, ctxs: ctxPlain},
		{name: "two-requests/undeclared", nreq: 2, multi: collide, maxLen: 4, bound: 1, zeroBudget: 1},
		{name: "buffer-sized-bodies/undeclared", bodies: big[1:], modes: undeclared, maxLen: 4, bound: 1, zeroBudget: 1, firsts: firstAll},
		{name: "declared-length", bodies: declBodies, modes: declared, maxLen: 3, bound: 1, zeroBudget: 1},
		{name: "net/http-delivered", bodies: []int{0, 1, 3, 4097}, modes: wire, maxLen: 4, bound: 1, zeroBudget: 1, firsts: firstAll},
	}
}

// plan is the deterministic item list of one sweep: item i = (cfgs[i % len(cfgs)], seqs[i / len(cfgs)]).
type plan struct {
	sw   sweep
	cfgs [][]*config // one tuple of request configurations per entry
	seqs [][]uint8
}

func (p *plan) items() int { return len(p.cfgs) * len(p.seqs) }

func buildPlans(thorough bool) []*plan {
	var out []*plan
	cfgID := 0
	for _, sw := range buildSweeps(thorough) {
		p := &plan{sw: sw}
		if sw.nreq > 1 {
			// request A is undeclared-unknown (chunked), B undeclared with ContentLength 0, C like A
			modes := [maxReqs]string{modeAbsentMinus, modeAbsent0, modeAbsentMinus}
			sizes := make([]int, sw.nreq)
			for i := range sizes {
				sizes[i] = len(sw.multi)
			}
			enum.Product(sizes, func(idx []int) {
				var tuple []*config
				for which, bi := range idx {
					cfgID++
					b := sw.multi[bi]
					tuple = append(tuple, newConfig(cfgID, b.n, b.term, modes[which], which))
				}
				p.cfgs = append(p.cfgs, tuple)
			})
		} else {
			for _, bl := range sw.bodies {
				terms := []error{io.EOF, errInjected}
				if sw.terms != nil {
					terms = sw.terms
				}
				if bl < 0 {
					terms = terms[:1]
				}
				for _, t := range terms {
					for _, md := range sw.modes {
						cfgID++
						if isWire(md) && !wireOK(md, bl, t) {
							continue
						}
						firsts := sw.firsts
						if bl < 1 || len(firsts) == 0 {
							firsts = []int{-1}
						}
						ctxs := sw.ctxs
						if len(ctxs) == 0 {
							ctxs = []string{""}
						}
						decls := []int64{0}
						if len(sw.decls) > 0 && (md == modePositive || md == modePositiveNH || md == modePositiveLZ || md == modeWireCLHuge) {
							decls = sw.decls
						}
						for _, fb := range firsts {
							for _, cx := range ctxs {
								for _, dn := range decls {
									cfgID++
									c := newConfigFirst(cfgID, bl, t, md, 0, fb)
									c.ctx, c.block, c.waitMs = cx, sw.blocking && cx != "", sw.waitMs
									if dn != 0 || md == modeWireCLHuge {
										c.setDeclared(dn)
									}
									p.cfgs = append(p.cfgs, []*config{c})
								}
							}
						}
					}
				}
			}
		}
		p.seqs = allSeqs(sw)
		out = append(out, p)
	}
	return out
}

// explore is choice.Explore (stateless DFS by replay over all choice sequences with at most `bound`
// deviations) with one difference: a replay divergence does not panic, it is counted and the subtree is
// abandoned. body returns true when the execution diverged from the prefix it was asked to replay.
func explore(bound int, stop func() bool, body func(c *choice.Chooser, prefix []int) bool) (execs, diverged int64) {
	var rec func(prefix []int)
	rec = func(prefix []int) {
		if stop != nil && stop() {
			return
		}
		c := choice.Replay(prefix)
		div := body(c, prefix)
		execs++
		if div || len(c.Trace) < len(prefix) {
			diverged++
			return
		}
		tr := c.Trace
		dev := 0
		for i := 0; i < len(prefix); i++ {
			if tr[i].Chosen != 0 {
				dev++
			}
		}
		for i := len(prefix); i < len(tr); i++ {
			if bound >= 0 && dev+1 > bound {
				break
			}
			for alt := 1; alt < tr[i].N; alt++ {
				np := make([]int, i+1)
				for k := 0; k < i; k++ {
					np[k] = tr[k].Chosen
				}
				np[i] = alt
				rec(np)
			}
		}
	}
	rec(nil)
	return
}

// ---------------------------------------------------------------------------
// worker process

type failRec struct {
	Class string `json:"class"`
	What  string `json:"what"`
	Case  Case   `json:"case"`
}

// chunk is what a worker reports every few thousand items (and at the end of a sweep).
type chunk struct {
	Type        string           `json:"type"` // "chunk" | "done"
	Sweep       int              `json:"sweep"`
	Execs       int64            `json:"execs"`
	Nontrivial  int64            `json:"nontrivial"`
	Transitions int64            `json:"transitions"`
	Diverged    int64            `json:"diverged"`
	Outcomes    []int64          `json:"outcomes"`
	States      []uint64         `json:"states"`
	MaxChoices  int              `json:"max_choices"`
	Fails       []failRec        `json:"fails"`  // at most 3 per class and chunk
	FailN       map[string]int64 `json:"fail_n"` // all of them
	Samples     []Case           `json:"samples"`
	Cut         bool             `json:"cut"`
}

type workerArgs struct {
	Thorough   bool
	K, W       int
	StartSweep int
	StartJ     int64 // first loop index (of this worker's arithmetic progression) in StartSweep
	OnlyOne    bool  // explore exactly the item at (StartSweep, StartJ), writing the marker before every execution
	Marker     string
	Deadline   int64 // unix nanoseconds
	Seed       int64
}

func writeMarker(f *os.File, sweep int, j int64, choices []int) {
	var b [1024]byte
	s := fmt.Sprintf("%d %d %s\n", sweep, j, strings.Trim(strings.ReplaceAll(fmt.Sprint(choices), " ", ","), "[]"))
	n := copy(b[:], s)
	for i := n; i < len(b); i++ {
		b[i] = ' '
	}
	_, _ = f.WriteAt(b[:], 0)
}

func readMarker(path string) (sweep int, j int64, choices []int, ok bool) {
	b, err := os.ReadFile(path)
	if err != nil {
		return 0, 0, nil, false
	}
	line, _, _ := strings.Cut(string(b), "\n")
	f := strings.Fields(line)
	if len(f) < 2 {
		return 0, 0, nil, false
	}
	sweep, e1 := strconv.Atoi(f[0])
	j, e2 := strconv.ParseInt(f[1], 10, 64)
	if e1 != nil || e2 != nil {
		return 0, 0, nil, false
	}
	choices = []int{}
	if len(f) > 2 {
		for _, c := range strings.Split(f[2], ",") {
			if v, err := strconv.Atoi(c); err == nil {
				choices = append(choices, v)
			}
		}
	}
	return sweep, j, choices, true
}

func workerMain(argJSON string) {
	var a workerArgs
	if err := json.Unmarshal([]byte(argJSON), &a); err != nil {
		fmt.Fprintln(os.Stderr, "worker args:", err)
		os.Exit(2)
	}
	runtime.GOMAXPROCS(2) // one goroutine executes; the second P serves the collector
	debug.SetGCPercent(400)
	debug.SetMaxStack(maxStack)
	out := bufio.NewWriterSize(os.Stdout, 1<<20)
	enc := json.NewEncoder(out)
	mf, err := os.OpenFile(a.Marker, os.O_CREATE|os.O_WRONLY, 0o644)
	if err != nil {
		fmt.Fprintln(os.Stderr, "marker:", err)
		os.Exit(2)
	}
	defer mf.Close()
	deadline := time.Unix(0, a.Deadline)
	cut := false
	polls := 0
	stop := func() bool {
		if cut {
			return true
		}
		polls++
		if polls&63 == 0 && time.Now().After(deadline) {
			cut = true
		}
		return cut
	}
	plans := buildPlans(a.Thorough)
	st := newStats()
	for si := a.StartSweep; si < len(plans); si++ {
		p := plans[si]
		sw := p.sw
		n := int64(p.items())
		rot := int64(uint64(a.Seed) % uint64(n))
		ck := chunk{Type: "chunk", Sweep: si, FailN: map[string]int64{}}
		perClass := map[string]int{}
		flush := func() {
			ck.Execs, ck.Nontrivial, ck.Transitions, ck.MaxChoices = st.execs, st.nontrivial, st.transitions, st.maxChoices
			ck.Outcomes = st.outcomes[:]
			ck.States = ck.States[:0]
			for k := range st.states {
				ck.States = append(ck.States, k)
			}
			_ = enc.Encode(&ck)
			_ = out.Flush()
			clear(st.states)
			*st = stats{states: st.states, buf: st.buf}
			ck = chunk{Type: "chunk", Sweep: si, FailN: map[string]int64{}}
			perClass = map[string]int{}
		}
		j := int64(a.K)
		if si == a.StartSweep && a.StartJ > 0 {
			j = a.StartJ
		}
		sampled := 0
		for done := 0; j < n && !stop(); j += int64(a.W) {
			i := (j + rot) % n
			cfg := p.cfgs[i%int64(len(p.cfgs))]
			ops := p.seqs[i/int64(len(p.cfgs))]
			if !a.OnlyOne {
				writeMarker(mf, si, j, nil)
			}
			_, div := explore(sw.bound, stop, func(ch *choice.Chooser, prefix []int) bool {
				if a.OnlyOne {
					// the execution about to start answers with prefix, then with the default answers
					writeMarker(mf, si, j, prefix)
				}
				cl, what := exec(cfg, ops, ch, sw.zeroBudget, st, nil)
				switch {
				case cl == classDiverged:
					return true
				case cl != "":
					ck.FailN[cl]++
					if perClass[cl] < 3 {
						perClass[cl]++
						ck.Fails = append(ck.Fails, failRec{cl, what, mkCase(cfg, ops, sw.zeroBudget, ch.Choices())})
					}
				case sampled < 2 && len(ops) == sw.maxLen && ch.Deviations() > 0 && varied(ops):
					// real executions for the evidence file: a longest history under a non-default stream behaviour
					sampled++
					ck.Samples = append(ck.Samples, mkCase(cfg, ops, sw.zeroBudget, ch.Choices()))
				}
				return false
			})
			ck.Diverged += div
			if a.OnlyOne {
				flush()
				_ = enc.Encode(&chunk{Type: "done"})
				_ = out.Flush()
				return
			}
			if done++; done%256 == 0 || len(ck.Fails) > 0 { // failures are reported at once: a later death of this worker must not lose them
				flush()
			}
		}
		flush()
		if cut {
			break
		}
	}
	_ = enc.Encode(&chunk{Type: "done", Cut: cut})
	_ = out.Flush()
}

// ---------------------------------------------------------------------------
// parent process

type merged struct {
	mu       sync.Mutex
	global   map[uint64]struct{}
	total    stats
	diverged int64
	swExecs  []int64
	samples  [][]Case
	cut      bool
	crashes  int

	unattributed     int // worker deaths that did not reproduce when the item was explored alone
	lastUnattributed string
}

func self() string {
	p, err := os.Executable()
	if err != nil {
		return os.Args[0]
	}
	return p
}

// runWorker starts one worker process and merges what it reports. It returns whether the worker
// finished ("done" seen) and the tail of its stderr.
func runWorker(a workerArgs, r *report.R, mg *merged) (finished bool, stderrTail string) {
	aj, _ := json.Marshal(a)
	cmd := osexec.Command(self(), "worker", string(aj))
	var errBuf strings.Builder
	cmd.Stderr = &limitedWriter{w: &errBuf, left: 4096}
	stdout, err := cmd.StdoutPipe()
	if err != nil {
		return false, err.Error()
	}
	if err := cmd.Start(); err != nil {
		return false, err.Error()
	}
	dec := json.NewDecoder(bufio.NewReaderSize(stdout, 1<<20))
	for {
		var ck chunk
		if err := dec.Decode(&ck); err != nil {
			break
		}
		if ck.Type == "done" {
			finished = true
			if ck.Cut {
				mg.mu.Lock()
				mg.cut = true
				mg.mu.Unlock()
			}
			continue
		}
		mg.mu.Lock()
		for _, k := range ck.States {
			mg.global[k] = struct{}{}
		}
		for i, v := range ck.Outcomes {
			if i < nOutcomes {
				mg.total.outcomes[i] += v
			}
		}
		mg.total.execs += ck.Execs
		mg.total.nontrivial += ck.Nontrivial
		mg.total.transitions += ck.Transitions
		if ck.MaxChoices > mg.total.maxChoices {
			mg.total.maxChoices = ck.MaxChoices
		}
		mg.diverged += ck.Diverged
		mg.swExecs[ck.Sweep] += ck.Execs
		if len(mg.samples[ck.Sweep]) < 2 {
			mg.samples[ck.Sweep] = append(mg.samples[ck.Sweep], ck.Samples...)
		}
		mg.mu.Unlock()
		// failures: examples first, then the remaining count under the first example of the class
		seen := map[string]int64{}
		first := map[string]failRec{}
		for _, f := range ck.Fails {
			r.Fail(f.Class, f.What, f.Case)
			seen[f.Class]++
			if _, ok := first[f.Class]; !ok {
				first[f.Class] = f
			}
		}
		for cl, n := range ck.FailN {
			for k := seen[cl]; k < n; k++ {
				r.Fail(cl, first[cl].What, first[cl].Case)
			}
		}
	}
	_, _ = io.Copy(io.Discard, stdout)
	_ = cmd.Wait()
	return finished, errBuf.String()
}

type limitedWriter struct {
	w    io.Writer
	left int
}

func (l *limitedWriter) Write(p []byte) (int, error) {
	if l.left > 0 {
		q := p
		if len(q) > l.left {
			q = q[:l.left]
		}
		_, _ = l.w.Write(q)
		l.left -= len(q)
	}
	return len(p), nil
}

func fatalLine(stderr string) string {
	for _, l := range strings.Split(stderr, "\n") {
		if strings.HasPrefix(l, "fatal error:") || strings.HasPrefix(l, "panic:") || strings.HasPrefix(l, "runtime:") {
			return strings.TrimSpace(l)
		}
	}
	l, _, _ := strings.Cut(strings.TrimSpace(stderr), "\n")
	if l == "" {
		l = "no message (killed?)"
	}
	return l
}

const maxCrashesPerWorkerAndSweep = 4

func main() {
	if len(os.Args) == 3 && os.Args[1] == "worker" {
		workerMain(os.Args[2])
		return
	}
	if len(os.Args) == 3 && os.Args[1] == "replay-child" {
		replayChild(os.Args[2])
		return
	}
	started := time.Now()
	r := report.Start("C17", "model_checking")
	if r.Replay != "" {
		replayParent(r)
	}

	// own wall-clock limit, below the tier budgets (quick 60 s, thorough 10 min): on an overloaded machine the
	// run stops exploring and is reported exhaustive:false with the sweeps it completed - never as a failure
	limit := 180 * time.Second // quick: generous, so that a loaded machine does not cut the sweep short (the run budget is 4 min)
	if r.Thorough() {
		limit = 8 * time.Minute
	}
	if s := os.Getenv("VERIF_BUDGET_S"); s != "" {
		if v, err := strconv.Atoi(s); err == nil && time.Duration(v)*time.Second < limit {
			limit = time.Duration(v) * time.Second
		}
	}
	deadline := started.Add(limit)
	plans := buildPlans(r.Thorough())
	work, err := os.MkdirTemp("/verif/.work", "c17-")
	if err != nil {
		_ = os.MkdirAll("/verif/.work", 0o755)
		work, err = os.MkdirTemp("/verif/.work", "c17-")
		if err != nil {
			fmt.Fprintln(os.Stderr, "cannot create work dir:", err)
			os.Exit(2)
		}
	}

	W := runtime.NumCPU()
	mg := &merged{global: map[uint64]struct{}{}, swExecs: make([]int64, len(plans)), samples: make([][]Case, len(plans))}
	var wg sync.WaitGroup
	for k := 0; k < W; k++ {
		wg.Add(1)
		go func(k int) {
			defer wg.Done()
			a := workerArgs{Thorough: r.Thorough(), K: k, W: W, Marker: filepath.Join(work, fmt.Sprintf("w%d.cur", k)), Deadline: deadline.UnixNano(), Seed: r.Seed}
			crashes, crashSweep := 0, -1
			for {
				_ = os.Remove(a.Marker)
				finished, stderr := runWorker(a, r, mg)
				if finished {
					return
				}
				// the worker died: attribute the death to the item it was exploring, localise the execution, restart behind it
				si, j, _, ok := readMarker(a.Marker)
				if !ok {
					fmt.Fprintf(os.Stderr, "C17: worker %d died before its first item: %s\n", k, fatalLine(stderr))
					mg.mu.Lock()
					mg.cut = true
					mg.mu.Unlock()
					return
				}
				p := plans[si]
				n := int64(p.items())
				i := (j + int64(uint64(r.Seed)%uint64(n))) % n
				cfg, ops := p.cfgs[i%int64(len(p.cfgs))], p.seqs[i/int64(len(p.cfgs))]
				// localise: explore that one item again with a marker per execution
				one := a
				one.StartSweep, one.StartJ, one.OnlyOne = si, j, true
				one.Marker = a.Marker + ".one"
				_ = os.Remove(one.Marker)
				if fin, stderr2 := runWorker(one, r, mg); !fin {
					choices := []int{}
					if _, _, ch, ok := readMarker(one.Marker); ok {
						choices = ch
					}
					r.Fail("crash", "the process dies executing this case: "+fatalLine(stderr2), mkCase(cfg, ops, p.sw.zeroBudget, choices))
				} else {
					// not reproduced in isolation: the death is not attributed to the case (it may have had an outside
					// cause, e.g. the machine killing the process); what the worker had not yet reported is lost,
					// so the run is no longer called exhaustive
					mg.mu.Lock()
					mg.cut = true
					mg.unattributed++
					mg.lastUnattributed = fatalLine(stderr)
					mg.mu.Unlock()
				}
				mg.mu.Lock()
				mg.crashes++
				mg.mu.Unlock()
				if si != crashSweep {
					crashSweep, crashes = si, 0
				}
				crashes++
				a.StartSweep, a.StartJ = si, j+int64(W)
				if crashes >= maxCrashesPerWorkerAndSweep {
					// stop restarting inside this sweep: the rest of this worker's share of it stays unexplored
					mg.mu.Lock()
					mg.cut = true
					mg.mu.Unlock()
					a.StartSweep, a.StartJ = si+1, 0
					if a.StartSweep >= len(plans) {
						return
					}
				}
			}
		}(k)
	}
	wg.Wait()
	_ = os.RemoveAll(work)

	sweepInfo := map[string]any{}
	for si, p := range plans {
		sw := p.sw
		bound := any(sw.bound)
		if sw.bound < 0 {
			bound = "unbounded"
		}
		info := map[string]any{
			"configurations": len(p.cfgs), "history_length": []int{sw.minLen, sw.maxLen}, "histories": len(p.seqs),
			"stream_deviation_bound": bound, "zero_length_read_budget": sw.zeroBudget, "executions": mg.swExecs[si],
		}
		if sw.nreq > 1 {
			var names []string
			for _, b := range sw.multi {
				names = append(names, specName(b))
			}
			var on []string
			for _, o := range multiOps {
				on = append(on, opNames[o])
			}
			info["requests_alive_together"] = sw.nreq
			info["body_alphabet(len+terminal), every ordered tuple"] = names
			info["operations_per_request"] = on
			info["modes"] = "A: absent-unknown, B: absent, C: absent-unknown (all on the undeclared-length path)"
		} else {
			info["body_lengths(-1=nil)"] = sw.bodies
			info["terminals"] = []string{"EOF", "ERR(sticky, after the last byte)"}
			if sw.terms != nil {
				var tn []string
				for _, t := range sw.terms {
					tn = append(tn, termName(t))
				}
				info["terminals"] = tn
			}
			if sw.alphabet != nil {
				var on, nd []string
				for _, o := range sw.alphabet {
					on = append(on, opNames[o])
				}
				for _, o := range sw.need {
					nd = append(nd, opNames[o])
				}
				info["operation_alphabet"] = on
				info["only_histories_containing_one_of"] = nd
			}
			info["modes"] = sw.modes
			info["extended_alphabet"] = sw.extended
			if len(sw.decls) > 0 {
				info["declared_lengths(positive modes)"] = sw.decls
			}
			if len(sw.ctxs) > 0 {
				info["request_context"] = sw.ctxs
				info["first_read_of_first_probe_blocks"] = sw.blocking
				if sw.blocking {
					info["histories_start_with"] = "HasBody (the probe whose underlying Read parks), then every history of the stated lengths"
					info["wait_for_early_return_ms(stimulus)"] = sw.waitMs
				}
			}
			if len(sw.firsts) > 0 {
				info["first_body_byte(-1 = pattern byte 0x00), bodies of length >= 1"] = sw.firsts
			}
		}
		sweepInfo[sw.name] = info
		for _, c := range mg.samples[si] {
			r.Sample(c)
		}
	}
	total := &mg.total
	r.Eval(total.execs)
	r.Traces(total.execs)
	r.Nontrivial(total.nontrivial)
	r.Transitions(total.transitions)
	r.States(int64(len(mg.global)))
	for i, v := range total.outcomes {
		if v > 0 {
			r.Outcome(outcomeNames[i], v)
		}
	}
	r.Set("body_content", "byte i = i mod 251 (B, C: shifted by 83, 166); content axis on byte 0, the byte a probe peeks at: {0x00, 'a', LF, CR, space, 0xFF} where a sweep lists first_body_byte")
	r.Set("cancellation", "sweeps 'cancellation/*': requests with a cancellable context {never cancelled, cancelled before the first operation, deadline already expired, cancelled while the first probe's underlying Read is parked, cancelled right after the first probe}; in 'blocking-first-read' the stream parks that Read (channels: 'Read entered' / 'release' / 'delivered') and the harness waits wait_ms for an early return before releasing it (a stimulus, never an oracle). Clauses: the text's (answer = a byte can be read, whatever the context; bytes and terminal intact) plus: no Read reaches or completes on the underlying stream while no body operation is in progress, no goroutine executing request.go code when a probe has returned (runtime.Stack, settle loop of 2 s), HasBody returns within 30 s of the release")
	r.Set("exported_surface", map[string]string{
		"runtime.HasBody":                 "the probe itself: every sweep",
		"body installed by HasBody":       "Read / Close (every sweep); io.Copy into a plain writer and into a ReaderFrom, io.ReadAll, io.CopyN prefix, bufio.NewReader(body) ReadByte* and WriteTo, and every optional interface the body implements at run time (WriterTo, ByteReader, Seeker; ReaderFrom is recorded, not called): sweeps 'consumers/*'",
		"Context.BindValidRequest":        "sweep 'library-callers' (typed flavour, RequestBinder that reads request.Body)",
		"Context.BindAndValidate":         "sweep 'library-callers' (untyped binder + consumer that reads what it is given); its callers validation.contentType and untypedParamBinder are reached through it",
		"runtime.JSONRequest":             "mode via-JSONRequest of 'library-callers': the request it builds around a stream is probed and bound",
		"IsSafe, AllowsBody, CanHaveBody": "operation MethodPredicates of 'consumers/*': they must neither replace nor read the body",
		"not covered":                     "APIHandler / Serve end to end (C06, C01 drive them; they reach the probe only through BindAndValidate), multipart and form binding (they parse the body through net/http, no probe), concurrent use of one request",
	})
	r.Set("edge_values", "sweeps 'edge-values/*': declared lengths {1, 2^31-1, 2^31, 2^32, 2^53+1, MaxInt64} as ContentLength with the header, without it and with leading zeros, and as Content-Length on the wire parsed by net/http (fewer bytes follow, the body ends with io.ErrUnexpectedEOF); 'nothing declared' as empty header value and as nil Header map; zero declared as \"00\"; body bytes TAB, DEL, 0xEF (first byte of a BOM), '%', '{' in front, bodies up to 65537 bytes")
	r.Set("operations", opNames[:])
	r.Set("epilogue", "after every history, for every request in turn: Read(4096) until the terminal condition, Read(1), Close, Read(1), Close, Read(4096) - all judged by the same oracle")
	r.Set("stream_choice_point", "every Read the underlying stream receives before it has delivered its terminal: full | 1 byte | all but one | all + terminal together | (0,nil); every Close it receives: nil | error (the stream counts as closed either way)")
	r.Set("several_requests", "sweeps 'two-requests' / 'three-requests': the requests are created first and stay alive together in one process; histories interleave their operations in every order; bodies of A, B, C have disjoint byte values; each request has its own stream, close counter and reference model, and the close-count clauses of ALL requests are evaluated after every operation")
	r.Set("process_model", fmt.Sprintf("%d worker processes, each executing its share of the items strictly one execution after the other on one goroutine (process-wide state of the implementation sees a deterministic sequence); a worker that dies is attributed to the case it was executing (class crash) and restarted behind it", W))
	r.Set("sweeps", sweepInfo)
	r.Set("replay_divergences", mg.diverged)
	r.Set("worker_crashes", mg.crashes)
	if mg.unattributed > 0 {
		fmt.Fprintf(os.Stderr, "C17: %d worker death(s) did not reproduce when the item was explored alone (last: %s); not a verdict, run reported as not exhaustive\n", mg.unattributed, mg.lastUnattributed)
	}
	r.Set("max_choice_points_in_one_execution", total.maxChoices)
	r.Set("state_definition", "distinct tuples, over the requests of the execution, of (configuration, model state {yielded, terminal seen, closed, last probe answer}, observable implementation/environment state {request body kind nil|original|replaced, underlying offset, terminal delivered, closes, close errors, zero-length reads used}) reached after some operation")
	r.Assume(
		"the underlying stream is well behaved in the sense of io.Reader: its terminal condition (EOF or an error after byte k) is sticky, and it returns an error when read after Close (whether or not that Close reported an error)",
		"requests are consistent: a Content-Length header accompanies ContentLength only with the same value; ContentLength 0 or -1 without header is 'no length declared'",
		"a HasBody answer is forced only while sentence 1 (same answer as before) and sentence 2 (positive declared length, or undeclared and a byte can be read) agree; after consumption or Close between two probes it is MAY",
		"several-request histories run their operations one after the other on one goroutine: no concurrent calls into the library",
	)
	if mg.diverged > 0 && r.Failed() == 0 {
		// the implementation did not behave as a function of (configuration, history, stream answers), yet no clause
		// was seen violated: that is an escaped source of nondeterminism, not a verdict
		fmt.Fprintf(os.Stderr, "C17: %d replay divergences without any oracle failure: internal error\n", mg.diverged)
		os.Exit(2)
	}
	r.Finish("one execution = (configuration tuple of 1-3 requests, interleaved operation history incl. fixed epilogue per request, choice sequence of the underlying streams' Read and Close answers); the enumerators never repeat a triple inside a sweep (every history of the stated lengths once, every choice sequence within the bound once). Non-trivial = for EVERY request of the execution a HasBody call replaced the body by a peeking wrapper around a non-nil stream AND at least one later HasBody/Read/Close of that request was served through the wrapper", !mg.cut)
}

// ---------------------------------------------------------------------------
// replay: the case runs in a child process so that a case that kills the process still yields a verdict

type replayResult struct {
	Class string `json:"class"`
	What  string `json:"what"`
}

func replayChild(path string) {
	debug.SetMaxStack(maxStack)
	b, err := os.ReadFile(path)
	if err != nil {
		fmt.Fprintln(os.Stderr, err)
		os.Exit(2)
	}
	var c Case
	if err := json.Unmarshal(b, &c); err != nil {
		fmt.Fprintln(os.Stderr, err)
		os.Exit(2)
	}
	cl, what := check(c, func(f string, a ...any) { fmt.Printf(f+"\n", a...) })
	if cl == classDiverged {
		cl, what = "bad-replay-file", "the choice list does not fit the execution: "+what
	}
	j, _ := json.Marshal(replayResult{cl, what})
	fmt.Printf("RESULT %s\n", j)
}

func replayParent(r *report.R) {
	var c Case
	r.LoadReplay(&c)
	fmt.Printf("replay %+v\n", c)
	tmp, err := os.CreateTemp("/verif/.work", "c17-replay-*.json")
	if err != nil {
		_ = os.MkdirAll("/verif/.work", 0o755)
		if tmp, err = os.CreateTemp("/verif/.work", "c17-replay-*.json"); err != nil {
			fmt.Fprintln(os.Stderr, err)
			os.Exit(2)
		}
	}
	defer os.Remove(tmp.Name())
	cj, _ := json.Marshal(c)
	_, _ = tmp.Write(cj)
	_ = tmp.Close()
	cmd := osexec.Command(self(), "replay-child", tmp.Name())
	var errBuf strings.Builder
	cmd.Stderr = &limitedWriter{w: &errBuf, left: 2048}
	outB, _ := cmd.Output()
	var res replayResult
	got := false
	for _, l := range strings.Split(string(outB), "\n") {
		if rest, ok := strings.CutPrefix(l, "RESULT "); ok {
			got = json.Unmarshal([]byte(rest), &res) == nil
		} else if l != "" {
			fmt.Println(l)
		}
	}
	if !got {
		res = replayResult{"crash", "the process dies executing this case: " + fatalLine(errBuf.String())}
	}
	fmt.Printf("  class=%q %s\n", res.Class, res.What)
	if res.Class != "" {
		r.Fail(res.Class, res.What, c)
	}
	r.Eval(1)
	r.Traces(1)
	r.Nontrivial(2)
	r.Sample(c)
	os.Remove(tmp.Name())
	r.Finish("replay of one case", false)
}
