// C17 - probing a request for a body (runtime.HasBody) never loses, reorders or
// fabricates body bytes.
//
// Explicit-state search over operation sequences (E4) crossed with a
// deviation-bounded exploration of the underlying stream's behaviour (E2):
//
//	configuration  = body (nil | L bytes) x terminal (EOF | sticky error) x Content-Length mode
//	history        = every sequence over {HasBody, Read(0), Read(1), Read(2), Read(4096), Close}
//	                 up to a depth, followed by a fixed epilogue (drain, read past the end,
//	                 close, read after close, close again)
//	environment    = every answer of the scripted underlying stream at every Read it receives
//	                 (full / 1 byte / all but one / data together with the terminal /
//	                 zero-length read) and at every Close it receives (nil / error),
//	                 up to a bound on non-default answers
//	several requests = two (thorough: also three) requests alive in the same process, their
//	                 operations interleaved in every order up to a depth, bodies chosen to
//	                 collide (byte-less or erroring body next to bodies with distinct content);
//	                 each request is judged by its own reference model, so any state the
//	                 implementation shares between requests shows as a deviation
//
// Every (configuration, history, environment) triple is executed on the real
// runtime.HasBody / peekingReader and compared, after every single operation,
// with the reference model of DESIGN.md A.4 (a byte queue with a terminal
// condition), written from the property text.
package main

import (
	"bufio"
	"bytes"
	"context"
	"errors"
	"fmt"
	"io"
	"net/http"
	"net/url"
	"os"
	goruntime "runtime"
	"strconv"
	"strings"
	"sync/atomic"
	"time"

	"github.com/go-openapi/runtime"

	"verif/engine/choice"
	"verif/engine/enum"
)

// ---------------------------------------------------------------------------
// the environment: a scripted underlying stream whose nondeterminism is owned
// by the chooser

var (
	errInjected = errors.New("injected stream error")
	errClosed   = errors.New("scripted stream: read after close")
	errCloseErr = errors.New("scripted stream: close failed")
)

// stream delivers data and then term (sticky). Every Read with a non-empty
// buffer that arrives before the terminal condition has been delivered is a
// choice point (option 0 is what bytes.Reader would do):
//
//	rem > 0:  [m = min(len(p), rem) bytes] [1 byte, if m > 1] [m-1 bytes, if m > 2]
//	          [m bytes together with the terminal, if m == rem] [(0, nil), while the budget lasts]
//	rem == 0: [terminal] [(0, nil), while the budget lasts]
//
// Every Close it receives is a choice point too: [nil] [error]. Whatever it answers, it counts
// as a close of the stream (reads fail afterwards), as for a connection whose teardown reports an error.
type stream struct {
	site       string // name of the choice sites (one stream per request)
	data       []byte
	term       error
	c          *choice.Chooser
	zeroBudget int

	pos            int
	closes         int
	zeroUsed       int
	reads          int
	readsAfterCl   int
	termDelivered  bool
	closeErrs      int
	maxReadRequest int

	// "nothing is read from the underlying stream except through the request body": the harness raises inCall
	// around each of its own calls; a Read that is entered or completes while it is down is counted
	inCall  atomic.Bool
	outside atomic.Int32
	block   *blocker // non-nil: the first Read received while armed parks until the harness releases it
}

// blocker makes one Read of the stream block, with the hand-shake done by channels: the stream signals
// "Read entered" and waits for "release"; "firstDone" is closed when that Read has delivered.
type blocker struct {
	armed     atomic.Bool
	taken     atomic.Bool
	entered   chan struct{}
	release   chan struct{}
	firstDone chan struct{}
}

func newBlocker() *blocker {
	return &blocker{entered: make(chan struct{}), release: make(chan struct{}), firstDone: make(chan struct{})}
}

func (s *stream) Read(p []byte) (int, error) {
	if !s.inCall.Load() {
		s.outside.Add(1)
	}
	if b := s.block; b != nil && b.armed.Load() && b.taken.CompareAndSwap(false, true) {
		close(b.entered)
		<-b.release
		n, err := s.read(p)
		if !s.inCall.Load() {
			s.outside.Add(1)
		}
		close(b.firstDone)
		return n, err
	}
	return s.read(p)
}

func (s *stream) read(p []byte) (int, error) {
	s.reads++
	if s.closes > 0 {
		s.readsAfterCl++
		return 0, errClosed
	}
	if s.termDelivered {
		return 0, s.term
	}
	if len(p) == 0 {
		return 0, nil
	}
	if len(p) > s.maxReadRequest {
		s.maxReadRequest = len(p)
	}
	rem := len(s.data) - s.pos
	const (
		kFull = iota
		kOne
		kButOne
		kWithTerm
		kZero
		kTerm
	)
	var opts [5]uint8
	n := 0
	m := len(p)
	if m > rem {
		m = rem
	}
	if rem == 0 {
		opts[n] = kTerm
		n++
	} else {
		opts[n] = kFull
		n++
		if m > 1 {
			opts[n] = kOne
			n++
		}
		if m > 2 {
			opts[n] = kButOne
			n++
		}
		if m == rem {
			opts[n] = kWithTerm
			n++
		}
	}
	if s.zeroUsed < s.zeroBudget {
		opts[n] = kZero
		n++
	}
	o := opts[0]
	if n > 1 {
		o = opts[s.c.Choose(s.site+".Read", n)]
	}
	k := 0
	switch o {
	case kZero:
		s.zeroUsed++
		return 0, nil
	case kTerm:
		s.termDelivered = true
		return 0, s.term
	case kFull, kWithTerm:
		k = m
	case kOne:
		k = 1
	case kButOne:
		k = m - 1
	}
	copy(p, s.data[s.pos:s.pos+k])
	s.pos += k
	if o == kWithTerm {
		s.termDelivered = true
		return k, s.term
	}
	return k, nil
}

func (s *stream) Close() error {
	s.closes++
	if s.c.Choose(s.site+".Close", 2) == 1 {
		s.closeErrs++
		return errCloseErr
	}
	return nil
}

// ---------------------------------------------------------------------------
// configurations, operations, cases

const (
	modeAbsent0     = "absent"            // ContentLength 0, no header: nothing declared
	modeAbsentMinus = "absent-unknown"    // ContentLength -1, no header: nothing declared (chunked)
	modeZero        = "zero-header"       // ContentLength 0, header "Content-Length: 0"
	modePositive    = "positive-header"   // ContentLength n > 0 and the header
	modePositiveNH  = "positive-noheader" // ContentLength n > 0 without header (as http.NewRequest builds it)
	modeJSONRequest = "via-JSONRequest"   // request built by runtime.JSONRequest around the stream (nothing declared)

	// edge shapes of "declared" / "not declared" that net/http can deliver or a hand-built request legally has
	modeAbsentEmptyHdr = "absent-empty-header"                  // ContentLength -1, header present with an empty value: nothing declared
	modeAbsentNilHdr   = "absent-nil-header-map"                // ContentLength -1, Header map nil (a literal &http.Request{}): nothing declared
	modeZero00         = "zero-header-00"                       // ContentLength 0, header "00" (net/http accepts leading zeros): zero declared
	modePositiveLZ     = "positive-leading-zeros"               // ContentLength n > 0, header "00n"
	modeWireCLHuge     = "wire:content-length-larger-than-sent" // Content-Length: N on the wire, fewer bytes follow, the connection ends: net/http's body ends with io.ErrUnexpectedEOF

	// requests as net/http delivers them: the raw request text arrives over the scripted stream (which then
	// plays the connection, chunked at the explorer's will) and is parsed by http.ReadRequest; the body the
	// code under test sees is net/http's own body type
	modeWireCL       = "wire:content-length" // Content-Length: n (n may be 0)
	modeWireChunked  = "wire:chunked"        // Transfer-Encoding: chunked, payload in one chunk
	modeWireChunked2 = "wire:chunked-split"  // ... payload split in two chunks
	modeWireNone     = "wire:no-length"      // neither header (payload must be empty)
)

var allModes = []string{modeAbsentEmptyHdr, modeAbsentNilHdr, modeZero00, modePositiveLZ, modeWireCLHuge, modeJSONRequest, modeAbsent0, modeAbsentMinus, modeZero, modePositive, modePositiveNH, modeWireCL, modeWireChunked, modeWireChunked2, modeWireNone}

func isWire(mode string) bool { return strings.HasPrefix(mode, "wire:") }

// wireOK: which (body, terminal) pairs a wire mode can carry.
func wireOK(mode string, bodyLen int, term error) bool {
	if mode == modeWireCLHuge {
		return bodyLen >= 0 && term == io.ErrUnexpectedEOF
	}
	return bodyLen >= 0 && term == io.EOF && (mode != modeWireNone || bodyLen == 0)
}

// wireText renders a POST request carrying payload under the given framing.
func wireText(mode string, payload []byte, declN int64) []byte {
	var b bytes.Buffer
	b.WriteString("POST /x HTTP/1.1\r\nHost: h\r\nContent-Type: application/octet-stream\r\n")
	chunk := func(p []byte) {
		if len(p) > 0 {
			fmt.Fprintf(&b, "%x\r\n", len(p))
			b.Write(p)
			b.WriteString("\r\n")
		}
	}
	switch mode {
	case modeWireCL:
		fmt.Fprintf(&b, "Content-Length: %d\r\n\r\n", len(payload))
		b.Write(payload)
	case modeWireCLHuge:
		fmt.Fprintf(&b, "Content-Length: %d\r\n\r\n", declN)
		b.Write(payload)
	case modeWireChunked, modeWireChunked2:
		b.WriteString("Transfer-Encoding: chunked\r\n\r\n")
		if mode == modeWireChunked2 {
			chunk(payload[:len(payload)/2])
			chunk(payload[len(payload)/2:])
		} else {
			chunk(payload)
		}
		b.WriteString("0\r\n\r\n")
	case modeWireNone:
		b.WriteString("\r\n")
	}
	return b.Bytes()
}

const (
	opHasBody = iota
	opRead0
	opRead1
	opRead2
	opRead4096
	opClose
	opRead4095 // extended alphabet (thorough only): just below / well above the 4096-byte buffer of bufio
	opRead8192
	// the other ways a user consumes request.Body (consume.go); judged by the same model
	opCopy        // io.Copy(plain writer, body): WriterTo of the body when it has one, else Read
	opCopyRF      // io.Copy(*bytes.Buffer, body): WriterTo of the body, else ReaderFrom of the destination
	opReadAll     // io.ReadAll(body)
	opCopyN2      // io.CopyN(w, body, 2): a prefix, further operations follow
	opBufioBytes  // bufio.NewReader(body), ReadByte until it fails
	opBufioWrTo   // bufio.NewReader(body).WriteTo(w)
	opOptional    // every optional interface the installed body turns out to implement (type assertion at run time)
	opPredicates  // runtime.IsSafe / AllowsBody / CanHaveBody on the request: must not touch the body
	opBindTyped   // the library's own callers of the probe: Context.BindValidRequest with a body-reading RequestBinder
	opBindUntyped // ... and Context.BindAndValidate (untyped binder + consumer)
	nOps
	nBaseOps = opClose + 1
)

var opNames = [nOps]string{"HasBody", "Read(0)", "Read(1)", "Read(2)", "Read(4096)", "Close", "Read(4095)", "Read(8192)",
	"io.Copy", "io.Copy(bytes.Buffer)", "io.ReadAll", "io.CopyN(2)", "bufio.ReadByte*", "bufio.WriteTo", "OptionalInterfaces", "MethodPredicates",
	"BindValidRequest", "BindAndValidate"}
var opReadSize = [nOps]int{-1, 0, 1, 2, 4096, -1, 4095, 8192, -1, -1, -1, -1, -1, -1, -1, -1, -1, -1}

// Case is the replayable form of one execution. The top-level body/term/mode describe request A;
// More lists requests B, C ... of a several-request history, whose operations are spelled "B.HasBody".
type Case struct {
	BodyLen    int       `json:"body_len"` // -1: the request has no body object at all (nil)
	Term       string    `json:"term"`     // "EOF" or "ERR" (sticky injected error after the last byte)
	Mode       string    `json:"mode"`
	FirstByte  *int      `json:"first_byte,omitempty"`          // request A: value of body byte 0 when it is not the pattern's (content axis)
	Ctx        string    `json:"ctx,omitempty"`                 // request A: "" background context | cancellable | cancel-before | deadline-expired | cancel-while-blocked | cancel-after-probe
	Blocking   bool      `json:"blocking_first_read,omitempty"` // the first underlying Read issued by the first probe parks until the harness releases it
	WaitMs     int       `json:"wait_ms,omitempty"`
	Declared   int64     `json:"declared_length,omitempty"` // positive modes: the declared length when it is not the body's length             // how long the harness waits for an early return of that probe before releasing the Read (stimulus only)
	More       []ReqSpec `json:"more,omitempty"`
	Ops        []string  `json:"ops"`
	ZeroBudget int       `json:"zero_budget"`
	Choices    []int     `json:"choices"` // answers of the streams' choice points (Read and Close), in order
}

// ReqSpec describes one further request.
type ReqSpec struct {
	BodyLen int    `json:"body_len"`
	Term    string `json:"term"`
	Mode    string `json:"mode"`
}

const maxReqs = 3

var reqNames = [maxReqs]string{"A", "B", "C"}

// an operation of a history: request index * opStride + operation
const opStride = 32

type config struct {
	id      int
	bodyLen int
	term    error
	mode    string
	data    []byte
	first   int    // -1: body byte 0 is the pattern's; otherwise its value
	declN   int64  // declared length of the positive modes when it is not the body's length (edge values: far larger than what the stream delivers)
	ctx     string // context of the request and the cancellation event (see Case.Ctx)
	block   bool   // blocking first read during the first probe
	waitMs  int
	wire    []byte // wire modes: the raw request text
}

// newConfig: which (0 = A, 1 = B, 2 = C) selects the body content, so that the bodies of
// requests that are alive together share no byte value at any offset.
func newConfig(id, bodyLen int, term error, mode string, which int) *config {
	return newConfigFirst(id, bodyLen, term, mode, which, -1)
}

// newConfigFirst: first >= 0 replaces body byte 0 (content axis: the answer of a probe and the bytes read
// back must not depend on what the bytes are - line breaks, blanks, 0x00, 0xFF).
func newConfigFirst(id, bodyLen int, term error, mode string, which, first int) *config {
	c := &config{id: id, bodyLen: bodyLen, term: term, mode: mode, first: -1}
	if bodyLen >= 0 {
		c.data = makeBody(bodyLen, which)
		if first >= 0 && bodyLen > 0 {
			c.data[0] = byte(first)
			c.first = first
		}
	}
	if isWire(mode) {
		c.wire = wireText(mode, c.data, 0)
	}
	return c
}

func termName(e error) string {
	switch e {
	case io.EOF:
		return "EOF"
	case io.ErrUnexpectedEOF:
		return "UEOF"
	}
	return "ERR"
}

// body byte i of request A is i mod 251: 251 is prime, so a shift by any buffer size (4096, 4095, 1 ...)
// changes bytes. Requests B and C start at 83 and 166.
func makeBody(n, which int) []byte {
	b := make([]byte, n)
	for i := range b {
		b[i] = byte((i + 83*which) % 251)
	}
	return b
}

const (
	ctxCancellable   = "cancellable"          // cancellable context, never cancelled while the history runs
	ctxCancelBefore  = "cancel-before"        // cancelled before the first operation
	ctxExpired       = "deadline-expired"     // deadline in the past
	ctxCancelBlocked = "cancel-while-blocked" // cancelled while the first probe's underlying Read is parked (needs blocking_first_read)
	ctxCancelAfter   = "cancel-after-probe"   // cancelled right after the first probe returned
)

// setDeclared fixes the declared length of a positive mode (0: the default, the body's length).
func (cfg *config) setDeclared(n int64) {
	cfg.declN = n
	if isWire(cfg.mode) {
		if cfg.mode == modeWireCLHuge && n <= int64(cfg.bodyLen) {
			cfg.declN = int64(cfg.bodyLen) + 1<<31
		}
		cfg.wire = wireText(cfg.mode, cfg.data, cfg.declN)
	}
}

func (cfg *config) String() string {
	if cfg.declN != 0 {
		c2 := *cfg
		c2.declN = 0
		return fmt.Sprintf("%s; declared length %d", c2.String(), cfg.declN)
	}
	if cfg.ctx != "" {
		c2 := *cfg
		c2.ctx = ""
		return fmt.Sprintf("%s; context %s, first read blocks=%v (wait %d ms)", c2.String(), cfg.ctx, cfg.block, cfg.waitMs)
	}
	if cfg.bodyLen < 0 {
		return "nil body, " + cfg.mode
	}
	if cfg.first >= 0 {
		return fmt.Sprintf("%d bytes (first byte %#02x) then %s, %s", cfg.bodyLen, cfg.first, termName(cfg.term), cfg.mode)
	}
	return fmt.Sprintf("%d bytes then %s, %s", cfg.bodyLen, termName(cfg.term), cfg.mode)
}

func opLabel(o uint8, multi bool) string {
	if !multi {
		return opNames[o%opStride]
	}
	return reqNames[o/opStride] + "." + opNames[o%opStride]
}

func mkCase(cfgs []*config, ops []uint8, zb int, choices []int) Case {
	c := Case{BodyLen: cfgs[0].bodyLen, Term: termName(cfgs[0].term), Mode: cfgs[0].mode, ZeroBudget: zb, Choices: choices, Ops: []string{}}
	if f := cfgs[0].first; f >= 0 {
		c.FirstByte = &f
	}
	c.Ctx, c.Blocking, c.WaitMs = cfgs[0].ctx, cfgs[0].block, cfgs[0].waitMs
	c.Declared = cfgs[0].declN
	for _, g := range cfgs[1:] {
		c.More = append(c.More, ReqSpec{g.bodyLen, termName(g.term), g.mode})
	}
	if c.Choices == nil {
		c.Choices = []int{}
	}
	for _, o := range ops {
		c.Ops = append(c.Ops, opLabel(o, len(cfgs) > 1))
	}
	return c
}

func parseReq(bodyLen int, termS, mode string, which, first int) (*config, error) {
	var term error
	switch termS {
	case "EOF", "":
		term = io.EOF
	case "ERR":
		term = errInjected
	case "UEOF":
		term = io.ErrUnexpectedEOF // what net/http reports for a chunked body that was cut
	default:
		return nil, fmt.Errorf("unknown terminal %q", termS)
	}
	ok := false
	for _, m := range allModes {
		ok = ok || m == mode
	}
	if !ok {
		return nil, fmt.Errorf("unknown mode %q", mode)
	}
	if bodyLen > 1<<20 {
		return nil, fmt.Errorf("body too long")
	}
	if isWire(mode) && !wireOK(mode, bodyLen, term) {
		return nil, fmt.Errorf("wire modes need a body length >= 0 (0 for %s) and terminal EOF", modeWireNone)
	}
	return newConfigFirst(which, bodyLen, term, mode, which, first), nil
}

func parseCase(c Case) ([]*config, []uint8, error) {
	if len(c.More) > maxReqs-1 {
		return nil, nil, fmt.Errorf("at most %d requests", maxReqs)
	}
	first := -1
	if c.FirstByte != nil && *c.FirstByte >= 0 && *c.FirstByte <= 255 {
		first = *c.FirstByte
	}
	cfg, err := parseReq(c.BodyLen, c.Term, c.Mode, 0, first)
	if err != nil {
		return nil, nil, err
	}
	switch c.Ctx {
	case "", ctxCancellable, ctxCancelBefore, ctxExpired, ctxCancelBlocked, ctxCancelAfter:
	default:
		return nil, nil, fmt.Errorf("unknown ctx %q", c.Ctx)
	}
	if c.WaitMs < 0 || c.WaitMs > 5000 {
		return nil, nil, fmt.Errorf("wait_ms out of range")
	}
	cfg.ctx, cfg.block, cfg.waitMs = c.Ctx, c.Blocking, c.WaitMs
	if c.Declared < 0 {
		return nil, nil, fmt.Errorf("declared_length must be positive")
	}
	if c.Declared != 0 || cfg.mode == modeWireCLHuge {
		cfg.setDeclared(c.Declared)
	}
	cfgs := []*config{cfg}
	for i, m := range c.More {
		g, err := parseReq(m.BodyLen, m.Term, m.Mode, i+1, -1)
		if err != nil {
			return nil, nil, err
		}
		cfgs = append(cfgs, g)
	}
	var ops []uint8
	for _, name := range c.Ops {
		which := 0
		if len(name) > 2 && name[1] == '.' {
			which = int(name[0] - 'A')
			name = name[2:]
			if which < 0 || which >= len(cfgs) {
				return nil, nil, fmt.Errorf("operation on a request that does not exist: %q", name)
			}
		}
		found := false
		for i, n := range opNames {
			if n == name {
				ops = append(ops, uint8(which*opStride+i))
				found = true
			}
		}
		if !found {
			return nil, nil, fmt.Errorf("unknown op %q", name)
		}
	}
	return cfgs, ops, nil
}

// ---------------------------------------------------------------------------
// outcome kinds (vacuity indicator) and per-shard statistics

const (
	oHasTrueDeclared = iota
	oHasFalseDeclaredZero
	oHasTruePeeked
	oHasFalseEmpty
	oHasFalseErrBeforeFirstByte
	oHasFalseNilBody
	oHasFalseClosed
	oHasFalseConsumed
	oHasMayAfterChange
	oReadData
	oReadDataWithTerm
	oReadTermEOF
	oReadTermErr
	oReadEmptyNil
	oReadPastTerminal
	oReadAfterCloseFails
	oReadZeroLenAfterClose
	oCloseFirst
	oCloseAgainError
	oCloseAgainNil
	oCloseFirstError
	oOpOnNilBodySkipped
	oPanic
	oWrapperInstalled
	oTypedNilInstalled
	oDrainedComplete
	oWireUnreadable
	oUnderlyingCloseFails
	oBulkComplete
	oBulkPrefix
	oBulkAfterClose
	oBulkPastTerminal
	oIfaceNone
	oIfaceWriterTo
	oIfaceByteReader
	oIfaceSeeker
	oIfaceReaderFrom
	oBinderInvoked
	oBinderNotInvoked
	oConsumerInvoked
	oConsumerNotInvoked
	oPredicates
	nOutcomes
)

var outcomeNames = [nOutcomes]string{
	"hasbody:true/declared-positive", "hasbody:false/declared-zero", "hasbody:true/byte-available",
	"hasbody:false/empty-stream", "hasbody:false/error-before-first-byte", "hasbody:false/nil-body",
	"hasbody:false/closed", "hasbody:false/all-consumed", "hasbody:unforced(after-consumption-or-close)",
	"read:data", "read:data+terminal", "read:terminal-EOF", "read:terminal-error", "read:(0,nil)",
	"read:past-terminal", "read:after-close-fails", "read:zero-length-after-close",
	"close:first", "close:again-error", "close:again-nil", "close:first-returns-error", "op-skipped:body-is-nil",
	"panic", "probe:peeking-wrapper-installed", "probe:typed-nil-body-installed", "epilogue:drained-to-terminal",
	"harness:wire-request-unreadable",
	"env:underlying-close-returns-error",
	"consume:to-the-terminal", "consume:prefix-only", "consume:after-close-yields-nothing", "consume:past-terminal",
	"body-implements:no-optional-interface", "body-implements:io.WriterTo", "body-implements:io.ByteReader", "body-implements:io.Seeker", "body-implements:io.ReaderFrom",
	"library-caller:binder-invoked", "library-caller:binder-not-invoked", "library-caller:consumer-invoked", "library-caller:consumer-not-invoked",
	"method-predicates:body-untouched",
}

type stats struct {
	outcomes    [nOutcomes]int64
	execs       int64
	nontrivial  int64
	transitions int64
	states      map[uint64]struct{}
	maxChoices  int
	buf         []byte
}

func newStats() *stats {
	return &stats{states: map[uint64]struct{}{}, buf: make([]byte, 8192)}
}

func mix(h uint64, v uint64) uint64 {
	h ^= v + 0x9e3779b97f4a7c15 + (h << 6) + (h >> 2)
	h *= 0xff51afd7ed558ccd
	h ^= h >> 33
	return h
}

// ---------------------------------------------------------------------------
// the reference model (DESIGN.md A.4) and one execution

type model struct {
	pos       int  // bytes the body has yielded so far
	termSeen  bool // the terminal condition has been yielded
	closed    bool // a Close was issued
	closedRaw bool // ... and it was issued directly on the untouched original stream (no code under test involved)
	hasLast   bool // a probe was made before
	last      bool // ... and that was its answer
}

const (
	kindNil = iota
	kindRaw
	kindReplaced
)

// exec runs one history under one environment on the real code. It returns
// ("","") when every clause held, otherwise the class and a description.
//
// cfgs has one entry per request; an operation addresses one request. Every
// request has its own scripted stream and its own reference model: nothing one
// request does is allowed to show in the observations of another.
func exec(cfgs []*config, ops []uint8, ch *choice.Chooser, zeroBudget int, st *stats, logf func(string, ...any)) (class, what string) {
	x := &xctx{ch: ch, zb: zeroBudget, st: st, logf: logf, multi: len(cfgs) > 1}
	st.execs++
	defer func() {
		if e := recover(); e != nil {
			if os.Getenv("C17_NORECOVER") != "" {
				panic(e)
			}
			msg := fmt.Sprint(e)
			if strings.HasPrefix(msg, "choice:") {
				// replay divergence: the same (configuration, history, choice prefix) made the streams see a different
				// sequence of calls than before - the implementation depends on something outside the request.
				// Not an oracle verdict by itself; the explorer counts it and does not descend further.
				class, what = classDiverged, msg
				return
			}
			st.outcomes[oPanic]++
			class = "panic"
			// classifier of the (repaired) defect C17-nil-body-close-panics: the request had no body object, was
			// probed on the undeclared-length path (which installs a typed-nil body), and Close dereferences nil
			if q := x.curSess; q != nil && q.cfg.bodyLen < 0 && q.probedUndeclared && strings.Contains(x.cur, "Close") &&
				strings.Contains(msg, "nil pointer dereference") {
				class = "panic/close-after-probe-of-nil-body"
			}
			what = fmt.Sprintf("step %d %s panics: %s", x.step, x.cur, msg)
			if logf != nil {
				logf("  %-28s -> PANIC %s", x.cur, msg)
			}
		}
	}()
	for i, cfg := range cfgs {
		q := newSess(x, i, cfg)
		if q == nil {
			return "", "" // wire request unreadable: counted, never an oracle matter
		}
		x.sess = append(x.sess, q)
		if logf != nil {
			logf("request %s: %s; zero-length-read budget %d", reqNames[i], cfg, zeroBudget)
		}
	}
	for _, op := range ops {
		q := x.sess[op/opStride]
		if cl, w := q.apply(op%opStride, opLabel(op, x.multi)); cl != "" {
			return cl, w
		}
	}
	for _, q := range x.sess {
		if cl, w := q.epilogue(); cl != "" {
			return cl, w
		}
	}
	served := 0
	for _, q := range x.sess {
		if q.wrapped && q.served {
			served++
		}
	}
	if served == len(x.sess) {
		st.nontrivial++
	}
	if n := len(ch.Trace); n > st.maxChoices {
		st.maxChoices = n
	}
	return "", ""
}

type xctx struct {
	ch    *choice.Chooser
	zb    int
	st    *stats
	logf  func(string, ...any)
	multi bool

	step    int
	cur     string
	curSess *sess
	sess    []*sess
}

// record counts the transition and the state reached (all requests together).
func (x *xctx) record() {
	x.st.transitions++
	h := uint64(0)
	for _, q := range x.sess {
		h = mix(h, q.hash())
	}
	x.st.states[h] = struct{}{}
}

// sess is one request with its environment and its reference model.
type sess struct {
	x    *xctx
	name string
	cfg  *config
	req  *http.Request
	s    *stream // the underlying stream of the body, when the harness owns it (close counting applies)
	env  *stream // the scripted stream of this request: s, or the connection in wire modes
	orig io.ReadCloser

	declared         int // 0 nothing declared, 1 positive, 2 zero
	m                model
	probedUndeclared bool
	wrapped          bool // a probe replaced the (non-nil) body by a wrapper
	served           bool // ... and a later operation went through it

	cancel func() // cancellable contexts
	probes int    // HasBody calls made so far
}

func newSess(x *xctx, idx int, cfg *config) *sess {
	q := &sess{x: x, cfg: cfg, name: reqNames[idx]}
	q.req = &http.Request{Method: http.MethodPost, Header: http.Header{"Content-Type": {"application/octet-stream"}}, URL: &url.URL{Path: "/up"}}
	site := q.name + ".stream"
	if isWire(cfg.mode) {
		q.env = &stream{site: site, data: cfg.wire, term: io.EOF, c: x.ch, zeroBudget: x.zb}
		q.env.inCall.Store(true)
		rq, err := http.ReadRequest(bufio.NewReader(q.env))
		q.env.inCall.Store(false)
		if err != nil {
			x.st.outcomes[oWireUnreadable]++
			return nil
		}
		q.req = rq
		q.orig = rq.Body
	} else if cfg.bodyLen >= 0 {
		q.s = &stream{site: site, data: cfg.data, term: cfg.term, c: x.ch, zeroBudget: x.zb}
		q.env = q.s
		q.orig = q.s
		q.req.Body = q.s
	}
	switch cfg.mode {
	case modeWireCL:
		q.declared = 1
		if cfg.bodyLen == 0 {
			q.declared = 2
		}
	case modeWireCLHuge:
		q.declared = 1
	case modeAbsentEmptyHdr:
		q.req.ContentLength = -1
		q.req.Header["Content-Length"] = []string{""}
	case modeAbsentNilHdr:
		q.req.ContentLength = -1
		q.req.Header = nil
	case modeZero00:
		q.req.Header.Set("Content-Length", "00")
		q.declared = 2
	case modeWireChunked, modeWireChunked2, modeWireNone:
	case modeAbsent0:
	case modeJSONRequest:
		var body io.Reader
		if q.s != nil {
			body = q.s
		}
		rq, err := runtime.JSONRequest(http.MethodPost, "/up", body)
		if err != nil {
			panic("harness: JSONRequest: " + err.Error())
		}
		q.req = rq
		if q.s != nil {
			q.orig = rq.Body
		}
	case modeAbsentMinus:
		q.req.ContentLength = -1
	case modeZero:
		q.req.Header.Set("Content-Length", "0")
		q.declared = 2
	case modePositive, modePositiveNH, modePositiveLZ:
		n := int64(cfg.bodyLen)
		if n <= 0 {
			n = 7
		}
		if cfg.declN > 0 {
			n = cfg.declN
		}
		q.req.ContentLength = n
		switch cfg.mode {
		case modePositive:
			q.req.Header.Set("Content-Length", strconv.FormatInt(n, 10))
		case modePositiveLZ:
			q.req.Header.Set("Content-Length", "00"+strconv.FormatInt(n, 10))
		}
		q.declared = 1
	}
	if cfg.ctx != "" {
		var ctx context.Context
		if cfg.ctx == ctxExpired {
			ctx, q.cancel = context.WithDeadline(context.Background(), time.Unix(1, 0))
		} else {
			ctx, q.cancel = context.WithCancel(context.Background())
		}
		if cfg.ctx == ctxCancelBefore {
			q.cancel()
		}
		q.req = q.req.WithContext(ctx)
		if cfg.block && q.s != nil {
			q.s.block = newBlocker()
		}
	}
	return q
}

// one execution runs at a time per process (see explore.go), so one buffer does
var stackBuf = make([]byte, 128<<10)

// requestGoGoroutines counts the goroutines other than the caller that are executing code of request.go.
func requestGoGoroutines() int {
	buf := stackBuf[:goruntime.Stack(stackBuf, true)]
	n := 0
	for i, g := range strings.Split(string(buf), "\n\n") {
		if i == 0 {
			continue // the calling goroutine
		}
		if strings.Contains(g, "go-openapi/runtime.HasBody") || strings.Contains(g, "go-openapi/runtime.(*peekingReader)") || strings.Contains(g, "runtime/request.go:") {
			n++
		}
	}
	return n
}

const hangHorizon = 30 * time.Second // only turns a hang into a verdict; the operations take microseconds

// probe calls HasBody. For requests with a context it also places the cancellation event and checks that
// the call leaves nothing running; with a blocking first read it runs the hand-shake:
//
//	arm the stream, call HasBody on another goroutine, wait for "Read entered" (or for the call to return),
//	place the event (cancel), wait up to waitMs for an EARLY return (a stimulus: correct code cannot return
//	while the Read is parked), release the Read, wait until it has delivered, collect the answer.
func (q *sess) probe() (got bool, cl, what string) {
	q.probes++
	cfg := q.cfg
	if cfg.ctx == "" {
		return runtime.HasBody(q.req), "", ""
	}
	first := q.probes == 1
	defer func() {
		if first && cfg.ctx == ctxCancelAfter {
			q.cancel()
		}
	}()
	leak := func(when string) (string, string) {
		// settle loop of a leak check: on correct code the count is 0 at the first look
		deadline := time.Now().Add(20 * time.Second)
		for {
			n := requestGoGoroutines()
			if n == 0 {
				return "", ""
			}
			if time.Now().After(deadline) {
				return "probe-goroutine-left-running", fmt.Sprintf("step %d %s: %d goroutine(s) still execute request.go code %s", q.x.step, q.x.cur, n, when)
			}
			time.Sleep(time.Millisecond)
		}
	}
	var b *blocker
	if q.s != nil {
		b = q.s.block
	}
	if !first || b == nil {
		got = runtime.HasBody(q.req)
		cl, what = leak("after HasBody returned")
		return got, cl, what
	}
	// blocking first read
	type res struct {
		ans bool
		pan any
	}
	done := make(chan res, 1)
	b.armed.Store(true)
	go func() {
		var r res
		defer func() {
			r.pan = recover()
			done <- r
		}()
		r.ans = runtime.HasBody(q.req)
	}()
	finish := func(r res) {
		if r.pan != nil {
			panic(r.pan) // re-raised on the harness goroutine: judged like any other panic
		}
		got = r.ans
	}
	entered, returned := false, false
	horizon := time.NewTimer(hangHorizon)
	defer horizon.Stop()
	select {
	case <-b.entered:
		entered = true
	case r := <-done:
		returned = true
		finish(r)
	case <-horizon.C:
		b.armed.Store(false)
		return false, "hasbody-hangs", fmt.Sprintf("step %d %s neither read the stream nor returned within %v", q.x.step, q.x.cur, hangHorizon)
	}
	if entered {
		if cfg.ctx == ctxCancelBlocked {
			q.cancel()
		}
		if cfg.waitMs > 0 && cfg.ctx != ctxCancellable {
			w := time.NewTimer(time.Duration(cfg.waitMs) * time.Millisecond)
			select {
			case r := <-done:
				// HasBody returned while its own Read of the stream is still parked
				returned = true
				finish(r)
				q.s.inCall.Store(false)
				if n := requestGoGoroutines(); n > 0 {
					cl, what = "probe-outlives-call", fmt.Sprintf("step %d %s returned %v while %d goroutine(s) of request.go are still running (one is parked in the underlying Read it issued)", q.x.step, q.x.cur, got, n)
				}
			case <-w.C:
			}
			w.Stop()
		}
	}
	b.armed.Store(false)
	close(b.release)
	if entered {
		<-b.firstDone
	}
	if !returned {
		select {
		case r := <-done:
			finish(r)
		case <-horizon.C:
			return false, "hasbody-hangs", fmt.Sprintf("step %d %s did not return within %v after the underlying Read was released", q.x.step, q.x.cur, hangHorizon)
		}
	}
	if cl != "" {
		return got, cl, what
	}
	cl, what = leak("after HasBody returned and the parked Read was released")
	return got, cl, what
}

func (q *sess) kind() int {
	if q.req.Body == nil {
		return kindNil
	}
	if q.orig != nil && q.req.Body == q.orig {
		return kindRaw
	}
	return kindReplaced
}

// invariants: "closing the body closes the underlying stream exactly once" - and nothing else closes it.
// They hold whatever the underlying Close returned.
func (q *sess) invariants() (string, string) {
	s, m, x := q.s, &q.m, q.x
	if s == nil {
		return "", ""
	}
	switch {
	case !m.closed && s.closes != 0:
		return "underlying-closed-without-close", fmt.Sprintf("step %d %s: underlying stream of %s closed %d time(s) although that body was never closed", x.step, x.cur, q.name, s.closes)
	case m.closed && s.closes == 0:
		return "underlying-not-closed", fmt.Sprintf("step %d %s: body of %s was closed but the underlying stream was not", x.step, x.cur, q.name)
	case m.closed && s.closes > 1 && !m.closedRaw:
		return "underlying-closed-twice", fmt.Sprintf("step %d %s: underlying stream of %s closed %d times (its Close returned an error %d time(s))", x.step, x.cur, q.name, s.closes, s.closeErrs)
	}
	return "", ""
}

func (q *sess) hash() uint64 {
	m := &q.m
	h := uint64(q.cfg.id)
	h = mix(h, uint64(m.pos))
	b := uint64(q.kind())
	if m.termSeen {
		b |= 4
	}
	if m.closed {
		b |= 8
	}
	if m.closedRaw {
		b |= 16
	}
	if m.hasLast {
		b |= 32
	}
	if m.last {
		b |= 64
	}
	if env := q.env; env != nil {
		if env.termDelivered {
			b |= 128
		}
		b |= uint64(env.closes) << 8
		b |= uint64(env.zeroUsed) << 12
		b |= uint64(env.closeErrs) << 16
		h = mix(h, uint64(env.pos))
	}
	return mix(h, b)
}

// apply executes one operation on this request and judges the observation.
func (q *sess) apply(op uint8, label string) (string, string) {
	if q.env != nil {
		q.env.inCall.Store(true)
		defer q.env.inCall.Store(false)
	}
	cl, what := q.applyInner(op, label)
	if cl == "" && q.env != nil {
		q.env.inCall.Store(false)
		if n := q.env.outside.Load(); n > 0 {
			return "underlying-read-outside-call", fmt.Sprintf("step %d %s: %d Read call(s) reached the underlying stream of %s (or delivered) while no operation on its request body was in progress", q.x.step, label, n, q.name)
		}
	}
	return cl, what
}

func (q *sess) applyInner(op uint8, label string) (string, string) {
	x, st, logf, m, req := q.x, q.x.st, q.x.logf, &q.m, q.req
	B, T := q.cfg.data, q.cfg.term
	x.step++
	x.cur = label
	x.curSess = q
	step := x.step
	closeErrsBefore := 0
	if q.s != nil {
		closeErrsBefore = q.s.closeErrs
	}
	switch {
	case op == opHasBody:
		before := q.kind()
		got, pcl, pwhat := q.probe()
		req = q.req
		// sentence 2 of the property, evaluated on the model state
		var want bool
		var why int
		switch q.declared {
		case 1:
			want, why = true, oHasTrueDeclared
		case 2:
			want, why = false, oHasFalseDeclaredZero
		default:
			q.probedUndeclared = true
			switch {
			case q.cfg.bodyLen < 0:
				want, why = false, oHasFalseNilBody
			case m.closed:
				want, why = false, oHasFalseClosed
			case m.pos < len(B):
				want, why = true, oHasTruePeeked
			case m.pos > 0:
				want, why = false, oHasFalseConsumed
			case T == io.EOF:
				want, why = false, oHasFalseEmpty
			default:
				want, why = false, oHasFalseErrBeforeFirstByte
			}
		}
		if logf != nil {
			logf("  %-28s -> %v", label, got)
		}
		// sentence 1 ("asking again gives the same answer") and sentence 2 disagree once the body
		// has been consumed or closed between two probes: then neither answer is forced (MAY)
		if m.hasLast && m.last != want {
			st.outcomes[oHasMayAfterChange]++
		} else {
			if got != want {
				cl := "hasbody-wrong-answer"
				if m.hasLast {
					cl = "hasbody-not-repeatable"
				}
				return cl, fmt.Sprintf("step %d %s = %v, the property forces %v (%s; yielded so far %d of %d bytes, previous answer known=%v)", step, label, got, want, outcomeNames[why], m.pos, len(B), m.hasLast)
			}
			st.outcomes[why]++
		}
		m.hasLast, m.last = true, got
		if pcl != "" {
			return pcl, pwhat
		}
		if after := q.kind(); after != before {
			if after == kindReplaced && before == kindRaw {
				q.wrapped = true
				st.outcomes[oWrapperInstalled]++
			} else if after == kindReplaced && before == kindNil {
				st.outcomes[oTypedNilInstalled]++
			}
		} else if before == kindReplaced && q.wrapped {
			q.served = true
		}
	case op == opClose:
		switch q.kind() {
		case kindNil:
			st.outcomes[oOpOnNilBodySkipped]++
			if logf != nil {
				logf("  %-28s -> skipped, request body is nil", label)
			}
		case kindRaw:
			// the body is still the untouched original: a Close reaches the scripted stream directly.
			// The harness itself must not close it twice.
			if !m.closed {
				_ = req.Body.Close()
				m.closed, m.closedRaw = true, true
				st.outcomes[oCloseFirst]++
			}
			if logf != nil {
				logf("  %-28s -> (original body, no wrapper)", label)
			}
		default:
			if q.wrapped {
				q.served = true
			}
			err := req.Body.Close()
			switch {
			case !m.closed && err == nil:
				st.outcomes[oCloseFirst]++
			case !m.closed:
				st.outcomes[oCloseFirstError]++
			case err != nil:
				st.outcomes[oCloseAgainError]++
			default:
				st.outcomes[oCloseAgainNil]++
			}
			m.closed = true
			if logf != nil {
				c := "n/a"
				if q.s != nil {
					c = strconv.Itoa(q.s.closes)
				}
				logf("  %-28s -> err=%v underlying closes=%s", label, err, c)
			}
		}
	case op >= opCopy:
		if cl, w := q.consume(op, label); cl != "" {
			return cl, w
		}
	default:
		n := opReadSize[op]
		if q.kind() == kindNil {
			st.outcomes[oOpOnNilBodySkipped]++
			if logf != nil {
				logf("  %-28s -> skipped, request body is nil", label)
			}
			break
		}
		if q.kind() == kindReplaced && q.wrapped {
			q.served = true
		}
		buf := st.buf[:n]
		k, err := req.Body.Read(buf)
		if logf != nil {
			show := ""
			if k > 0 && k <= 4 {
				show = fmt.Sprintf(" % x", buf[:k])
			}
			logf("  %-28s -> (%d, %v)%s", label, k, err, show)
		}
		if k < 0 || k > n {
			return "read-count-out-of-range", fmt.Sprintf("step %d %s returned n=%d", step, label, k)
		}
		if m.closed {
			if n == 0 {
				st.outcomes[oReadZeroLenAfterClose]++
				break
			}
			if k > 0 {
				return "stale-data-after-close", fmt.Sprintf("step %d %s after Close returned %d byte(s) % x, err=%v", step, label, k, buf[:min(k, 8)], err)
			}
			if err == nil {
				return "read-after-close-succeeds", fmt.Sprintf("step %d %s after Close returned (0, nil)", step, label)
			}
			st.outcomes[oReadAfterCloseFails]++
			break
		}
		if k > 0 {
			if m.termSeen {
				return "bytes-after-terminal", fmt.Sprintf("step %d %s yielded %d byte(s) % x after the terminal condition had been yielded", step, label, k, buf[:min(k, 8)])
			}
			if m.pos+k > len(B) {
				return "fabricated-bytes", fmt.Sprintf("step %d %s yielded %d byte(s) % x at offset %d of a %d-byte body", step, label, k, buf[:min(k, 8)], m.pos, len(B))
			}
			if !bytes.Equal(buf[:k], B[m.pos:m.pos+k]) {
				i := 0
				for buf[i] == B[m.pos+i] {
					i++
				}
				return "wrong-bytes", fmt.Sprintf("step %d %s: byte at body offset %d is %#x, original is %#x", step, label, m.pos+i, buf[i], B[m.pos+i])
			}
			m.pos += k
		}
		switch {
		case err == nil && k > 0:
			st.outcomes[oReadData]++
		case err == nil:
			st.outcomes[oReadEmptyNil]++
		case m.termSeen:
			st.outcomes[oReadPastTerminal]++ // what follows the terminal is not forced, as long as it is no data
		default:
			if m.pos < len(B) {
				return "premature-terminal", fmt.Sprintf("step %d %s returned error %q after %d of %d bytes: %d byte(s) lost", step, label, err, m.pos, len(B), len(B)-m.pos)
			}
			if !errors.Is(err, T) {
				return "wrong-terminal", fmt.Sprintf("step %d %s ended the body with %q, the original terminal condition is %q", step, label, err, T)
			}
			m.termSeen = true
			switch {
			case k > 0:
				st.outcomes[oReadDataWithTerm]++
			case T == io.EOF:
				st.outcomes[oReadTermEOF]++
			default:
				st.outcomes[oReadTermErr]++
			}
		}
	}
	if q.s != nil && q.s.closeErrs > closeErrsBefore {
		st.outcomes[oUnderlyingCloseFails]++
	}
	// the close-count clauses are evaluated on every request after every operation: an operation on one
	// request must not close (or re-close) the stream of another
	for _, o := range x.sess {
		if cl, w := o.invariants(); cl != "" {
			return cl, w
		}
	}
	x.record()
	return "", ""
}

// epilogue, the same after every history: drain, read past the end, close, read after close, close again
func (q *sess) epilogue() (string, string) {
	if q.kind() == kindNil {
		return "", ""
	}
	m, B := &q.m, q.cfg.data
	pre := ""
	if q.x.multi {
		pre = q.name + "."
	}
	if !m.closed {
		limit := len(B) - m.pos + q.x.zb + 4
		for i := 0; !m.termSeen; i++ {
			if i >= limit {
				return "stall", fmt.Sprintf("epilogue of %s: %d reads of 4096 did not reach the terminal condition (yielded %d of %d bytes)", q.name, i, m.pos, len(B))
			}
			if cl, w := q.apply(opRead4096, pre+"drain:Read(4096)"); cl != "" {
				return cl, w
			}
		}
		q.x.st.outcomes[oDrainedComplete]++
		if cl, w := q.apply(opRead1, pre+"past-end:Read(1)"); cl != "" {
			return cl, w
		}
		if cl, w := q.apply(opClose, pre+"Close (epilogue)"); cl != "" {
			return cl, w
		}
	}
	if cl, w := q.apply(opRead1, pre+"after-close:Read(1)"); cl != "" {
		return cl, w
	}
	if cl, w := q.apply(opClose, pre+"Close again (epilogue)"); cl != "" {
		return cl, w
	}
	if cl, w := q.apply(opRead4096, pre+"after-close:Read(4096)"); cl != "" {
		return cl, w
	}
	return "", ""
}

// check is the pure per-case function used by the explorer's failure path and by --replay.
func check(c Case, logf func(string, ...any)) (string, string) {
	cfgs, ops, err := parseCase(c)
	if err != nil {
		return "bad-replay-file", err.Error()
	}
	return exec(cfgs, ops, choice.Replay(c.Choices), c.ZeroBudget, newStats(), logf)
}

// ---------------------------------------------------------------------------
// exploration

type bodySpec struct {
	n    int // -1 = nil body
	term error
}

type sweep struct {
	name       string
	bodies     []int // -1 = nil body
	modes      []string
	minLen     int // histories of length minLen..maxLen
	maxLen     int
	extended   bool // alphabet of 8 operations, and only histories that use Read(4095) or Read(8192) (the others are covered by the base sweeps)
	bound      int  // deviations of the streams from their default answers; -1 = unbounded
	zeroBudget int
	decls      []int64  // declared lengths of the positive modes (nil: the body's length)
	terms      []error  // terminal conditions (nil: EOF and the injected error)
	alphabet   []uint8  // operation alphabet (nil: the six base operations)
	need       []uint8  // when set: only histories that contain one of these operations (the others are covered elsewhere)
	ctxs       []string // context / cancellation axis (nil: background context)
	blocking   bool     // the first probe's first underlying Read parks; every history starts with that probe
	waitMs     int
	firsts     []int // content axis: values of body byte 0 for bodies of length >= 1 (-1 = the pattern's byte, 0x00); nil = pattern only

	// several-request sweeps: every ordered tuple of nreq bodies from multi, operations multiOps on each request
	nreq  int
	multi []bodySpec
}

// operations of the several-request histories (per request)
var multiOps = []uint8{opHasBody, opRead1, opRead4096, opClose}

// varied: the history probes, reads and closes (only used to pick informative samples for the evidence file).
func varied(ops []uint8) bool {
	var h, rd, c bool
	for _, o := range ops {
		o %= opStride
		h = h || o == opHasBody
		c = c || o == opClose
		rd = rd || opReadSize[o] > 0
	}
	return h && rd && c
}

func allSeqs(sw sweep) [][]uint8 {
	var out [][]uint8
	if sw.nreq > 1 {
		var alpha []uint8
		for q := 0; q < sw.nreq; q++ {
			for _, o := range multiOps {
				alpha = append(alpha, uint8(q*opStride)+o)
			}
		}
		for _, s := range enum.Seqs(len(alpha), sw.minLen, sw.maxLen) {
			q := make([]uint8, len(s))
			for i, v := range s {
				q[i] = alpha[v]
			}
			out = append(out, q)
		}
		return out
	}
	if sw.alphabet != nil {
		for _, s := range enum.Seqs(len(sw.alphabet), sw.minLen, sw.maxLen) {
			q := make([]uint8, len(s))
			has := len(sw.need) == 0
			for i, v := range s {
				q[i] = sw.alphabet[v]
				for _, nd := range sw.need {
					has = has || nd == q[i]
				}
			}
			if has {
				out = append(out, q)
			}
		}
		return out
	}
	alpha := nBaseOps
	if sw.extended {
		alpha = opRead8192 + 1
	}
	for _, s := range enum.Seqs(alpha, sw.minLen, sw.maxLen) {
		q := make([]uint8, len(s))
		ext := false
		for i, v := range s {
			q[i] = uint8(v)
			ext = ext || v >= nBaseOps
		}
		if sw.blocking {
			q = append([]uint8{opHasBody}, q...)
		}
		if ext == sw.extended {
			out = append(out, q)
		}
	}
	return out
}

const classDiverged = "!replay-diverged"

func specName(b bodySpec) string {
	if b.n < 0 {
		return "nil"
	}
	return fmt.Sprintf("%d+%s", b.n, termName(b.term))
}
