// C17 - probing a request for a body (runtime.HasBody) never loses, reorders or
// fabricates body bytes.
//
// Explicit-state search over operation sequences (E4) crossed with a
// deviation-bounded exploration of the underlying stream's behaviour (E2):
//
//	configuration  = body (nil | L bytes) x terminal (EOF | sticky error) x Content-Length mode
//	history        = every sequence over {HasBody, Read(0), Read(1), Read(2), Read(4096), Close}
//	                 up to a depth, followed by a fixed epilogue (drain, read past the end,
//	                 close, read after close, close again)
//	environment    = every answer of the scripted underlying stream at every Read it receives
//	                 (full / 1 byte / all but one / data together with the terminal /
//	                 zero-length read), up to a bound on non-default answers
//
// Every (configuration, history, environment) triple is executed on the real
// runtime.HasBody / peekingReader and compared, after every single operation,
// with the reference model of DESIGN.md A.4 (a byte queue with a terminal
// condition), written from the property text.
package main

import (
	"bufio"
	"bytes"
	"errors"
	"fmt"
	"io"
	"net/http"
	"runtime/debug"
	"strconv"
	"strings"
	"sync"
	"sync/atomic"
	"time"

	"github.com/go-openapi/runtime"

	"verif/engine/choice"
	"verif/engine/enum"
	"verif/engine/report"
)

// ---------------------------------------------------------------------------
// the environment: a scripted underlying stream whose nondeterminism is owned
// by the chooser

var (
	errInjected = errors.New("injected stream error")
	errClosed   = errors.New("scripted stream: read after close")
)

// stream delivers data and then term (sticky). Every Read with a non-empty
// buffer that arrives before the terminal condition has been delivered is a
// choice point (option 0 is what bytes.Reader would do):
//
//	rem > 0:  [m = min(len(p), rem) bytes] [1 byte, if m > 1] [m-1 bytes, if m > 2]
//	          [m bytes together with the terminal, if m == rem] [(0, nil), while the budget lasts]
//	rem == 0: [terminal] [(0, nil), while the budget lasts]
type stream struct {
	data       []byte
	term       error
	c          *choice.Chooser
	zeroBudget int

	pos            int
	closes         int
	zeroUsed       int
	reads          int
	readsAfterCl   int
	termDelivered  bool
	maxReadRequest int
}

func (s *stream) Read(p []byte) (int, error) {
	s.reads++
	if s.closes > 0 {
		s.readsAfterCl++
		return 0, errClosed
	}
	if s.termDelivered {
		return 0, s.term
	}
	if len(p) == 0 {
		return 0, nil
	}
	if len(p) > s.maxReadRequest {
		s.maxReadRequest = len(p)
	}
	rem := len(s.data) - s.pos
	const (
		kFull = iota
		kOne
		kButOne
		kWithTerm
		kZero
		kTerm
	)
	var opts [5]uint8
	n := 0
	m := len(p)
	if m > rem {
		m = rem
	}
	if rem == 0 {
		opts[n] = kTerm
		n++
	} else {
		opts[n] = kFull
		n++
		if m > 1 {
			opts[n] = kOne
			n++
		}
		if m > 2 {
			opts[n] = kButOne
			n++
		}
		if m == rem {
			opts[n] = kWithTerm
			n++
		}
	}
	if s.zeroUsed < s.zeroBudget {
		opts[n] = kZero
		n++
	}
	o := opts[0]
	if n > 1 {
		o = opts[s.c.Choose("stream.Read", n)]
	}
	k := 0
	switch o {
	case kZero:
		s.zeroUsed++
		return 0, nil
	case kTerm:
		s.termDelivered = true
		return 0, s.term
	case kFull, kWithTerm:
		k = m
	case kOne:
		k = 1
	case kButOne:
		k = m - 1
	}
	copy(p, s.data[s.pos:s.pos+k])
	s.pos += k
	if o == kWithTerm {
		s.termDelivered = true
		return k, s.term
	}
	return k, nil
}

func (s *stream) Close() error {
	s.closes++
	return nil
}

// ---------------------------------------------------------------------------
// configurations, operations, cases

const (
	modeAbsent0     = "absent"            // ContentLength 0, no header: nothing declared
	modeAbsentMinus = "absent-unknown"    // ContentLength -1, no header: nothing declared (chunked)
	modeZero        = "zero-header"       // ContentLength 0, header "Content-Length: 0"
	modePositive    = "positive-header"   // ContentLength n > 0 and the header
	modePositiveNH  = "positive-noheader" // ContentLength n > 0 without header (as http.NewRequest builds it)

	// requests as net/http delivers them: the raw request text arrives over the scripted stream (which then
	// plays the connection, chunked at the explorer's will) and is parsed by http.ReadRequest; the body the
	// code under test sees is net/http's own body type
	modeWireCL       = "wire:content-length" // Content-Length: n (n may be 0)
	modeWireChunked  = "wire:chunked"        // Transfer-Encoding: chunked, payload in one chunk
	modeWireChunked2 = "wire:chunked-split"  // ... payload split in two chunks
	modeWireNone     = "wire:no-length"      // neither header (payload must be empty)
)

var allModes = []string{modeAbsent0, modeAbsentMinus, modeZero, modePositive, modePositiveNH, modeWireCL, modeWireChunked, modeWireChunked2, modeWireNone}

func isWire(mode string) bool { return strings.HasPrefix(mode, "wire:") }

// wireOK: which (body, terminal) pairs a wire mode can carry.
func wireOK(mode string, bodyLen int, term error) bool {
	return bodyLen >= 0 && term == io.EOF && (mode != modeWireNone || bodyLen == 0)
}

// wireText renders a POST request carrying payload under the given framing.
func wireText(mode string, payload []byte) []byte {
	var b bytes.Buffer
	b.WriteString("POST /x HTTP/1.1\r\nHost: h\r\nContent-Type: application/octet-stream\r\n")
	chunk := func(p []byte) {
		if len(p) > 0 {
			fmt.Fprintf(&b, "%x\r\n", len(p))
			b.Write(p)
			b.WriteString("\r\n")
		}
	}
	switch mode {
	case modeWireCL:
		fmt.Fprintf(&b, "Content-Length: %d\r\n\r\n", len(payload))
		b.Write(payload)
	case modeWireChunked, modeWireChunked2:
		b.WriteString("Transfer-Encoding: chunked\r\n\r\n")
		if mode == modeWireChunked2 {
			chunk(payload[:len(payload)/2])
			chunk(payload[len(payload)/2:])
		} else {
			chunk(payload)
		}
		b.WriteString("0\r\n\r\n")
	case modeWireNone:
		b.WriteString("\r\n")
	}
	return b.Bytes()
}

const (
	opHasBody = iota
	opRead0
	opRead1
	opRead2
	opRead4096
	opClose
	opRead4095 // extended alphabet (thorough only): just below / well above the 4096-byte buffer of bufio
	opRead8192
	nOps
	nBaseOps = opClose + 1
)

var opNames = [nOps]string{"HasBody", "Read(0)", "Read(1)", "Read(2)", "Read(4096)", "Close", "Read(4095)", "Read(8192)"}
var opReadSize = [nOps]int{-1, 0, 1, 2, 4096, -1, 4095, 8192}

// Case is the replayable form of one execution.
type Case struct {
	BodyLen    int      `json:"body_len"` // -1: the request has no body object at all (nil)
	Term       string   `json:"term"`     // "EOF" or "ERR" (sticky injected error after the last byte)
	Mode       string   `json:"mode"`
	Ops        []string `json:"ops"`
	ZeroBudget int      `json:"zero_budget"`
	Choices    []int    `json:"choices"` // answers of the underlying stream's choice points, in order
}

type config struct {
	id      int
	bodyLen int
	term    error
	mode    string
	data    []byte
	wire    []byte // wire modes: the raw request text
}

func newConfig(id, bodyLen int, term error, mode string) *config {
	c := &config{id: id, bodyLen: bodyLen, term: term, mode: mode}
	if bodyLen >= 0 {
		c.data = makeBody(bodyLen)
	}
	if isWire(mode) {
		c.wire = wireText(mode, c.data)
	}
	return c
}

func termName(e error) string {
	if e == io.EOF {
		return "EOF"
	}
	return "ERR"
}

// body byte i is i mod 251: 251 is prime, so a shift by any buffer size (4096, 4095, 1 ...) changes bytes.
func makeBody(n int) []byte {
	b := make([]byte, n)
	for i := range b {
		b[i] = byte(i % 251)
	}
	return b
}

func (cfg *config) String() string {
	if cfg.bodyLen < 0 {
		return "nil body, " + cfg.mode
	}
	return fmt.Sprintf("%d bytes then %s, %s", cfg.bodyLen, termName(cfg.term), cfg.mode)
}

func mkCase(cfg *config, ops []uint8, zb int, choices []int) Case {
	c := Case{BodyLen: cfg.bodyLen, Term: termName(cfg.term), Mode: cfg.mode, ZeroBudget: zb, Choices: choices, Ops: []string{}}
	if c.Choices == nil {
		c.Choices = []int{}
	}
	for _, o := range ops {
		c.Ops = append(c.Ops, opNames[o])
	}
	return c
}

func parseCase(c Case) (*config, []uint8, error) {
	var term error
	switch c.Term {
	case "EOF", "":
		term = io.EOF
	case "ERR":
		term = errInjected
	default:
		return nil, nil, fmt.Errorf("unknown terminal %q", c.Term)
	}
	ok := false
	for _, m := range allModes {
		ok = ok || m == c.Mode
	}
	if !ok {
		return nil, nil, fmt.Errorf("unknown mode %q", c.Mode)
	}
	if c.BodyLen > 1<<20 {
		return nil, nil, fmt.Errorf("body too long")
	}
	if isWire(c.Mode) && !wireOK(c.Mode, c.BodyLen, term) {
		return nil, nil, fmt.Errorf("wire modes need a body length >= 0 (0 for %s) and terminal EOF", modeWireNone)
	}
	cfg := newConfig(0, c.BodyLen, term, c.Mode)
	var ops []uint8
	for _, name := range c.Ops {
		found := false
		for i, n := range opNames {
			if n == name {
				ops = append(ops, uint8(i))
				found = true
			}
		}
		if !found {
			return nil, nil, fmt.Errorf("unknown op %q", name)
		}
	}
	return cfg, ops, nil
}

// ---------------------------------------------------------------------------
// outcome kinds (vacuity indicator) and per-shard statistics

const (
	oHasTrueDeclared = iota
	oHasFalseDeclaredZero
	oHasTruePeeked
	oHasFalseEmpty
	oHasFalseErrBeforeFirstByte
	oHasFalseNilBody
	oHasFalseClosed
	oHasFalseConsumed
	oHasMayAfterChange
	oReadData
	oReadDataWithTerm
	oReadTermEOF
	oReadTermErr
	oReadEmptyNil
	oReadPastTerminal
	oReadAfterCloseFails
	oReadZeroLenAfterClose
	oCloseFirst
	oCloseAgainError
	oCloseAgainNil
	oCloseFirstError
	oOpOnNilBodySkipped
	oPanic
	oWrapperInstalled
	oTypedNilInstalled
	oDrainedComplete
	oWireUnreadable
	nOutcomes
)

var outcomeNames = [nOutcomes]string{
	"hasbody:true/declared-positive", "hasbody:false/declared-zero", "hasbody:true/byte-available",
	"hasbody:false/empty-stream", "hasbody:false/error-before-first-byte", "hasbody:false/nil-body",
	"hasbody:false/closed", "hasbody:false/all-consumed", "hasbody:unforced(after-consumption-or-close)",
	"read:data", "read:data+terminal", "read:terminal-EOF", "read:terminal-error", "read:(0,nil)",
	"read:past-terminal", "read:after-close-fails", "read:zero-length-after-close",
	"close:first", "close:again-error", "close:again-nil", "close:first-returns-error", "op-skipped:body-is-nil",
	"panic", "probe:peeking-wrapper-installed", "probe:typed-nil-body-installed", "epilogue:drained-to-terminal",
	"harness:wire-request-unreadable",
}

type stats struct {
	outcomes    [nOutcomes]int64
	execs       int64
	nontrivial  int64
	transitions int64
	states      map[uint64]struct{}
	maxChoices  int
	buf         []byte
}

func newStats() *stats {
	return &stats{states: map[uint64]struct{}{}, buf: make([]byte, 8192)}
}

func mix(h uint64, v uint64) uint64 {
	h ^= v + 0x9e3779b97f4a7c15 + (h << 6) + (h >> 2)
	h *= 0xff51afd7ed558ccd
	h ^= h >> 33
	return h
}

// ---------------------------------------------------------------------------
// the reference model (DESIGN.md A.4) and one execution

type model struct {
	pos       int  // bytes the body has yielded so far
	termSeen  bool // the terminal condition has been yielded
	closed    bool // a Close was issued
	closedRaw bool // ... and it was issued directly on the untouched original stream (no code under test involved)
	hasLast   bool // a probe was made before
	last      bool // ... and that was its answer
}

const (
	kindNil = iota
	kindRaw
	kindReplaced
)

// exec runs one history under one environment on the real code. It returns
// ("","") when every clause held, otherwise the class and a description.
func exec(cfg *config, ops []uint8, ch *choice.Chooser, zeroBudget int, st *stats, logf func(string, ...any)) (class, what string) {
	req := &http.Request{Method: http.MethodPost, Header: http.Header{}}
	var s *stream   // the underlying stream of the body, when the harness owns it (close counting applies)
	var env *stream // the scripted stream of this execution: s, or the connection in wire modes
	var orig io.ReadCloser
	st.execs++
	if isWire(cfg.mode) {
		env = &stream{data: cfg.wire, term: io.EOF, c: ch, zeroBudget: zeroBudget}
		rq, err := http.ReadRequest(bufio.NewReader(env))
		if err != nil {
			// not an oracle matter: the harness could not even obtain a request (reported in the evidence, expected 0)
			st.outcomes[oWireUnreadable]++
			return "", ""
		}
		req = rq
		orig = rq.Body
	} else if cfg.bodyLen >= 0 {
		s = &stream{data: cfg.data, term: cfg.term, c: ch, zeroBudget: zeroBudget}
		env = s
		orig = s
		req.Body = s
	}
	declared := 0 // 0 nothing declared, 1 positive, 2 zero
	switch cfg.mode {
	case modeWireCL:
		declared = 1
		if cfg.bodyLen == 0 {
			declared = 2
		}
	case modeWireChunked, modeWireChunked2, modeWireNone:
	case modeAbsent0:
	case modeAbsentMinus:
		req.ContentLength = -1
	case modeZero:
		req.Header.Set("Content-Length", "0")
		declared = 2
	case modePositive, modePositiveNH:
		n := cfg.bodyLen
		if n <= 0 {
			n = 7
		}
		req.ContentLength = int64(n)
		if cfg.mode == modePositive {
			req.Header.Set("Content-Length", strconv.Itoa(n))
		}
		declared = 1
	}
	B := cfg.data
	T := cfg.term
	var m model
	step := 0
	cur := ""
	probedUndeclared := false
	wrapped := false
	served := false

	kind := func() int {
		if req.Body == nil {
			return kindNil
		}
		if orig != nil && req.Body == orig {
			return kindRaw
		}
		return kindReplaced
	}

	defer func() {
		if e := recover(); e != nil {
			msg := fmt.Sprint(e)
			if strings.HasPrefix(msg, "choice:") {
				panic(e) // engine-level error (replay divergence): never an oracle verdict
			}
			st.outcomes[oPanic]++
			class = "panic"
			// classifier of the one known defect: the request had no body object, was probed on the
			// undeclared-length path (which installs a typed-nil body), and Close then dereferences nil
			if cfg.bodyLen < 0 && probedUndeclared && strings.HasPrefix(cur, "Close") &&
				strings.Contains(msg, "nil pointer dereference") {
				class = "panic/close-after-probe-of-nil-body"
			}
			what = fmt.Sprintf("step %d %s panics: %s", step, cur, msg)
			if logf != nil {
				logf("  %-28s -> PANIC %s", cur, msg)
			}
		}
	}()

	invariants := func() (string, string) {
		if s == nil {
			return "", ""
		}
		switch {
		case !m.closed && s.closes != 0:
			return "underlying-closed-without-close", fmt.Sprintf("step %d %s: underlying stream closed %d time(s) although the body was never closed", step, cur, s.closes)
		case m.closed && s.closes == 0:
			return "underlying-not-closed", fmt.Sprintf("step %d %s: body was closed but the underlying stream was not", step, cur)
		case m.closed && s.closes > 1 && !m.closedRaw:
			return "underlying-closed-twice", fmt.Sprintf("step %d %s: underlying stream closed %d times", step, cur, s.closes)
		}
		return "", ""
	}

	record := func() {
		st.transitions++
		h := uint64(cfg.id)
		h = mix(h, uint64(m.pos))
		b := uint64(kind())
		if m.termSeen {
			b |= 4
		}
		if m.closed {
			b |= 8
		}
		if m.closedRaw {
			b |= 16
		}
		if m.hasLast {
			b |= 32
		}
		if m.last {
			b |= 64
		}
		if env != nil {
			if env.termDelivered {
				b |= 128
			}
			b |= uint64(env.closes) << 8
			b |= uint64(env.zeroUsed) << 12
			h = mix(h, uint64(env.pos))
		}
		h = mix(h, b)
		st.states[h] = struct{}{}
	}

	apply := func(op uint8, label string) (string, string) {
		step++
		cur = label
		switch {
		case op == opHasBody:
			before := kind()
			got := runtime.HasBody(req)
			// sentence 2 of the property, evaluated on the model state
			var want bool
			var why int
			switch declared {
			case 1:
				want, why = true, oHasTrueDeclared
			case 2:
				want, why = false, oHasFalseDeclaredZero
			default:
				probedUndeclared = true
				switch {
				case cfg.bodyLen < 0:
					want, why = false, oHasFalseNilBody
				case m.closed:
					want, why = false, oHasFalseClosed
				case m.pos < len(B):
					want, why = true, oHasTruePeeked
				case m.pos > 0:
					want, why = false, oHasFalseConsumed
				case T == io.EOF:
					want, why = false, oHasFalseEmpty
				default:
					want, why = false, oHasFalseErrBeforeFirstByte
				}
			}
			if logf != nil {
				logf("  %-28s -> %v", label, got)
			}
			// sentence 1 ("asking again gives the same answer") and sentence 2 disagree once the body
			// has been consumed or closed between two probes: then neither answer is forced (MAY)
			if m.hasLast && m.last != want {
				st.outcomes[oHasMayAfterChange]++
			} else {
				if got != want {
					cl := "hasbody-wrong-answer"
					if m.hasLast {
						cl = "hasbody-not-repeatable"
					}
					return cl, fmt.Sprintf("step %d HasBody = %v, the property forces %v (%s; yielded so far %d of %d bytes, previous answer known=%v)", step, got, want, outcomeNames[why], m.pos, len(B), m.hasLast)
				}
				st.outcomes[why]++
			}
			m.hasLast, m.last = true, got
			if after := kind(); after != before {
				if after == kindReplaced && before == kindRaw {
					wrapped = true
					st.outcomes[oWrapperInstalled]++
				} else if after == kindReplaced && before == kindNil {
					st.outcomes[oTypedNilInstalled]++
				}
			} else if before == kindReplaced && wrapped {
				served = true
			}
		case op == opClose:
			switch kind() {
			case kindNil:
				st.outcomes[oOpOnNilBodySkipped]++
				if logf != nil {
					logf("  %-28s -> skipped, request body is nil", label)
				}
			case kindRaw:
				// the body is still the untouched original: a Close reaches the scripted stream directly.
				// The harness itself must not close it twice.
				if !m.closed {
					_ = req.Body.Close()
					m.closed, m.closedRaw = true, true
					st.outcomes[oCloseFirst]++
				}
				if logf != nil {
					logf("  %-28s -> (original body, no wrapper)", label)
				}
			default:
				if wrapped {
					served = true
				}
				err := req.Body.Close()
				switch {
				case !m.closed && err == nil:
					st.outcomes[oCloseFirst]++
				case !m.closed:
					st.outcomes[oCloseFirstError]++
				case err != nil:
					st.outcomes[oCloseAgainError]++
				default:
					st.outcomes[oCloseAgainNil]++
				}
				m.closed = true
				if logf != nil {
					c := "n/a"
					if s != nil {
						c = strconv.Itoa(s.closes)
					}
					logf("  %-28s -> err=%v underlying closes=%s", label, err, c)
				}
			}
		default:
			n := opReadSize[op]
			if kind() == kindNil {
				st.outcomes[oOpOnNilBodySkipped]++
				if logf != nil {
					logf("  %-28s -> skipped, request body is nil", label)
				}
				break
			}
			if kind() == kindReplaced && wrapped {
				served = true
			}
			buf := st.buf[:n]
			k, err := req.Body.Read(buf)
			if logf != nil {
				show := ""
				if k > 0 && k <= 4 {
					show = fmt.Sprintf(" % x", buf[:k])
				}
				logf("  %-28s -> (%d, %v)%s", label, k, err, show)
			}
			if k < 0 || k > n {
				return "read-count-out-of-range", fmt.Sprintf("step %d %s returned n=%d", step, label, k)
			}
			if m.closed {
				if n == 0 {
					st.outcomes[oReadZeroLenAfterClose]++
					break
				}
				if k > 0 {
					return "stale-data-after-close", fmt.Sprintf("step %d %s after Close returned %d byte(s) % x, err=%v", step, label, k, buf[:min(k, 8)], err)
				}
				if err == nil {
					return "read-after-close-succeeds", fmt.Sprintf("step %d %s after Close returned (0, nil)", step, label)
				}
				st.outcomes[oReadAfterCloseFails]++
				break
			}
			if k > 0 {
				if m.termSeen {
					return "bytes-after-terminal", fmt.Sprintf("step %d %s yielded %d byte(s) after the terminal condition had been yielded", step, label, k)
				}
				if m.pos+k > len(B) {
					return "fabricated-bytes", fmt.Sprintf("step %d %s yielded %d byte(s) at offset %d of a %d-byte body", step, label, k, m.pos, len(B))
				}
				if !bytes.Equal(buf[:k], B[m.pos:m.pos+k]) {
					i := 0
					for buf[i] == B[m.pos+i] {
						i++
					}
					return "wrong-bytes", fmt.Sprintf("step %d %s: byte at body offset %d is %#x, original is %#x", step, label, m.pos+i, buf[i], B[m.pos+i])
				}
				m.pos += k
			}
			switch {
			case err == nil && k > 0:
				st.outcomes[oReadData]++
			case err == nil:
				st.outcomes[oReadEmptyNil]++
			case m.termSeen:
				st.outcomes[oReadPastTerminal]++ // what follows the terminal is not forced, as long as it is no data
			default:
				if m.pos < len(B) {
					return "premature-terminal", fmt.Sprintf("step %d %s returned error %q after %d of %d bytes: %d byte(s) lost", step, label, err, m.pos, len(B), len(B)-m.pos)
				}
				if !errors.Is(err, T) {
					return "wrong-terminal", fmt.Sprintf("step %d %s ended the body with %q, the original terminal condition is %q", step, label, err, T)
				}
				m.termSeen = true
				switch {
				case k > 0:
					st.outcomes[oReadDataWithTerm]++
				case T == io.EOF:
					st.outcomes[oReadTermEOF]++
				default:
					st.outcomes[oReadTermErr]++
				}
			}
		}
		if cl, w := invariants(); cl != "" {
			return cl, w
		}
		record()
		return "", ""
	}

	if logf != nil {
		logf("configuration: %s; zero-length-read budget %d", cfg, zeroBudget)
	}
	for _, op := range ops {
		if cl, w := apply(op, opNames[op]); cl != "" {
			return cl, w
		}
	}

	// epilogue, the same after every history: drain, read past the end, close, read after close, close again
	if kind() != kindNil {
		if !m.closed {
			limit := len(B) - m.pos + zeroBudget + 4
			for i := 0; !m.termSeen; i++ {
				if i >= limit {
					return "stall", fmt.Sprintf("epilogue: %d reads of 4096 did not reach the terminal condition (yielded %d of %d bytes)", i, m.pos, len(B))
				}
				if cl, w := apply(opRead4096, "drain:Read(4096)"); cl != "" {
					return cl, w
				}
			}
			st.outcomes[oDrainedComplete]++
			if cl, w := apply(opRead1, "past-end:Read(1)"); cl != "" {
				return cl, w
			}
			if cl, w := apply(opClose, "Close (epilogue)"); cl != "" {
				return cl, w
			}
		}
		if cl, w := apply(opRead1, "after-close:Read(1)"); cl != "" {
			return cl, w
		}
		if cl, w := apply(opClose, "Close again (epilogue)"); cl != "" {
			return cl, w
		}
		if cl, w := apply(opRead4096, "after-close:Read(4096)"); cl != "" {
			return cl, w
		}
	}
	if wrapped && served {
		st.nontrivial++
	}
	if n := len(ch.Trace); n > st.maxChoices {
		st.maxChoices = n
	}
	return "", ""
}

// check is the pure per-case function used by the explorer's failure path and by --replay.
func check(c Case, logf func(string, ...any)) (string, string) {
	cfg, ops, err := parseCase(c)
	if err != nil {
		return "bad-replay-file", err.Error()
	}
	return exec(cfg, ops, choice.Replay(c.Choices), c.ZeroBudget, newStats(), logf)
}

// ---------------------------------------------------------------------------
// exploration

type sweep struct {
	name       string
	bodies     []int // -1 = nil body
	modes      []string
	minLen     int // histories of length minLen..maxLen
	maxLen     int
	extended   bool // alphabet of 8 operations, and only histories that use Read(4095) or Read(8192) (the others are covered by the base sweeps)
	bound      int  // deviations of the underlying stream from its default answers; -1 = unbounded
	zeroBudget int
}

// varied: the history probes, reads and closes (only used to pick informative samples for the evidence file).
func varied(ops []uint8) bool {
	var h, rd, c bool
	for _, o := range ops {
		h = h || o == opHasBody
		c = c || o == opClose
		rd = rd || opReadSize[o] > 0
	}
	return h && rd && c
}

func allSeqs(sw sweep) [][]uint8 {
	var out [][]uint8
	alpha := nBaseOps
	if sw.extended {
		alpha = nOps
	}
	for _, s := range enum.Seqs(alpha, sw.minLen, sw.maxLen) {
		q := make([]uint8, len(s))
		ext := false
		for i, v := range s {
			q[i] = uint8(v)
			ext = ext || v >= nBaseOps
		}
		if ext == sw.extended {
			out = append(out, q)
		}
	}
	return out
}

func main() {
	started := time.Now()
	r := report.Start("C17", "model_checking")
	// every probe allocates a 4 KiB bufio buffer inside the code under test; with report's default of 2000%
	// the heap balloons and the time goes into page faults (measured: sys 14 s vs 2 s)
	debug.SetGCPercent(400)
	if r.Replay != "" {
		var c Case
		r.LoadReplay(&c)
		fmt.Printf("replay %+v\n", c)
		cl, what := check(c, func(f string, a ...any) { fmt.Printf(f+"\n", a...) })
		fmt.Printf("  class=%q %s\n", cl, what)
		if cl != "" {
			r.Fail(cl, what, c)
		}
		r.Eval(1)
		r.Traces(1)
		r.Nontrivial(2)
		r.Sample(c)
		r.Finish("replay of one case", false)
	}

	small := []int{-1, 0, 1, 2, 3}
	big := []int{4095, 4096, 4097, 8193}
	undeclared := []string{modeAbsent0, modeAbsentMinus}
	declared := []string{modeZero, modePositive, modePositiveNH}
	wire := []string{modeWireCL, modeWireChunked, modeWireChunked2, modeWireNone}
	var sweeps []sweep
	declBodies := append(append([]int{}, small...), 4097)
	if r.Thorough() {
		sweeps = []sweep{
			{"small-bodies/undeclared/every-chunking", small, undeclared, 0, 5, false, -1, 2},
			{"buffer-sized-bodies/undeclared", big, undeclared, 0, 5, false, 2, 1},
			{"declared-length", declBodies, declared, 0, 5, false, 1, 1},
			{"net/http-delivered", []int{0, 1, 2, 3, 4096, 4097}, wire, 0, 5, false, 1, 1},
			{"extended-read-sizes/undeclared", []int{0, 1, 3, 4095, 4096, 4097, 8193, 12289}, undeclared, 1, 4, true, 1, 1},
			{"small-bodies/undeclared/len6", small, undeclared, 6, 6, false, 2, 1},
			{"small-bodies/undeclared/len7", small, undeclared, 7, 7, false, 1, 1},
		}
	} else {
		sweeps = []sweep{
			{"small-bodies/undeclared", small, undeclared, 0, 5, false, 2, 1},
			{"buffer-sized-bodies/undeclared", big[1:], undeclared, 0, 4, false, 1, 1},
			{"declared-length", declBodies, declared, 0, 3, false, 1, 1},
			{"net/http-delivered", []int{0, 1, 3, 4097}, wire, 0, 4, false, 1, 1},
		}
	}

	// own wall-clock limit, below the tier budgets (quick 60 s, thorough 10 min): on an overloaded machine the
	// run stops exploring and is reported exhaustive:false with the sweeps it completed - never as a failure
	limit := 40 * time.Second
	if r.Thorough() {
		limit = 8 * time.Minute
	}
	var cut atomic.Bool
	stop := func() bool {
		if r.OutOfTime() {
			return true
		}
		if time.Since(started) > limit {
			cut.Store(true)
			return true
		}
		return false
	}
	pool := sync.Pool{New: func() any { return newStats() }}
	var mu sync.Mutex
	global := map[uint64]struct{}{}
	var total stats
	cfgID := 0
	sweepInfo := map[string]any{}
	completed := []string{}
	for _, sw := range sweeps {
		var cfgs []*config
		for _, bl := range sw.bodies {
			terms := []error{io.EOF, errInjected}
			if bl < 0 {
				terms = terms[:1]
			}
			for _, t := range terms {
				for _, md := range sw.modes {
					cfgID++
					if isWire(md) && !wireOK(md, bl, t) {
						continue
					}
					cfgs = append(cfgs, newConfig(cfgID, bl, t, md))
				}
			}
		}
		seqs := allSeqs(sw)
		n := len(cfgs) * len(seqs)
		var swExecs int64
		var sampled atomic.Int32
		t0 := time.Now()
		rot := int(uint64(r.Seed) % uint64(n))
		enum.Parallel(n, stop, func(i int) {
			i = (i + rot) % n
			cfg := cfgs[i%len(cfgs)]
			ops := seqs[i/len(cfgs)]
			st := pool.Get().(*stats)
			choice.Explore(sw.bound, stop, func(ch *choice.Chooser) {
				cl, what := exec(cfg, ops, ch, sw.zeroBudget, st, nil)
				if cl != "" {
					r.Fail(cl, what, mkCase(cfg, ops, sw.zeroBudget, ch.Choices()))
				} else if len(ops) == sw.maxLen && ch.Deviations() > 0 && varied(ops) && sampled.Load() < 2 && sampled.Add(1) <= 2 {
					// two real executions per sweep: a longest history under a non-default stream behaviour
					r.Sample(mkCase(cfg, ops, sw.zeroBudget, ch.Choices()))
				}
			})
			mu.Lock()
			for k := range st.states {
				global[k] = struct{}{}
			}
			for k, v := range st.outcomes {
				total.outcomes[k] += v
			}
			total.execs += st.execs
			total.nontrivial += st.nontrivial
			total.transitions += st.transitions
			if st.maxChoices > total.maxChoices {
				total.maxChoices = st.maxChoices
			}
			swExecs += st.execs
			mu.Unlock()
			clear(st.states)
			*st = stats{states: st.states, buf: st.buf}
			pool.Put(st)
		})
		bound := any(sw.bound)
		if sw.bound < 0 {
			bound = "unbounded"
		}
		sweepInfo[sw.name] = map[string]any{
			"body_lengths(-1=nil)": sw.bodies, "terminals": []string{"EOF", "ERR(sticky, after the last byte)"}, "modes": sw.modes,
			"configurations": len(cfgs), "history_length": []int{sw.minLen, sw.maxLen}, "extended_alphabet": sw.extended, "histories": len(seqs),
			"stream_deviation_bound": bound, "zero_length_read_budget": sw.zeroBudget, "executions": swExecs, "wall_s": time.Since(t0).Seconds(),
		}
		if !r.Cut() && !cut.Load() {
			completed = append(completed, sw.name)
		}
	}
	r.Eval(total.execs)
	r.Traces(total.execs)
	r.Nontrivial(total.nontrivial)
	r.Transitions(total.transitions)
	r.States(int64(len(global)))
	for i, v := range total.outcomes {
		if v > 0 {
			r.Outcome(outcomeNames[i], v)
		}
	}
	r.Set("operations", opNames[:])
	r.Set("epilogue", "after every history: Read(4096) until the terminal condition, Read(1), Close, Read(1), Close, Read(4096) - all judged by the same oracle")
	r.Set("stream_choice_point", "every Read the underlying stream receives before it has delivered its terminal: full | 1 byte | all but one | all + terminal together | (0,nil)")
	r.Set("sweeps", sweepInfo)
	r.Set("sweeps_completed", completed)
	r.Set("max_choice_points_in_one_execution", total.maxChoices)
	r.Set("state_definition", "distinct (configuration, model state {yielded, terminal seen, closed, last probe answer}, observable implementation/environment state {request body kind nil|original|replaced, underlying offset, terminal delivered, closes, zero-length reads used}) reached after some operation")
	r.Assume(
		"the underlying stream is well behaved in the sense of io.Reader: its terminal condition (EOF or an error after byte k) is sticky, and it returns an error when read after Close",
		"requests are consistent: a Content-Length header accompanies ContentLength only with the same value; ContentLength 0 or -1 without header is 'no length declared'",
		"a HasBody answer is forced only while sentence 1 (same answer as before) and sentence 2 (positive declared length, or undeclared and a byte can be read) agree; after consumption or Close between two probes it is MAY",
	)
	r.Finish("one execution = (configuration, operation history incl. fixed epilogue, choice sequence of the underlying stream); the enumerators never repeat a triple inside a sweep (every history of length 0..depth once, choice.Explore visits each choice sequence within the bound once). Non-trivial = a HasBody call replaced the request body by a peeking wrapper around a non-nil stream AND at least one later HasBody/Read/Close was served through that wrapper", !cut.Load())
}
