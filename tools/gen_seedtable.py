#!/usr/bin/env python3
"""Regenerates the table of seeded changes in DESIGN.md section 8.4 from seeded/*/meta.json."""
import json, glob, os
rows = []
for d in sorted(glob.glob('/verif/seeded/*')):
    m = json.load(open(d + '/meta.json'))
    sid = os.path.basename(d)
    title = m.get('title', '')[:100].replace('|', '/').replace('\n', ' ')
    needs = m.get('needs_to_manifest', '')[:140].replace('|', '/').replace('\n', ' ')
    det = m.get('detected_by', '')[:120].replace('|', '/')
    rows.append(f"| {sid} | {title} | {needs} | {det} |")
p = '/verif/DESIGN.md'
s = open(p).read()
head = "| id | change | needs to manifest | reported by: classes (cases) |"
a = s.index(head)
s = s[:a] + head + "\n|---|---|---|---|\n" + "\n".join(rows) + "\n"
open(p, 'w').write(s)
print(len(rows), "rows")
