#!/bin/bash
# tools/allquick.sh [tier] : run every claimed check once, one after the other; print verdict lines.
cd /verif; tier=${1:-quick}
for id in $(python3 -c "import json; print(' '.join(c['property_id'] for c in json.load(open('MANIFEST.json'))['checks']))"); do
  s=$(date +%s); out=$(./run $id $tier 2>&1); rc=$?; e=$(( $(date +%s) - s ))
  echo "$id rc=$rc ${e}s $(echo "$out" | grep -c '^KNOWN-FINDING') known | $(echo "$out" | tail -1 | cut -c1-140)"
  echo "$out" | grep "^VIOLATION" | head -3
done
