#!/usr/bin/env python3
"""Regenerates MANIFEST.json from tools/checks.json (one entry per claimed property)
and properties.jsonl (every property not claimed is listed under not_applicable)."""
import json, os
root = os.path.dirname(os.path.dirname(os.path.abspath(__file__)))
checks = json.load(open(os.path.join(root, "tools", "checks.json")))
props = [json.loads(l)["id"] for l in open(os.path.join(root, "properties.jsonl")) if l.strip()]
claimed = {c["property_id"] for c in checks["checks"]}
out = {
    "version": 1,
    "setup_cmd": "./setup.sh",
    "hooks": checks["hooks"],
    "engines": checks["engines"],
    "checks": [],
    "notes": checks.get("notes", ""),
    "not_applicable": [],
}
for c in checks["checks"]:
    pid = c["property_id"]
    e = {
        "property_id": pid,
        "quick_cmd": f"./run {pid} quick",
        "thorough_cmd": f"./run {pid} thorough",
        "evidence_file": f"/verif/evidence/{pid}.json",
        "replay_cmd_template": f"./run {pid} --replay {{path}}",
        "engine": c["engine"],
        "level_claimed": c["level_claimed"],
        "level_note": c["level_note"],
        "technique": c["technique"],
    }
    out["checks"].append(e)
na = checks.get("not_applicable", {})
for p in props:
    if p not in claimed:
        out["not_applicable"].append({"property_id": p, "reason": na.get(p, "check not built yet in this session; design in DESIGN.md section 4")})
json.dump(out, open(os.path.join(root, "MANIFEST.json"), "w"), indent=1)
print("claimed", len(out["checks"]), "not_applicable", len(out["not_applicable"]))
