// Command mutgen lists mechanical mutants (operator swaps, negated conditions, deleted statements)
// of the functions that overlap given line ranges of one Go file, as JSON lines
// {"file","line","start","end","text","what"}: replace bytes [start,end) of the file by text.
//
//	mutgen <file> <from-to>[,<from-to>...]
package main

import (
	"encoding/json"
	"fmt"
	"go/ast"
	"go/parser"
	"go/token"
	"os"
	"strconv"
	"strings"
)

type mut struct {
	File  string `json:"file"`
	Line  int    `json:"line"`
	Start int    `json:"start"`
	End   int    `json:"end"`
	Text  string `json:"text"`
	What  string `json:"what"`
}

var swap = map[token.Token]string{
	token.EQL: "!=", token.NEQ: "==", token.LSS: "<=", token.LEQ: "<", token.GTR: ">=", token.GEQ: ">",
	token.LAND: "||", token.LOR: "&&",
}

func main() {
	file := os.Args[1]
	var ranges [][2]int
	for _, r := range strings.Split(os.Args[2], ",") {
		p := strings.SplitN(r, "-", 2)
		a, _ := strconv.Atoi(p[0])
		b := a
		if len(p) == 2 {
			b, _ = strconv.Atoi(p[1])
		}
		ranges = append(ranges, [2]int{a - 25, b + 25}) // the anchors' line numbers refer to the pinned tree
	}
	src, err := os.ReadFile(file)
	if err != nil {
		panic(err)
	}
	fset := token.NewFileSet()
	f, err := parser.ParseFile(fset, file, src, 0)
	if err != nil {
		panic(err)
	}
	off := func(p token.Pos) int { return fset.Position(p).Offset }
	line := func(p token.Pos) int { return fset.Position(p).Line }
	in := func(n ast.Node) bool {
		a, b := line(n.Pos()), line(n.End())
		for _, r := range ranges {
			if a <= r[1] && b >= r[0] {
				return true
			}
		}
		return false
	}
	enc := json.NewEncoder(os.Stdout)
	emit := func(m mut) { m.File = file; _ = enc.Encode(m) }
	for _, d := range f.Decls {
		fd, ok := d.(*ast.FuncDecl)
		if !ok || fd.Body == nil || !in(fd) {
			continue
		}
		ast.Inspect(fd.Body, func(n ast.Node) bool {
			switch x := n.(type) {
			case *ast.BinaryExpr:
				if to, ok := swap[x.Op]; ok && in(x) {
					emit(mut{Line: line(x.OpPos), Start: off(x.OpPos), End: off(x.OpPos) + len(x.Op.String()), Text: to,
						What: fmt.Sprintf("%s: %s -> %s", fd.Name.Name, x.Op, to)})
				}
			case *ast.IfStmt:
				if in(x) && x.Cond != nil {
					c := string(src[off(x.Cond.Pos()):off(x.Cond.End())])
					emit(mut{Line: line(x.Cond.Pos()), Start: off(x.Cond.Pos()), End: off(x.Cond.End()), Text: "!(" + c + ")",
						What: fmt.Sprintf("%s: negate condition %q", fd.Name.Name, trunc(c))})
				}
			case *ast.BlockStmt:
				for _, s := range x.List {
					if !in(s) {
						continue
					}
					switch st := s.(type) {
					case *ast.ExprStmt:
						if _, ok := st.X.(*ast.CallExpr); ok {
							emit(mut{Line: line(st.Pos()), Start: off(st.Pos()), End: off(st.End()), Text: "",
								What: fmt.Sprintf("%s: delete call %q", fd.Name.Name, trunc(string(src[off(st.Pos()):off(st.End())])))})
						}
					case *ast.AssignStmt:
						if st.Tok == token.ASSIGN {
							emit(mut{Line: line(st.Pos()), Start: off(st.Pos()), End: off(st.End()), Text: "",
								What: fmt.Sprintf("%s: delete assignment %q", fd.Name.Name, trunc(string(src[off(st.Pos()):off(st.End())])))})
						}
					case *ast.DeferStmt:
						emit(mut{Line: line(st.Pos()), Start: off(st.Pos()), End: off(st.End()), Text: "",
							What: fmt.Sprintf("%s: delete %q", fd.Name.Name, trunc(string(src[off(st.Pos()):off(st.End())])))})
					}
				}
			}
			return true
		})
	}
}

func trunc(s string) string {
	s = strings.Join(strings.Fields(s), " ")
	if len(s) > 60 {
		s = s[:60] + "..."
	}
	return s
}
