#!/usr/bin/env python3
"""tools/seedmatrix.py [--quick-only] [ids...] : run the property's quick check (then thorough if quick misses) against every
seeded change under /verif/seeded, in a scratch worktree of /repo, and record the verdict in meta.json."""
import json, os, subprocess, sys, glob, re
WT = f"/tmp/seedmx-{os.getpid()}"  # one scratch worktree per invocation (several agents may run this at once)
env = dict(os.environ, GOFLAGS="-mod=mod", GOPROXY="off", GOSUMDB="off", GOTOOLCHAIN="local")
def sh(cmd, **kw):
    return subprocess.run(cmd, shell=True, capture_output=True, text=True, errors="replace", env=env, **kw)
QUICK_ONLY = "--quick-only" in sys.argv
if QUICK_ONLY: sys.argv.remove("--quick-only")
ids = sys.argv[1:] or sorted(os.path.basename(p) for p in glob.glob("/verif/seeded/*"))
sh(f"git -C /repo worktree remove --force {WT}; git -C /repo worktree prune")
sh(f"git -C /repo worktree add -q --detach {WT} HEAD")
for sid in ids:
    d = f"/verif/seeded/{sid}"
    meta = json.load(open(f"{d}/meta.json"))
    prop = meta["property"]
    if meta.get("not_observable"):
        print(sid, "-> not observable through the exported API (kept for the record)", flush=True); continue
    extra = meta.get("also_checked_with", [])
    sh(f"git -C {WT} checkout -q -- . && git -C {WT} clean -fdq")
    sh(f"git -C {WT} checkout -q --detach HEAD 2>/dev/null; git -C {WT} reset -q --hard $(git -C /repo rev-parse HEAD)")
    r = sh(f"git -C {WT} apply {d}/patch.diff")
    if r.returncode != 0:
        # the patch was written against an older commit of /repo: fall back to that commit
        base = meta.get("base_commit", "fa80142")
        sh(f"git -C {WT} reset -q --hard {base}")
        r = sh(f"git -C {WT} apply {d}/patch.diff")
        if r.returncode != 0:
            print(sid, "PATCH DOES NOT APPLY", r.stderr[:200]); continue
    verdict = None
    for check, tier in [(prop, "quick")] + [(c, "quick") for c in extra] + ([] if QUICK_ONLY else [(prop, "thorough")]):
        r = sh(f"VERIF_REPO={WT} /verif/run {check} {tier}", cwd="/verif")
        classes = re.findall(r"^  class=(\S+) cases=(\d+)", r.stdout, re.M)
        if "VIOLATION" in r.stdout:
            verdict = f"{check} {tier}: " + ", ".join(f"{c} ({n})" for c, n in classes[:6])
            break
        if r.returncode not in (0, 1):
            verdict = f"{check} {tier}: check exited {r.returncode} without verdict: {(r.stderr or r.stdout)[-300:]}"
            break
    meta["detected_by"] = verdict or (f"MISSED by {prop} quick" if QUICK_ONLY else f"MISSED by {prop} quick and thorough")
    json.dump(meta, open(f"{d}/meta.json", "w"), indent=1)
    print(sid, "->", meta["detected_by"][:200], flush=True)
sh(f"git -C /repo worktree remove --force {WT}")
