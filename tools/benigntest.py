#!/usr/bin/env python3
"""tools/benigntest.py <round-prefix e.g. /tmp/seed7 | stored> [props...]
Runs the checks against changes that are meant to KEEP a property true (refactorings, correct
optimisations, behaviour the property does not speak about): the quick check of the property the
change was written for, and of every other property whose anchor files the patch touches, in a
scratch worktree of /repo HEAD. A VIOLATION here is either a false alarm of the check (to be
corrected) or a change that does break some property after all (to be looked at by hand)."""
import json, os, re, subprocess, sys, glob
env = dict(os.environ, GOFLAGS="-mod=mod", GOPROXY="off", GOSUMDB="off", GOTOOLCHAIN="local")
def sh(cmd, **kw):
    return subprocess.run(cmd, shell=True, capture_output=True, text=True, errors="replace", env=env, **kw)
prefix = sys.argv[1]  # a round prefix such as /tmp/seed7, or "stored" for the changes kept under /verif/benign
props = sys.argv[2:] or [f"C{i:02d}" for i in range(1, 21)]
anchors = {}
for l in open("/verif/properties.jsonl"):
    d = json.loads(l)
    anchors[d["id"]] = set(d["anchors"]["files"])
WT = f"/tmp/benign-{os.getpid()}"
sh(f"git -C /repo worktree add -q --detach {WT} HEAD")
for pid in props:
    out = f"{prefix}-{pid.lower()}-out"
    pfs = sorted(glob.glob(f"{out}/patch*.diff")) if prefix != "stored" else sorted(glob.glob(f"/verif/benign/{pid}-b*/patch.diff"))
    for pf in pfs:
        k = re.search(r"patch(\d+)\.diff", pf).group(1) if prefix != "stored" else re.search(r"-b(\d+)/", pf).group(1)
        sh(f"git -C {WT} checkout -q -- . && git -C {WT} clean -fdq")
        r = sh(f"git -C {WT} apply {pf}")
        if r.returncode:
            print(f"{pid}-b{k} PATCH DOES NOT APPLY {r.stderr[:120]}", flush=True); continue
        b = sh("go build ./...", cwd=WT)
        if b.returncode:
            print(f"{pid}-b{k} DOES NOT BUILD {b.stderr[-200:]}", flush=True); continue
        files = set(re.findall(r"^\+\+\+ b/(\S+)", open(pf).read(), re.M))
        checks = [pid] + sorted(c for c, a in anchors.items() if c != pid and a & files)
        res = []
        for c in checks:
            r = sh(f"VERIF_REPO={WT} /verif/run {c} quick", cwd="/verif")
            classes = re.findall(r"^  class=(\S+) cases=(\d+)", r.stdout, re.M)
            if "VIOLATION" in r.stdout:
                res.append(f"{c}: ALARM " + ", ".join(f"{x} ({n})" for x, n in classes[:4]))
            elif r.returncode != 0:
                res.append(f"{c}: exit {r.returncode} {(r.stderr or r.stdout)[-200:]!r}")
            else:
                m = re.search(r"exhaustive=(\w+)", r.stdout)
                res.append(f"{c}: silent" + ("" if not m or m.group(1) == "true" else " (not exhaustive)"))
        print(f"{pid}-b{k} [{','.join(sorted(files))}] -> " + " | ".join(res), flush=True)
sh(f"git -C /repo worktree remove --force {WT}")
