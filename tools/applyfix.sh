#!/bin/bash
# tools/applyfix.sh <diff> "<commit message>" : apply a candidate fix to /repo, run the repository's suite, commit.
set -u
export GOFLAGS=-mod=mod GOPROXY=off GOSUMDB=off GOTOOLCHAIN=local
d=$1; msg=$2
cd /repo || exit 2
git diff --quiet || { echo "repo working tree dirty"; exit 2; }
git apply "$d" || { echo "APPLY FAILED $d"; exit 1; }
go build ./... || { echo "BUILD FAILED"; git checkout -- .; exit 1; }
ok=0
for try in 1 2 3; do
  out=$(go test -vet=off -count=1 ./... 2>&1)
  if ! echo "$out" | grep -q "^FAIL\|^--- FAIL\|panic:"; then ok=1; break; fi
  echo "$out" | grep -A5 "^--- FAIL" | head -20
  echo "(retry $try)"
done
[ $ok = 1 ] || { echo "TESTS FAILED"; git checkout -- .; exit 1; }
git commit -qam "$msg" && git log --oneline | head -1
