#!/usr/bin/env python3
"""tools/seedimport.py <round-prefix e.g. /tmp/seed3> <first new index e.g. 5> [props...]
Confirms each delivered seeded change (suite passes with it, demo fails with it, demo passes without it) in a
scratch worktree and copies it to /verif/seeded/<Cxx-k>/."""
import json, os, re, shutil, subprocess, sys, glob
env = dict(os.environ, GOFLAGS="-mod=mod", GOPROXY="off", GOSUMDB="off", GOTOOLCHAIN="local")
def sh(cmd, **kw): return subprocess.run(cmd, shell=True, capture_output=True, text=True, errors="replace", env=env, **kw)
prefix, first = sys.argv[1], int(sys.argv[2])
props = sys.argv[3:] or [f"C{i:02d}" for i in range(1, 21)]
WT = f"/tmp/seedimp-{os.getpid()}"
HEAD = subprocess.run("git -C /repo rev-parse --short HEAD", shell=True, capture_output=True, text=True).stdout.strip()
sh(f"git -C /repo worktree add -q --detach {WT} {HEAD}")
for pid in props:
    out = f"{prefix}-{pid.lower()}-out"
    for k in (1, 2, 3):
        sid = f"{pid}-{first + k - 1}"
        if not os.path.exists(f"{out}/patch{k}.diff"):
            print(sid, "no delivery"); continue
        meta = json.load(open(f"{out}/meta{k}.json"))
        how = meta.get("demo_how_to_run", "")
        m = re.search(r"/tmp/seed-c\d\d/([A-Za-z0-9_/.-]*)", how)
        dest = (m.group(1) if m else "").strip("/")
        files = [f for f in glob.glob(f"{out}/demo{k}/**/*.go", recursive=True)]
        # demo trees that mirror the repo layout go to the root
        rel = [os.path.relpath(f, f"{out}/demo{k}") for f in files]
        if any("/" in r for r in rel): dest = ""
        elif not dest and files:
            pk = re.search(r"^package\s+(\w+)", open(files[0]).read(), re.M).group(1).replace("_test", "")
            dest = {"middleware": "middleware", "client": "client", "security": "security", "runtime": "", "denco": "middleware/denco", "untyped": "middleware/untyped", "header": "middleware/header", "yamlpc": "yamlpc"}.get(pk, "")
        def put():
            for f, r in zip(files, rel):
                d = os.path.join(WT, dest, r); os.makedirs(os.path.dirname(d), exist_ok=True); shutil.copy(f, d)
        def rm():
            for r in rel:
                try: os.remove(os.path.join(WT, dest, r))
                except FileNotFoundError: pass
        pkgdirs = sorted({os.path.dirname(os.path.join(dest, r)) or "." for r in rel})
        pk = " ".join("./" + p if p != "." else "." for p in pkgdirs)
        race = "-race " if "-race" in how else ""
        runrx = re.search(r"-run\s+'?\"?([^\s'\"]+)", how)
        rx = runrx.group(1) if runrx else "."
        sh(f"git -C {WT} checkout -q -- . && git -C {WT} clean -fdq")
        put(); a = sh(f"go test {race}-vet=off -count=1 -run '{rx}' {pk}", cwd=WT); rm()
        r = sh(f"git -C {WT} apply {out}/patch{k}.diff")
        if r.returncode: print(sid, "PATCH DOES NOT APPLY"); continue
        s = None
        for _ in range(2):
            s = sh("go test -vet=off -count=1 ./...", cwd=WT)
            if s.returncode == 0: break
        put(); b = sh(f"go test {race}-vet=off -count=1 -run '{rx}' {pk}", cwd=WT); rm()
        ok = (a.returncode == 0, s.returncode == 0, b.returncode != 0)
        print(sid, "demo passes without:", ok[0], "suite passes with:", ok[1], "demo fails with:", ok[2], "| dest", dest or ".", "rx", rx, flush=True)
        if not all(ok):
            print("   NOT KEPT", (a.stdout + a.stderr)[-300:] if not ok[0] else "", (s.stdout)[-300:] if not ok[1] else ""); continue
        d = f"/verif/seeded/{sid}"
        if os.path.exists(d): shutil.rmtree(d)
        os.makedirs(d); shutil.copy(f"{out}/patch{k}.diff", f"{d}/patch.diff"); shutil.copytree(f"{out}/demo{k}", f"{d}/demo")
        meta.update({"id": sid, "base_commit": HEAD, "confirmed_by_lead": {"suite_passes_with_change": True, "demo_fails_with_change": True, "demo_passes_without_change": True, "how": "tools/seedimport.py in a scratch worktree of /repo at " + HEAD}})
        json.dump(meta, open(f"{d}/meta.json", "w"), indent=1)
sh(f"git -C /repo worktree remove --force {WT}")
