#!/bin/bash
# tools/seedtest.sh <Cxx> <k> <demo dest dir rel. to repo> <go test pkg> <-run regex> [tier]
# Verifies one seeded change delivered in /tmp/seed-cxx-out: (1) suite passes with it, (2) demo fails
# with it, (3) demo passes without it, (4) what the check says. Leaves the worktree clean.
set -u
export GOFLAGS=-mod=mod GOPROXY=off GOSUMDB=off GOTOOLCHAIN=local
id=$1; k=$2; dest=$3; pkg=$4; rx=$5; tier=${6:-quick}
lc=$(echo $id | tr A-Z a-z); wt=/tmp/seed-$lc; out=${SEED_OUT:-/tmp/seed-$lc-out}
cd $wt || exit 2
git checkout -q -- . ; git clean -fdq
demo_files=$(cd $out/demo$k && find . -type f -name '*.go')
put_demo() { for f in $demo_files; do mkdir -p "$wt/$dest/$(dirname $f)"; cp "$out/demo$k/$f" "$wt/$dest/$f"; done; }
rm_demo() { for f in $demo_files; do rm -f "$wt/$dest/$f"; done; }
put_demo; if go test -vet=off -count=1 -run "$rx" $pkg >/tmp/seedtest-$lc.log 2>&1; then echo "demo passes WITHOUT change: ok"; else echo "demo FAILS without change (bad)"; tail -5 /tmp/seedtest-$lc.log; fi; rm_demo
git apply $out/patch$k.diff || { echo "patch does not apply"; exit 1; }
s=fail; for t in 1 2; do if go test -vet=off -count=1 ./... >/tmp/seedtest-$lc.log 2>&1; then s=pass; break; fi; done; echo "suite WITH change: $s"; [ $s = fail ] && grep -A3 "^--- FAIL" /tmp/seedtest-$lc.log | head
put_demo; if go test -vet=off -count=1 -run "$rx" $pkg >/tmp/seedtest-$lc.log 2>&1; then echo "demo PASSES with change (bad)"; else echo "demo fails WITH change: ok"; fi; rm_demo
cd /verif; VERIF_REPO=$wt ./run $id $tier 2>&1 | grep -E "^(VIOLATION|KNOWN|C[0-9]+ (quick|thorough)|  class)" | cut -c1-260
cd $wt; git checkout -q -- . ; git clean -fdq; rm -f /tmp/seedtest-$lc.log
