#!/usr/bin/env python3
"""tools/mutrun.py <out.jsonl> <per-property-cap> [props...]
Mechanical mutation analysis of the anchored mechanisms: for every property, the functions that overlap
the line ranges of its anchors are mutated by tools/mutgen (operator swaps, negated conditions, deleted
statements); a deterministic sample of at most <cap> compiling mutants per property is taken; the
property's quick check (and, when that is silent, the quick checks of the other properties anchored in
the same file) is run against each; a mutant no check reports is then given to the repository's own test
suite: if that passes too it is either a gap of the checks or an equivalent mutant (SURVIVED, to be
classified by hand), otherwise the suite alone catches it (SUITE-ONLY). One JSON line per mutant."""
import json, os, re, subprocess, sys, hashlib
env = dict(os.environ, GOFLAGS="-mod=mod", GOPROXY="off", GOSUMDB="off", GOTOOLCHAIN="local")
def sh(cmd, **kw):
    return subprocess.run(cmd, shell=True, capture_output=True, text=True, errors="replace", env=env, **kw)
out_path, cap = sys.argv[1], int(sys.argv[2])
props = sys.argv[3:] or [f"C{i:02d}" for i in range(1, 21)]
P = {}
for l in open("/verif/properties.jsonl"):
    d = json.loads(l); P[d["id"]] = d
anchors = {k: set(v["anchors"]["files"]) for k, v in P.items()}
WT = f"/tmp/mut-{os.getpid()}"
sh(f"git -C /repo worktree add -q --detach {WT} HEAD")
sh("go build -o /tmp/mutgen-bin ./tools/mutgen", cwd="/verif")
out = open(out_path, "a")
for pid in props:
    muts = []
    for m in P[pid]["anchors"]["mechanism"]:
        w = m["where"]
        for part in w.split(";"):
            mm = re.match(r"\s*([\w/.\-]+\.go):([\d,\- ]+)", part)
            if not mm: continue
            f, rng = mm.group(1), mm.group(2).replace(" ", "")
            if not os.path.exists(f"{WT}/{f}"): continue
            r = sh(f"/tmp/mutgen-bin {WT}/{f} {rng}")
            for ln in r.stdout.splitlines():
                try: x = json.loads(ln)
                except Exception: continue
                x["rel"] = f; muts.append(x)
    # de-duplicate and take a deterministic sample
    seen, uniq = set(), []
    for x in muts:
        k = (x["rel"], x["start"], x["end"], x["text"])
        if k not in seen: seen.add(k); uniq.append(x)
    uniq.sort(key=lambda x: hashlib.sha256(f'{x["rel"]}:{x["start"]}:{x["text"]}'.encode()).hexdigest())
    tried = compiled = killed = 0
    for x in uniq:
        if compiled >= cap: break
        tried += 1
        sh(f"git -C {WT} checkout -q -- . && git -C {WT} clean -fdq")
        path = f'{WT}/{x["rel"]}'
        src = open(path, "rb").read()
        open(path, "wb").write(src[:x["start"]] + x["text"].encode() + src[x["end"]:])
        if sh("go build ./...", cwd=WT).returncode:
            continue  # does not compile
        compiled += 1
        # the checks first (cheap); the repository's suite only for mutants the checks do not report
        checks = [pid] + sorted(c for c, a in anchors.items() if c != pid and x["rel"] in a)
        verdict, by = "SURVIVED", None
        for c in checks:
            r = sh(f"VERIF_REPO={WT} /verif/run {c} quick", cwd="/verif")
            if "VIOLATION" in r.stdout:
                cl = re.findall(r"^  class=(\S+) cases=(\d+)", r.stdout, re.M)
                verdict, by = "KILLED", f"{c}: " + ", ".join(f"{a} ({n})" for a, n in cl[:3]); break
            if r.returncode not in (0, 1):
                verdict, by = "CHECK-ERROR", f"{c}: exit {r.returncode} {(r.stderr or r.stdout)[-200:]}"; break
        if verdict == "SURVIVED":
            pkg = "./" + (os.path.dirname(x["rel"]) or ".") + "/"
            if sh(f"go test -vet=off -count=1 {pkg}", cwd=WT).returncode:
                verdict, by = "SUITE-ONLY", "killed by the package's own tests, not by a check"
            else:
                ok = False
                for _ in range(2):
                    if sh("go test -vet=off -count=1 ./...", cwd=WT).returncode == 0: ok = True; break
                if not ok: verdict, by = "SUITE-ONLY", "killed by the repository's suite, not by a check"
        if verdict == "KILLED": killed += 1
        rec = {"property": pid, "file": x["rel"], "line": x["line"], "what": x["what"], "verdict": verdict, "by": by,
               "diff": sh(f"git -C {WT} diff").stdout}
        out.write(json.dumps(rec) + "\n"); out.flush()
        print(pid, x["rel"], x["line"], x["what"][:70], "->", verdict, (by or "")[:100], flush=True)
    print(f"{pid}: {len(uniq)} mutants generated, {tried} tried, {compiled} compiled, {killed} reported by a check", flush=True)
sh(f"git -C /repo worktree remove --force {WT}")
