#!/usr/bin/env python3
"""tools/mutsummary.py <jsonl files...> : summarise a mutation run (tools/mutrun.py) into notes/mutation-results.json
and print the per-property table. Survivors are classified by the hand-written table below (made by reading each diff)."""
import json, sys, collections
CLASS = {  # (file, line, first words of 'what') -> classification
 ("middleware/router.go",358,"HasAuth"): "GAP (C02, C09): an unsecured operation is refused when Authorize is called directly / by a typed handler; now reported by C02 (no-requirements/refused-by-security) and C09 (history/authorize-without-auth)",
 ("middleware/router.go",364,"NeedsAuth"): "equivalent for every request served (a fresh route has no Authenticator); NeedsAuth() called directly on an unsecured route is outside the texts",
 ("middleware/router.go",215,"Authenticate"): "GAP, small (C02): only reachable by calling the singular RouteAuthenticator.Authenticate on an anonymous alternative; now reported by C02's singular level",
 ("middleware/router.go",244,"Authenticate"): "crashed C09 (nil dereference in the code under test): now reported as history/panic and panic-free-running",
 ("middleware/router.go",315,"Authenticate"): "equivalent: the AND loop never returns an error together with a principal",
 ("middleware/router.go",273,"stringSliceIntersection"): "outside the texts (CommonScopes)",
 ("middleware/router.go",392,"Lookup"): "crashed C09 (index out of range in the code under test): now reported as history/panic",
 ("middleware/context.go",149,"newRoutableUntypedAPI"): "equivalent: the secure wrapper passes routes that need no auth straight on (the C09 run failed on a transient go build cache error, retried since)",
 ("middleware/context.go",124,"newRoutableUntypedAPI"): "equivalent behind the router: RouteInfo finds the route in the context and returns the request itself",
 ("middleware/context.go",513,"BindAndValidate"): "logging only (the comparison is an argument of a debug log call)",
 ("middleware/context.go",596,"Respond"): "the corner without any registered producer, left open by C08's text",
 ("middleware/not_implemented.go",40,"WriteResponse"): "equivalent under the module's Go version (panic(nil) after a successful Produce is recovered as no panic)",
 ("middleware/validation.go",111,"contentType"): "crashed C09 (nil dereference in the code under test): now reported as history/panic",
 ("middleware/request.go",88,"Bind"): "crashed C09 (nil dereference in the code under test): now reported as history/panic",
 ("middleware/parameter.go",333,"setFieldValue"): "GAP (C03): the branch is only reached when binding into a plain []byte struct field; now reported (structalt level)",
 ("client/request.go",249,"buildHTTP"): "equivalent: the header was already set by the branch that chose the body (lines 140/147/229)",
 ("client/request.go",140,"buildHTTP"): "equivalent: set again at DoneChoosingBodySource (line 249)",
 ("client/request.go",129,"buildHTTP"): "panic inside the library's own writer goroutine kills any process, the repository's suite included (not a change that passes the tests)",
 ("client/runtime.go",510,"Submit"): "Debug output only",
 ("middleware/denco/router.go",74,"Build"): "equivalent below MaxSize records",
 ("middleware/denco/router.go",217,"lookup"): "unbounded recursion (fatal stack overflow): the repository's own tests die as well (not a change that passes the tests)",
 ("middleware/denco/router.go",287,"build"): "unbounded recursion: the repository's own tests die as well",
 ("middleware/denco/router.go",340,"findBase"): "Build never returns and allocates without bound: the repository's own tests hang as well; the check now gives up cleanly (heap watchdog)",
 ("middleware/header/header.go",83,"ParseTime"): "outside C07 (ParseTime)",
 ("middleware/header/header.go",225,"ParseAccept"): "only differs for parameters without a value, which are not media type parameters (outside the statement's q clauses)",
 ("csv.go",314,"pipeCSV"): "output loop that never ends: the repository's own tests hang as well; the check now gives up cleanly (heap watchdog)",
 ("csv.go",121,"CSVConsumer"): "crashed C16's schedule part (panic in the solo run): now reported as overlapping-calls/call-panics-alone and panic",
 ("csv.go",276,"CSVProducer"): "crashed C16's schedule part: now reported",
 ("csv_options.go",67,"applyToWriter"): "line ends of produced text: the records delivered are the same (outside the statement)",
 ("request.go",94,"HasContent"): "equivalent: Peek(1) without error returns one byte",
 ("middleware/untyped/api.go",123,"RegisterConsumer"): "equivalent: NewAPI initialises the map",
 ("middleware/untyped/api.go",110,"RegisterAuth"): "equivalent: NewAPI initialises the map",
 ("client/request.go",210,"buildHTTP"): "panic inside the client's own writer goroutine: the repository's client tests die as well; crashed C12's fault workers at first, now reported (panic/in-a-goroutine-of-the-client)",
 ("client/request.go",128,"buildHTTP"): "nil dereference in buildHTTP: the repository's client tests fail as well; crashed C12 at first, now reported (panic)",
 ("client/request.go",108,"buildHTTP"): "nil dereference in Submit: the repository's client tests fail as well; crashed C12's deadline sweep at first, now reported (panic)",
 ("client/runtime.go",445,"Submit"): "nil dereference in Submit: the repository's client tests fail as well; crashed C12's fault workers at first, now reported",
 ("client/runtime.go",491,"Submit"): "nil dereference in Submit: the repository's client tests fail as well; crashed C13's schedule workers and race pass at first, now reported (panic, history/panic, panic-free-running)",
 ("client/runtime.go",450,"Submit"): "the lazily built client is never stored: nil dereference; the repository's client tests fail as well; crashed C13 at first, now reported",
 ("client/runtime.go",545,"SetLogger"): "logging only",
 ("client/request.go",83,"isMultipart"): "every body without files becomes a pipe nobody writes: made C11 wait for hours at first; now reported (hang, form-unparseable, content-type-header/multipart) thanks to the two-stage hang horizon; every run also has a hard deadline now",
 ("client/request.go",139,"buildHTTP"): "same family as the isMultipart mutant (the run was interrupted while C11 was blocked on it)",
 ("middleware/ui_options.go",169,"serveUI"): "Content-Type of the 404 of a UI middleware without next handler: the text fixes the status only",
}
rows=[]
for f in sys.argv[1:]:
    for l in open(f): rows.append(json.loads(l))
out=[]; table=collections.OrderedDict()
for r in rows:
    cl=None
    if r['verdict'] in ('SURVIVED','CHECK-ERROR'):
        w=r['what']
        if 'debugLogf' in w or 'log.Println' in w or 'SetLogger' in w or 'setDebugLogf' in w: cl='logging only'
        else:
            for (f,l,fn),c in CLASS.items():
                if r['file']==f and r['line']==l and w.startswith(fn): cl=c
        if cl is None: cl='UNCLASSIFIED'
    t=table.setdefault(r['property'],collections.Counter()); t[r['verdict']]+=1
    if cl and cl.startswith('GAP'): t['gap']+=1
    out.append({k:r[k] for k in ('property','file','line','what','verdict','by')}|({'classification':cl} if cl else {}))
json.dump({'generated_by':'tools/mutrun.py + tools/mutsummary.py','mutants':out},open('/verif/notes/mutation-results.json','w'),indent=1)
print('| id | compiled | reported by a check | repo suite only | no verdict at first | silent | of which gaps (fixed) |'); print('|---|---|---|---|---|---|---|')
tot=collections.Counter()
for p,t in sorted(table.items()):
    n=sum(t[v] for v in ('KILLED','SUITE-ONLY','SURVIVED','CHECK-ERROR'))
    print(f"| {p} | {n} | {t['KILLED']} | {t['SUITE-ONLY']} | {t['CHECK-ERROR']} | {t['SURVIVED']} | {t['gap']} |")
    for k in t: tot[k]+=t[k]
n=sum(tot[v] for v in ('KILLED','SUITE-ONLY','SURVIVED','CHECK-ERROR'))
print(f"| all | {n} | {tot['KILLED']} | {tot['SUITE-ONLY']} | {tot['CHECK-ERROR']} | {tot['SURVIVED']} | {tot['gap']} |")
unc=[o for o in out if o.get('classification')=='UNCLASSIFIED']
print(len(unc),'unclassified'); 
for o in unc: print('  ',o['property'],o['file'],o['line'],o['what'][:80])
