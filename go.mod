module verif

go 1.23

require (
	github.com/go-openapi/runtime v0.0.0
	github.com/docker/go-units v0.5.0
	github.com/go-openapi/analysis v0.23.0
	github.com/go-openapi/errors v0.22.1
	github.com/go-openapi/loads v0.22.0
	github.com/go-openapi/spec v0.21.0
	github.com/go-openapi/strfmt v0.23.0
	github.com/go-openapi/swag v0.23.1
	github.com/go-openapi/validate v0.24.0
	github.com/opentracing/opentracing-go v1.2.0
	github.com/stretchr/testify v1.10.0
	go.opentelemetry.io/otel v1.24.0
	go.opentelemetry.io/otel/sdk v1.24.0
	go.opentelemetry.io/otel/trace v1.24.0
	golang.org/x/sync v0.11.0
	gopkg.in/yaml.v3 v3.0.1
	github.com/asaskevich/govalidator v0.0.0-20230301143203-a9d515a09cc2
	github.com/davecgh/go-spew v1.1.1
	github.com/go-logr/logr v1.4.1
	github.com/go-logr/stdr v1.2.2
	github.com/go-openapi/jsonpointer v0.21.0
	github.com/go-openapi/jsonreference v0.21.0
	github.com/google/uuid v1.6.0
	github.com/josharian/intern v1.0.0
	github.com/mailru/easyjson v0.9.0
	github.com/mitchellh/mapstructure v1.5.0
	github.com/oklog/ulid v1.3.1
	github.com/pmezard/go-difflib v1.0.0
	go.mongodb.org/mongo-driver v1.14.0
	go.opentelemetry.io/otel/metric v1.24.0
	golang.org/x/sys v0.17.0
)

replace github.com/go-openapi/runtime => /repo
